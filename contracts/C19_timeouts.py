"""C19 -- timeouts are enforced on every OS process.

Proof of the *plumbing* (DESIGN "### C19"):
 (1) choke point: the only places of the source tree that can start an OS process are
     util/process_execution/process_executor.py (test-case processes) and processing/preprocessor.py;
 (2) ProcessExecutor.execute forwards `timeout=settings.timeout_in_seconds`; TimeoutExpired becomes
     ProcessExecutionException, which CommandExecutorFromProcessExecutor turns into HardErrorException
     (contracts shared with C10, module C10_process);
 (3) every site between an instruction environment and the command executor hands on the environment's
     settings (or its timeout) unchanged;
 (4) the environment's settings are built, at the time the environment is requested, from the current
     InstructionSettings, whose only writer is the main step of the `timeout` instruction.
The liveness half (the child is killed, the call returns promptly) is CPython's subprocess: trusted."""
import ast
import os
import pathlib

from pyvc import REPO_SRC
from pyvc.api import (Module, Interface, Method, Iface, Inst, Int, Nat, Bool, Str, Opt, OneOf, Const, Union,
                      ListOf, FixedList, Any_, EnumOf, Custom, new_opaque, assume_pred)
from contracts.common import implies, iff
from contracts.C10_process import (SETTINGS, CommandExecutorI, OsServicesI, FsPathI, FileI, FileCtxI, StdinCtxI,
                                   executions, execution_results, timeout_of, environ_of, EXECUTE, _mk_hard_error,
                                   DirFileSpaceI, ContentsI, StringSourceI, STRING_SOURCE, BOTH,
                                   stdin_file_is, stdin_parts_of)
import subprocess

from exactly_lib.test_case.hard_error import HardErrorException
from exactly_lib.util.process_execution.execution_elements import ProcessExecutionSettings
from exactly_lib.util.process_execution.result_files import DirWithResultFiles

M = Module('C19')
# written against the real bodies of the validator combinators etc.: contracts of other modules are used only
# where the arguments have the shapes those contracts are stated for
M.foreign_contracts = 'fit'

M.trust('subprocess.call(..., timeout=t): when the child has not exited after t seconds it is killed and '
        'subprocess.TimeoutExpired is raised promptly; timeout=None waits without limit (CPython subprocess; '
        'grandchildren of a shell child, SIGTERM handling and wall-clock bounds are outside what a deductive '
        'proof about this repository can establish)')


# ------------------------------------------------------------------------------ (1) the choke point

PROCESS_STARTERS = {
    'subprocess': None,      # every attribute of subprocess except the constants below
    'os': ('system', 'popen', 'fork', 'forkpty', 'posix_spawn', 'posix_spawnp', 'startfile'),
    'os-prefixes': ('exec', 'spawn'),
    'pty': None, 'multiprocessing': None, 'concurrent.futures': None, 'asyncio': None, 'pexpect': None,
    'commands': None, 'popen2': None,
}
HARMLESS_SUBPROCESS_NAMES = ('DEVNULL', 'PIPE', 'STDOUT', 'TimeoutExpired', 'CalledProcessError', 'SubprocessError')
ALLOWED_FILES = ('util/process_execution/process_executor.py', 'processing/preprocessor.py')


def _process_start_references(tree):
    """(lineno, text) of every reference in a module that could start an OS process"""
    found = []
    mod_alias = {}      # local name -> module it stands for
    for n in ast.walk(tree):
        if isinstance(n, ast.Import):
            for al in n.names:
                root = al.name.split('.')[0]
                if al.name in PROCESS_STARTERS or root in PROCESS_STARTERS:
                    mod_alias[al.asname or root] = al.name if al.asname else root
                if root in ('pty', 'multiprocessing', 'asyncio', 'pexpect', 'commands', 'popen2') \
                        or al.name.startswith('concurrent.futures'):
                    found.append((n.lineno, 'import ' + al.name))
        elif isinstance(n, ast.ImportFrom) and n.module:
            root = n.module.split('.')[0]
            if root == 'subprocess':
                for al in n.names:
                    if al.name not in HARMLESS_SUBPROCESS_NAMES:
                        found.append((n.lineno, 'from subprocess import ' + al.name))
            elif root == 'os' and n.module == 'os':
                for al in n.names:
                    if al.name in PROCESS_STARTERS['os'] or al.name.startswith(PROCESS_STARTERS['os-prefixes']):
                        found.append((n.lineno, 'from os import ' + al.name))
            elif root in ('pty', 'multiprocessing', 'asyncio', 'pexpect', 'commands', 'popen2') \
                    or n.module.startswith('concurrent.futures'):
                found.append((n.lineno, 'from %s import ...' % n.module))
    for n in ast.walk(tree):
        if isinstance(n, ast.Attribute) and isinstance(n.value, ast.Name):
            m = mod_alias.get(n.value.id)
            if m == 'subprocess' and n.attr not in HARMLESS_SUBPROCESS_NAMES:
                found.append((n.lineno, 'subprocess.' + n.attr))
            elif m == 'os' and (n.attr in PROCESS_STARTERS['os'] or n.attr.startswith(PROCESS_STARTERS['os-prefixes'])):
                found.append((n.lineno, 'os.' + n.attr))
        elif isinstance(n, ast.Call) and isinstance(n.func, ast.Name) and n.func.id in ('__import__', 'eval', 'exec'):
            # dynamic code could hide a process start: only the known uses are accepted
            found.append((n.lineno, n.func.id + '(...)'))
    return sorted(set(found))


# Dynamic evaluation sites of the unchanged tree, listed by name so that a new one fails the obligation.
# evaluate_integer.python_evaluate is `eval(s)` of an integer expression written in the test case: the
# expression is arbitrary Python, so a test author CAN start a process there (natively confirmed:
# python_evaluate("__import__('os').system('sleep 100')") runs the command, without any timeout).  That
# process is started by the test author's expression, not by one of the program uses the property lists
# (action to check, run/$/%, programs as text sources / transformers / matchers); it is recorded as an
# explicit assumption and reported in notes/C19.md.
ALLOWED_DYNAMIC = {
    'impls/types/integer/evaluate_integer.py': ('eval(...)',),
}
M.assume('integer expressions of a test case (evaluated by impls/types/integer/evaluate_integer.python_evaluate with '
         'the builtin eval) do not themselves start OS processes; the frame obligation `choke-point` accepts exactly '
         'this one eval site')


@M.check('choke-point')
def _choke_point(ctx):
    root = os.path.join(REPO_SRC, 'exactly_lib')
    per_file = {}
    n_files = 0
    for dirpath, _dirs, files in os.walk(root):
        for fn in files:
            if not fn.endswith('.py'):
                continue
            n_files += 1
            path = os.path.join(dirpath, fn)
            rel = os.path.relpath(path, root).replace(os.sep, '/')
            refs = _process_start_references(ast.parse(open(path, encoding='utf-8').read(), path))
            refs = [r for r in refs if r[1] not in ALLOWED_DYNAMIC.get(rel, ())]
            if refs:
                per_file[rel] = refs
    ctx.obligation('source tree scanned', n_files > 1000, 'scan', detail={'files': n_files})
    for rel in sorted(set(per_file) | set(ALLOWED_FILES)):
        refs = per_file.get(rel, [])
        if rel in ALLOWED_FILES:
            ok = [r[1] for r in refs] == ['subprocess.call']
            ctx.obligation('choke point: %s starts processes only through one subprocess.call' % rel, ok, 'scan',
                           detail={'references': refs})
        else:
            ctx.obligation('choke point: %s does not reference a process-starting function' % rel, False, 'scan',
                           detail={'references': refs})
    ctx.obligation('choke point: no file outside %s references a process-starting function' % (ALLOWED_FILES,),
                   set(per_file) <= set(ALLOWED_FILES), 'scan', detail={'offending': sorted(set(per_file) - set(ALLOWED_FILES))})


# ------------------------------------------------------------------------------ (3) plumbing: spec vocabulary
# A *process start request* is a call of `execute` on the (opaque) CommandExecutor of the OS services; it is
# a ghost event carrying the settings object it was given (contracts.C10_process.CommandExecutorI).

def all_use(trace, executor, settings):
    """every process start requested on this path went to `executor` and carried exactly the object
    `settings` (hence its timeout)"""
    return all([ex is executor and s is settings for (ex, _c, s, _f) in executions(trace)])


def all_use_timeout(trace, executor, timeout):
    """every process start requested on this path went to `executor` with settings whose timeout is `timeout`"""
    return all([ex is executor and timeout_of(s) == timeout for (ex, _c, s, _f) in executions(trace)])


def one_start(trace, command):
    """exactly one process start was requested, for `command`, and it returned"""
    es = executions(trace)
    return len(es) == 1 and es[0][1] is command and len(execution_results(trace)) == 1


# ------------------------------------------------------------------------------ processors

from exactly_lib.impls.program_execution.processors import store_result_in_files, read_stderr_on_error, \
    w_exit_code_handling

P_SRF = 'exactly_lib.impls.program_execution.processors.store_result_in_files'
P_RSE = 'exactly_lib.impls.program_execution.processors.read_stderr_on_error'
P_WEH = 'exactly_lib.impls.program_execution.processors.w_exit_code_handling'

EXECUTOR = Iface(CommandExecutorI)
DIR_W_RESULT_FILES = Inst(DirWithResultFiles, _directory=Iface(FsPathI))


class TextReaderI(Interface):
    methods = {'read': Method(returns=Str)}


STORES_RESULT = Inst(store_result_in_files.ProcessorThatStoresResultInFilesInDir,
                     _storage_dir_created_on_demand=DIR_W_RESULT_FILES, _executor=EXECUTOR, _stdin=Iface(StdinCtxI))
STORES_STDERR = Inst(store_result_in_files.ProcessorThatStoresStderrInFiles,
                     _stderr_path_created_on_demand=Iface(FsPathI), _executor=EXECUTOR,
                     _stdin=Iface(StdinCtxI), _stdout=Iface(StdinCtxI))
READS_STDERR_W_FILES = Inst(read_stderr_on_error.ProcessorThatStoresResultInFilesInDirAndReadsStderrOnNonZeroExitCode,
                            _executor=STORES_RESULT, _stderr_msg_reader=Iface(TextReaderI))
READS_STDERR = Inst(read_stderr_on_error.ProcessorThatReadsStderrOnNonZeroExitCode,
                    _executor=EXECUTOR, _tmp_file_space=Iface(DirFileSpaceI),
                    _stdin=Iface(StdinCtxI), _stdout=Iface(StdinCtxI), _stderr_msg_reader=Iface(TextReaderI))


def _executor_of(processor):
    e = processor._executor
    return e._executor if isinstance(e, store_result_in_files.ProcessorThatStoresResultInFilesInDir) else e


for _q, _shape in ((P_SRF + ':ProcessorThatStoresResultInFilesInDir.process', STORES_RESULT),
                   (P_SRF + ':ProcessorThatStoresStderrInFiles.process', STORES_STDERR),
                   (P_RSE + ':ProcessorThatStoresResultInFilesInDirAndReadsStderrOnNonZeroExitCode.process',
                    READS_STDERR_W_FILES),
                   (P_RSE + ':ProcessorThatReadsStderrOnNonZeroExitCode.process', READS_STDERR)):
    M.contract(_q, inline=True, params=dict(self=_shape, settings=SETTINGS, command=Any_),
               ensures={
                   'one process start, with the given settings object (its timeout) unchanged':
                       lambda self, settings, command, trace:
                       one_start(trace, command) and all_use(trace, _executor_of(self), settings),
                   'exit code is the one the executor returned': lambda result, trace:
                   result.exit_code == execution_results(trace)[0],
               },
               raises={HardErrorException: {'ensures': lambda self, settings, trace:
               all_use(trace, _executor_of(self), settings)}},
               raises_only=())

from exactly_lib.type_val_prims.program.command import Command
from exactly_lib.impls.program_execution.command_processor import CommandProcessor

PROCESS = 'process'


class StructureBuilderI(Interface):
    """description trees (for error messages): opaque"""
    methods = {'build': Method(returns=Any_), 'as_render': Method(returns=Any_),
               'append_child': Method(returns=Any_), 'append_details': Method(returns=Any_)}


class CommandI(Interface):
    """a Command the site only hands on (its translation to an argv is C10)"""
    target_class = Command
    attrs = {'driver': Any_, 'arguments': Any_}
    methods = {'new_structure_builder': Method(returns=Iface(StructureBuilderI))}


A_COMMAND = Iface(CommandI)


class CommandProcessorI(Interface):
    """any CommandProcessor: `process(settings, command)` is a ghost event; returns an (exit code, stderr file) pair"""
    target_class = CommandProcessor
    methods = {PROCESS: Method(returns=Inst(store_result_in_files.ExitCodeAndStderrFile, _tuple=[Int, Iface(FsPathI)]),
                               event=PROCESS, params=['settings', 'command'], may_raise=(_mk_hard_error,))}


def processings(trace):
    return [(e[1], e[2][0], e[2][1]) for e in trace if e[0] == PROCESS]


W_EXIT_CODE_HANDLING = Inst(w_exit_code_handling.Processor, err_msg_reader=Iface(TextReaderI),
                            get_exit_code=Const(store_result_in_files.ExitCodeAndStderrFile.exit_code.fget),
                            get_stderr=Const(store_result_in_files.ExitCodeAndStderrFile.stderr.fget),
                            handled=Iface(CommandProcessorI))

M.contract(P_WEH + ':Processor.process', inline=True,
           params=dict(self=W_EXIT_CODE_HANDLING, settings=SETTINGS, command=A_COMMAND),
           ensures={
               'delegates once, with the given settings object unchanged': lambda self, settings, command, trace:
               processings(trace) == [(self.handled, settings, command)],
               'returns only when the exit code is zero': lambda result: result.exit_code == 0,
           },
           raises={HardErrorException: {'ensures': lambda self, settings, command, trace:
           processings(trace) == [(self.handled, settings, command)]}},
           raises_only=())


# ------------------------------------------------------------------------------ environments (shapes)

from exactly_lib.test_case.app_env import ApplicationEnvironment
from exactly_lib.test_case.phases.instruction_environment import (InstructionEnvironmentForPostSdsStep,
                                                                  InstructionEnvironmentForPreSdsStep, TmpFileStorage)
from exactly_lib.test_case.phases.instruction_settings import InstructionSettings
from exactly_lib.test_case.phases.act.execution_input import AtcExecutionInput

OS_SERVICES = Iface(OsServicesI)
DIR_FILE_SPACE = Iface(DirFileSpaceI)

TMP_FILE_STORAGE = Inst(TmpFileStorage, _root_dir__may_not_exist=Iface(FsPathI), _root_dir__existing=Const(None),
                        _paths_access_for_dir=DIR_FILE_SPACE)
ENV_POST_SDS = Inst(InstructionEnvironmentForPostSdsStep, _hds=Any_, _symbols=Any_, _proc_exe_settings=SETTINGS,
                    _mem_buff_size=Nat, _tmp_dir_space=TMP_FILE_STORAGE, _sds=Any_)
APP_ENV = Inst(ApplicationEnvironment, _os_services=OS_SERVICES, _process_execution_settings=SETTINGS,
               _tmp_files_space=DIR_FILE_SPACE, _mem_buff_size=Nat)


def env_timeout(environment):
    """the timeout in force for an instruction environment: the one of its process execution settings"""
    return timeout_of(environment._proc_exe_settings)


def app_env_of(app_env, os_services, environment):
    """`app_env` carries the OS services and -- unchanged, the very object -- the settings of `environment`"""
    return type(app_env) is ApplicationEnvironment and app_env._os_services is os_services \
        and app_env._process_execution_settings is environment._proc_exe_settings


# opaque chain  sdv.resolve(symbols).value_of_any_dependency(tcds).primitive(app_env):  `primitive` is a ghost
# event that records the application environment the primitive (matcher, program, file maker ...) is built with

PRIMITIVE = 'primitive'


def primitives(trace):
    """the application environments handed to `primitive(...)` on this path"""
    return [e[2][0] for e in trace if e[0] == PRIMITIVE]


def all_primitives_of(trace, os_services, environment):
    return all([app_env_of(a, os_services, environment) for a in primitives(trace)])


# ------------------------------------------------------------------------------ settings constructed from an environment

M.contract('exactly_lib.impls.actors.util.atc_proc_exe_settings:for_atc', inline=True,
           params=dict(environment=ENV_POST_SDS,
                       execution_input=Inst(AtcExecutionInput, _tuple=[Opt(Any_), Opt(Any_)])),
           ensures={
               'timeout-of-the-environment': lambda environment, result: timeout_of(result) == env_timeout(environment),
               'environ-of-the-act-phase-input': lambda execution_input, result:
               environ_of(result) == execution_input[1] and type(result) is ProcessExecutionSettings,
           }, raises_only=())

from exactly_lib.impls.instructions.multi_phase.environ import impl as environ_impl

APP_ENV_CONSTRUCTOR = Inst(environ_impl._AppEnvConstructor, _environment=ENV_POST_SDS, _os_services=OS_SERVICES)

M.contract('exactly_lib.impls.instructions.multi_phase.environ.impl:_AppEnvConstructor._proc_exe_settings', inline=True,
           params=dict(self=APP_ENV_CONSTRUCTOR, environ=Opt(Any_)),
           ensures={'timeout-of-the-environment': lambda self, environ, result:
           timeout_of(result) == env_timeout(self._environment) and environ_of(result) == environ
           and type(result) is ProcessExecutionSettings}, raises_only=())

M.contract('exactly_lib.impls.instructions.multi_phase.environ.impl:_AppEnvConstructor.of', inline=True,
           params=dict(self=APP_ENV_CONSTRUCTOR, environ=Opt(Any_)),
           ensures={'timeout-of-the-environment': lambda self, result:
           type(result) is ApplicationEnvironment and result._os_services is self._os_services
           and timeout_of(result._process_execution_settings) == env_timeout(self._environment)}, raises_only=())

P_LTRH = 'exactly_lib.impls.instructions.utils.logic_type_resolving_helper'

M.contract(P_LTRH + ':full_resolving_env_for_instruction_env', inline=True,
           params=dict(os_services=OS_SERVICES, environment=ENV_POST_SDS),
           ensures={'settings-of-the-environment-unchanged': lambda os_services, environment, result:
           app_env_of(result[2], os_services, environment)}, raises_only=())

M.contract(P_LTRH + ':resolving_helper_for_instruction_env', inline=True,
           params=dict(os_services=OS_SERVICES, environment=ENV_POST_SDS),
           ensures={'settings-of-the-environment-unchanged': lambda os_services, environment, result:
           app_env_of(result._application_environment, os_services, environment)}, raises_only=())

from exactly_lib.execution.partial_execution.impl import atc_execution

M.contract('exactly_lib.execution.partial_execution.impl.atc_execution:ActionToCheckExecutor._app_env_for_execute',
           inline=True,
           params=dict(self=Inst(atc_execution.ActionToCheckExecutor, environment_for_other_steps=ENV_POST_SDS,
                                 os_services=OS_SERVICES)),
           ensures={'settings-of-the-environment-unchanged': lambda self, result:
           app_env_of(result, self.os_services, self.environment_for_other_steps)}, raises_only=())


# ------------------------------------------------------------------------------ opaque sdv / ddv / adv chains

class PrimI(Interface):
    """whatever `primitive(app_env)` gives (file maker, model getter, matcher, program ...): an opaque object;
    what it does with the application environment it was built with is the contract of ITS class (below)"""
    attrs = {'value': Bool, 'trace': Any_, 'command': Iface(CommandI), 'stdin': ListOf(Any_),
             'transformation': ListOf(Any_)}
    methods = {'make__translate_hard_error': Method(returns=Opt(Any_)),
               'get': Method(returns=Any_, event='get', may_raise=(_mk_hard_error,)),
               'matches_w_trace': Method(returns=Iface(lambda: PrimI), event='matches_w_trace',
                                         may_raise=(_mk_hard_error,)),
               'structure': Method(returns=Any_)}


class AdvI(Interface):
    methods = {PRIMITIVE: Method(returns=Iface(PrimI), event=PRIMITIVE, params=['environment'])}


class ValidatorI(Interface):
    methods = {'validate_pre_sds_if_applicable': Method(returns=Opt(Any_)),
               'validate_post_sds_if_applicable': Method(returns=Opt(Any_))}


class DdvI(Interface):
    attrs = {'validator': Iface(ValidatorI)}
    methods = {'value_of_any_dependency': Method(returns=Iface(AdvI)),
               'value_of_any_dependency__d': Method(returns=Any_)}


class SdvI(Interface):
    attrs = {'references': Any_}
    methods = {'resolve': Method(returns=Iface(DdvI))}


SDV = Iface(SdvI)
DDV = Iface(DdvI)

# ------------------------------------------------------------------------------ instructions that build an ApplicationEnvironment

from exactly_lib.impls.instructions.multi_phase import new_file, new_dir
from exactly_lib.impls.instructions.assert_.utils import instruction_of_matcher

M.contract('exactly_lib.impls.instructions.multi_phase.new_file:_TheInstructionEmbryo.main',
           params=dict(self=Inst(new_file._TheInstructionEmbryo, _path_to_create=SDV, _file_maker=SDV, _validator=Any_),
                       environment=ENV_POST_SDS, settings=Any_, os_services=OS_SERVICES),
           returns=Opt(Any_),
           ensures={'file maker is built with the settings of the environment, unchanged':
                    lambda environment, os_services, trace:
                    len(primitives(trace)) == 1 and all_primitives_of(trace, os_services, environment)},
           raises_only=())

M.contract('exactly_lib.impls.instructions.multi_phase.new_dir:TheInstructionEmbryo.main',
           params=dict(self=Inst(new_dir.TheInstructionEmbryo, _dir_path_sdv=SDV, _file_maker=SDV, _references=Any_),
                       environment=ENV_POST_SDS, settings=Any_, os_services=OS_SERVICES),
           returns=Opt(Any_),
           ensures={'file maker is built with the settings of the environment, unchanged':
                    lambda environment, os_services, trace:
                    len(primitives(trace)) == 1 and all_primitives_of(trace, os_services, environment)},
           raises_only=())


from exactly_lib.test_case.result import pfh, sh


class FailureMessageConfigI(Interface):
    methods = {'head': Method(returns=Any_), 'tail': Method(returns=Any_)}


MATCHER_INSTRUCTION = Inst(instruction_of_matcher.Instruction, _matcher=SDV, _model_getter=SDV,
                           _failure_message_config=Iface(FailureMessageConfigI))

M.contract('exactly_lib.impls.instructions.assert_.utils.instruction_of_matcher:Instruction._execute', inline=True,
           params=dict(self=MATCHER_INSTRUCTION, os_services=OS_SERVICES, environment=ENV_POST_SDS,
                       model_getter_ddv=DDV, matcher_ddv=DDV),
           ensures={'model getter and matcher are built with the settings of the environment, unchanged':
                    lambda environment, os_services, trace:
                    len(primitives(trace)) == 2 and all_primitives_of(trace, os_services, environment)},
           raises={HardErrorException: {'ensures': lambda environment, os_services, trace:
           all_primitives_of(trace, os_services, environment)}},
           raises_only=())

M.contract('exactly_lib.impls.instructions.assert_.utils.instruction_of_matcher:Instruction.main',
           params=dict(self=MATCHER_INSTRUCTION, environment=ENV_POST_SDS, settings=Any_, os_services=OS_SERVICES),
           returns=Any_,
           ensures={
               'model getter and matcher are built with the settings of the environment, unchanged':
                   lambda environment, os_services, trace: all_primitives_of(trace, os_services, environment),
               'a hard error of the model getter or matcher (e.g. a timeout) is reported as HARD_ERROR':
                   lambda result, trace:
                   (not any([e[0] in ('get:raised', 'matches_w_trace:raised') for e in trace]))
                   or result.status is pfh.PassOrFailOrHardErrorEnum.HARD_ERROR,
           }, raises_only=())


# ------------------------------------------------------------------------------ assumed helpers outside the property

M.contract('exactly_lib.common.err_msg.std_err_contents:InitialPartReaderWithRestIndicator.read', trusted=True,
           params=dict(self=Any_, f=Any_), returns=Str)
M.trust('std_err_contents.InitialPartReaderWithRestIndicator.read only reads (an initial part of) the given open '
        'file, for an error message; it starts no process')

STDIN_OF_SEQUENCE = 'stdin.of_sequence'
M.contract('exactly_lib.impls.types.string_source.as_stdin:of_sequence', trusted=True, event=STDIN_OF_SEQUENCE,
           params=dict(stdin_parts=Any_, mem_buff_size=Any_), returns=Iface(StdinCtxI))
M.trust('as_stdin.of_sequence(parts, mem_buff_size) gives a context manager for a file with the concatenated '
        'contents of the parts; building it starts no process (a part that is itself the output of a program '
        'starts that program, when its contents are read, through ITS OWN site -- string_source/command_output, '
        'verified here -- with the settings it was built with)')

# ------------------------------------------------------------------------------ run / $ / % as an instruction

from exactly_lib.impls.instructions.multi_phase.utils import instruction_from_parts_for_executing_program as run_instr

P_RUN = 'exactly_lib.impls.instructions.multi_phase.utils.instruction_from_parts_for_executing_program'

M.contract(P_RUN + ':TheInstructionEmbryo.main', props=BOTH,
           params=dict(self=Inst(run_instr.TheInstructionEmbryo, _program=SDV),
                       environment=ENV_POST_SDS, settings=Any_, os_services=OS_SERVICES),
           returns=Inst(run_instr.ExecutionResultAndStderr, _tuple=[Int, Opt(Str), Any_, Any_]),
           ensures={
               'C10: the process runs the command of the resolved program, gets the stdin parts of the program (in '
               'order), and writes stdout / stderr into the storage directory of the instruction':
                   lambda environment, trace:
                   executions(trace)[0][1] is the_program(trace).command
                   and len([e for e in trace if e[0] == STDIN_OF_SEQUENCE]) == 1
                   and [e[1]['stdin_parts'] for e in trace if e[0] == STDIN_OF_SEQUENCE][0] is the_program(trace).stdin
                   and executions(trace)[0][3].output.out.g_path
                   is environment._tmp_dir_space._root_dir__may_not_exist / 'stdout'
                   and executions(trace)[0][3].output.err.g_path
                   is environment._tmp_dir_space._root_dir__may_not_exist / 'stderr',
               'one process start on the OS services, with the settings object of the environment (its timeout)':
                   lambda environment, os_services, trace:
                   len(executions(trace)) == 1
                   and all_use(trace, os_services.command_executor, environment._proc_exe_settings),
               'the program is built with the settings of the environment, unchanged':
                   lambda environment, os_services, trace:
                   len(primitives(trace)) == 1 and all_primitives_of(trace, os_services, environment),
               'exit code is the one the executor returned': lambda result, trace:
               result.exit_code == execution_results(trace)[0],
           },
           raises={HardErrorException: {'ensures': lambda environment, os_services, trace:
           all_use(trace, os_services.command_executor, environment._proc_exe_settings)
           and all_primitives_of(trace, os_services, environment)}},
           raises_only=())


# ------------------------------------------------------------------------------ programs as matchers / model getters

def uses_app_env(trace, app_env):
    """every process start requested on this path went to the command executor of the application
    environment's OS services and carried the environment's settings object (its timeout) unchanged"""
    return all_use(trace, app_env._os_services.command_executor, app_env._process_execution_settings)


class ProgramI(Interface):
    """a Program primitive: command, stdin parts, transformations, structure (all opaque here)"""
    attrs = {'command': A_COMMAND, 'stdin': ListOf(Iface(lambda: StringSourceI)), 'transformation': ListOf(Any_)}
    methods = {'structure': Method(returns=Any_)}


PROGRAM = Iface(ProgramI)


class ProgramAdvI(Interface):
    methods = {PRIMITIVE: Method(returns=PROGRAM, event=PRIMITIVE, params=['environment'])}


from exactly_lib.impls.instructions.assert_.process_output.impl.exit_code import getter_from_program
from exactly_lib.impls.types.matcher.impls.run_program import adv as run_matcher_adv

P_GFP = 'exactly_lib.impls.instructions.assert_.process_output.impl.exit_code.getter_from_program'

M.contract(P_GFP + ':_ExitCodeAndStderrFileGetter.get',
           params=dict(self=Inst(getter_from_program._ExitCodeAndStderrFileGetter, _program=PROGRAM, _app_env=APP_ENV)),
           returns=Inst(store_result_in_files.ExitCodeAndStderrFile, _tuple=[Int, Iface(FsPathI)]),
           ensures={
               'one process start, with the settings of the application environment the getter was built with':
                   lambda self, trace: one_start(trace, self._program.command) and uses_app_env(trace, self._app_env),
               'exit code is the one the executor returned': lambda result, trace:
               result.exit_code == execution_results(trace)[0],
           },
           raises={HardErrorException: {'ensures': lambda self, trace: uses_app_env(trace, self._app_env)}},
           raises_only=())

M.contract(P_GFP + ':_ExitCodeAndStderrFileGetterAdv.primitive',
           params=dict(self=Inst(getter_from_program._ExitCodeAndStderrFileGetterAdv, _program=Iface(ProgramAdvI)),
                       environment=APP_ENV), inline=True,
           ensures={'getter and its program are built with the given application environment': lambda environment, result, trace:
           result._app_env is environment and primitives(trace) == [environment]},
           raises_only=())


class RunConfI(Interface):
    methods = {'additional_stdin': Method(returns=ListOf(Any_)),
               'program_for_model': Method(returns=PROGRAM)}


M.contract('exactly_lib.impls.types.matcher.impls.run_program.adv:Matcher.matches_w_trace',
           params=dict(self=Inst(run_matcher_adv.Matcher, _application_environment=APP_ENV,
                                 _run_conf=Iface(RunConfI), _matcher_program=PROGRAM),
                       model=Any_),
           returns=Any_,
           ensures={
               'one process start, with the settings of the application environment the matcher was built with':
                   lambda self, trace: len(executions(trace)) == 1 and uses_app_env(trace, self._application_environment),
               'matches iff exit code 0': lambda result, trace: result.value == (execution_results(trace)[0] == 0),
           },
           raises={HardErrorException: {'ensures': lambda self, trace: uses_app_env(trace, self._application_environment)}},
           raises_only=())

M.contract('exactly_lib.impls.types.matcher.impls.run_program.adv:Adv.primitive', inline=True,
           params=dict(self=Inst(run_matcher_adv.Adv, _program=Iface(ProgramAdvI), _run_conf=Iface(RunConfI)),
                       environment=APP_ENV),
           ensures={'matcher and its program are built with the given application environment':
                    lambda environment, result, trace:
                    result._application_environment is environment and primitives(trace) == [environment]},
           raises_only=())


# ------------------------------------------------------------------------------ a child that writes into an open file
# A text that is written piecewise to ONE open file (a concatenation of sources: the stdin of a program) may have a
# part that is the output of a program: that child writes through the file DESCRIPTOR, while what Python wrote before
# may still sit in the buffer of the file OBJECT.  The parts arrive in the denoted order only if the object is flushed
# before the child is started (C10: "the stdin text denoted by the stdin settings"; C14: the text of the file is the
# text of as_str).

class OutputFileI(Interface):
    """the open text file a writer is asked to write to"""
    methods = {'flush': Method(event='flush-output'), 'write': Method(event='output.write')}


def flushed_before_the_child_writes(trace, output):
    starts = [i for i, e in enumerate(trace) if e[0] == EXECUTE]
    flushes = [i for i, e in enumerate(trace) if e[0] == 'flush-output' and e[1] is output]
    return starts == [] or (flushes != [] and flushes[0] < starts[0])


_FLUSH_CLAUSE = 'what was written to the file before is flushed before the child process writes through the descriptor'

_FLUSH_REPLAY = '''
import subprocess, tempfile, pathlib
import exactly_lib
runner = pathlib.Path(exactly_lib.__file__).parent.parent / 'default-main-program-runner.py'
case = ('[setup]\\ndef program CAT = % cat\\n    -stdin "abc"\\ndef program CAT2 = @ CAT\\n'
        '    -stdin -stdout-from % echo from-program\\n[act]\\n$ true\\n[assert]\\nstdout -from\\n  @ CAT2\\n'
        '  equals <<EOF\\nabcfrom-program\\nEOF\\n')
with tempfile.TemporaryDirectory() as d:
    d = pathlib.Path(d)
    (d / 's.case').write_text(case)
    p = subprocess.run([sys.executable, '-W', 'ignore', str(runner), 's.case'], cwd=str(d), capture_output=True,
                       text=True, env=dict(os.environ, PYTHONPATH=str(runner.parent)))
    print('exit', p.returncode, (p.stdout + p.stderr)[:60].replace(chr(10), ' | '))
    if p.returncode != 0 and "'from-program" in (p.stdout + p.stderr):
        print('stdin = "abc" followed by the output of `echo from-program`: the program receives the parts in the '
              'wrong order (the text written by Python was still in the buffer when the child wrote)')
        sys.exit(1)
sys.exit(0)
'''


# ------------------------------------------------------------------------------ programs as string transformers

from exactly_lib.impls.types.string_transformer.impl.sources import transformed_by_program as tbp
from exactly_lib.impls.types.string_transformer.impl.run_program import primitive as run_transformer_primitive
from exactly_lib.impls.types.string_transformer.impl.run_program import sdv as run_transformer_sdv

P_TBP = 'exactly_lib.impls.types.string_transformer.impl.sources.transformed_by_program'


# ContentsI / StringSourceI / STRING_SOURCE: shared with C10 (contracts.C10_process)

TRANSFORMATION_WRITER = Inst(tbp._TransformationWriter, environment=APP_ENV, _ignore_exit_code=Bool,
                             transformer=A_COMMAND)

M.contract(P_TBP + ':_TransformationWriter.write', props=('C19', 'C10', 'C14'),
           replay=lambda model, rf: _FLUSH_REPLAY if _FLUSH_CLAUSE in rf.get('obligation', '') else None,
           params=dict(self=TRANSFORMATION_WRITER, source=Iface(ContentsI), output=Iface(OutputFileI)),
           ensures={'one process start, with the settings of the application environment the writer was built with':
                    lambda self, trace: one_start(trace, self.transformer) and uses_app_env(trace, self.environment),
                    _FLUSH_CLAUSE: lambda output, trace: flushed_before_the_child_writes(trace, output)},
           raises={HardErrorException: {'ensures': lambda self, trace: uses_app_env(trace, self.environment)}},
           raises_only=())

# construction of the (lazy) transformed string source: outside the property except for what it is given
FROM_WRITER = 'transformed_string_source_from_writer'
M.contract('exactly_lib.impls.types.string_transformer.impl.sources.transformed_string_sources:'
           'transformed_string_source_from_writer', trusted=True, event=FROM_WRITER,
           params=dict(write=Any_, model=Any_, get_transformer_structure=Any_, mem_buff_size=Any_, file_name=Any_),
           returns=STRING_SOURCE)
M.trust('transformed_string_sources.transformed_string_source_from_writer(write, model, ...) builds a lazy string '
        'source; it starts no process itself: a transformed source calls the `write` callable it was given when '
        'its contents are read (C14).  string_source.impls.concat.string_source: model in contracts.C10_process')


def writers_given(trace):
    return [e[1]['write'] for e in trace if e[0] == FROM_WRITER]


def writer_of(write, environment, command):
    """`write` is the bound method _TransformationWriter.write of a writer holding exactly `environment`"""
    w = write.__self__
    return type(w) is tbp._TransformationWriter and write.__func__ is tbp._TransformationWriter.write \
        and w.environment is environment and w.transformer is command


from exactly_lib.impls.types.utils.command_w_stdin import CommandWStdin

M.contract(P_TBP + ':transformed_by_command', inline=True,
           params=dict(structure_header=Str, transformer=Inst(CommandWStdin, command=A_COMMAND, stdin=ListOf(Any_)),
                       ignore_exit_code=Bool, environment=APP_ENV, model=STRING_SOURCE),
           ensures={'the writer that will start the process holds the given application environment, unchanged':
                    lambda transformer, environment, trace:
                    len(writers_given(trace)) == 1
                    and writer_of(writers_given(trace)[0], environment, transformer.command)
                    and executions(trace) == []},
           raises_only=())


class TransformerI(Interface):
    attrs = {'is_identity_transformer': Bool}
    methods = {'transform': Method(returns=STRING_SOURCE, event='transformer.transform')}


TRANSFORMER_PROGRAM = PROGRAM

M.contract('exactly_lib.impls.types.string_transformer.sequence_resolving:resolve', trusted=True,
           params=dict(unknown_num_transformers=Any_), returns=Iface(TransformerI))
M.trust('string_transformer.sequence_resolving.resolve(transformers) combines the transformers of a program into '
        'one transformer (identity / the single one / their sequence, C05); it starts no process: a transformer '
        'that runs a program is itself a site (_RunStringTransformer.transform, verified here)')


M.contract(P_TBP + ':transformed_by_program', inline=True,
           params=dict(structure_header=Str, transformer=TRANSFORMER_PROGRAM, ignore_exit_code=Bool,
                       environment=APP_ENV, model=STRING_SOURCE),
           ensures={'the writer that will start the process holds the given application environment, unchanged':
                    lambda transformer, environment, trace:
                    len(writers_given(trace)) == 1
                    and writer_of(writers_given(trace)[0], environment, transformer.command)
                    and executions(trace) == []},
           raises_only=())

M.contract('exactly_lib.impls.types.string_transformer.impl.run_program.primitive:_RunStringTransformer.transform',
           params=dict(self=Inst(run_transformer_primitive._RunStringTransformer, _name=Str, _environment=APP_ENV,
                                 _ignore_exit_code=Bool, _program=TRANSFORMER_PROGRAM, _structure=Any_),
                       model=STRING_SOURCE),
           returns=STRING_SOURCE,
           ensures={'the writer that will start the process holds the application environment of the transformer':
                    lambda self, trace:
                    len(writers_given(trace)) == 1
                    and writer_of(writers_given(trace)[0], self._environment, self._program.command)
                    and executions(trace) == []},
           raises_only=())

M.contract('exactly_lib.impls.types.string_transformer.impl.run_program.sdv:_RunProgramAdv.primitive',
           params=dict(self=Inst(run_transformer_sdv._RunProgramAdv, _ignore_exit_code=Bool, _program=Iface(ProgramAdvI)),
                       environment=APP_ENV),
           returns=Any_,
           ensures={'transformer and its program are built with the given application environment':
                    lambda environment, result, trace:
                    type(result) is run_transformer_primitive._RunStringTransformer
                    and result._environment is environment and primitives(trace) == [environment]},
           raises_only=())


# ------------------------------------------------------------------------------ programs as text sources (command output)

from exactly_lib.impls.types.string_source.command_output import exit_ignored, exit_relevant
from exactly_lib.impls.types.string_source.command_output import string_source as cmd_string_source
from exactly_lib.impls.types.string_source import ddvs as string_source_ddvs
from exactly_lib.impls.types.string_source.contents.contents_via_file import ContentsViaFile
from exactly_lib.impls.types.string_source.contents.contents_via_write_to import ContentsViaWriteTo
from exactly_lib.impls.types.string_source.cached_frozen import StringSourceWithCachedFrozen
from exactly_lib.util.process_execution.process_output_files import ProcOutputFile

P_EXI = 'exactly_lib.impls.types.string_source.command_output.exit_ignored'
P_EXR = 'exactly_lib.impls.types.string_source.command_output.exit_relevant'
P_CSS = 'exactly_lib.impls.types.string_source.command_output.string_source'

COMMAND_W_STDIN = Inst(CommandWStdin, command=A_COMMAND, stdin=ListOf(STRING_SOURCE))


def _writer_shape(cls, **extra):
    return Inst(cls, _command=COMMAND_W_STDIN, _proc_exe_settings=SETTINGS, _command_executor=EXECUTOR, **extra)


def holds(w, settings, executor):
    """the writer / file creator `w` holds exactly the given settings object and command executor"""
    return w._proc_exe_settings is settings and w._command_executor is executor


def starts_with_held_settings(self, trace):
    return all_use(trace, self._command_executor, self._proc_exe_settings)


for _q, _shape in ((P_EXI + ':_WriterBase.write',
                    Union(_writer_shape(exit_ignored.StdoutWriter), _writer_shape(exit_ignored.StderrWriter))),
                   (P_EXR + ':StdoutWriter.write',
                    _writer_shape(exit_relevant.StdoutWriter, _stderr_msg_reader=Iface(TextReaderI)))):
    M.contract(_q, params=dict(self=_shape, tmp_file_space=DIR_FILE_SPACE, output=Iface(OutputFileI)),
               props=('C19', 'C10', 'C14'),
               replay=lambda model, rf: _FLUSH_REPLAY if _FLUSH_CLAUSE in rf.get('obligation', '') else None,
               ensures={'one process start, with the settings object (its timeout) the writer was built with':
                        lambda self, trace: one_start(trace, self._command.command) and starts_with_held_settings(self, trace),
                        _FLUSH_CLAUSE: lambda output, trace: flushed_before_the_child_writes(trace, output)},
               raises={HardErrorException: {'ensures': lambda self, trace: starts_with_held_settings(self, trace)}},
               raises_only=())

M.contract(P_EXR + ':StderrFileCreator.create',
           params=dict(self=_writer_shape(exit_relevant.StderrFileCreator, _stderr_msg_reader=Iface(TextReaderI)),
                       tmp_file_space=DIR_FILE_SPACE), returns=Iface(FsPathI),
           ensures={'one process start, with the settings object (its timeout) the file creator was built with':
                    lambda self, trace: one_start(trace, self._command.command) and starts_with_held_settings(self, trace)},
           raises={HardErrorException: {'ensures': lambda self, trace: starts_with_held_settings(self, trace)}},
           raises_only=())


def _the_starter_of(contents):
    """the object inside command-output contents that will start the process"""
    if type(contents) is ContentsViaFile:
        return contents._file_creator
    if type(contents) is ContentsViaWriteTo:
        return contents._writer
    raise ValueError('unexpected contents')


_STARTER_CLASSES = (exit_relevant.StderrFileCreator, exit_relevant.StdoutWriter,
                    exit_ignored.StdoutWriter, exit_ignored.StderrWriter)

M.contract(P_CSS + ':_writer', inline=True,
           params=dict(ignore_exit_code=Bool, output_channel_to_capture=EnumOf(ProcOutputFile), command=COMMAND_W_STDIN,
                       proc_exe_settings=SETTINGS, command_executor=EXECUTOR),
           ensures={'the writer holds the given settings and executor, unchanged':
                    lambda proc_exe_settings, command_executor, command, result:
                    type(result) in _STARTER_CLASSES and holds(result, proc_exe_settings, command_executor)
                    and result._command is command},
           raises_only=())

M.contract(P_CSS + ':_contents', inline=True,
           params=dict(ignore_exit_code=Bool, output_channel_to_capture=EnumOf(ProcOutputFile), command=COMMAND_W_STDIN,
                       proc_exe_settings=SETTINGS, command_executor=EXECUTOR, tmp_file_space=DIR_FILE_SPACE),
           ensures={'the process starter holds the given settings and executor, unchanged':
                    lambda proc_exe_settings, command_executor, command, result:
                    type(_the_starter_of(result)) in _STARTER_CLASSES
                    and holds(_the_starter_of(result), proc_exe_settings, command_executor)
                    and _the_starter_of(result)._command is command},
           raises_only=())

M.contract(P_CSS + ':string_source', inline=True,
           params=dict(structure_option=Str, ignore_exit_code=Bool, output_channel_to_capture=EnumOf(ProcOutputFile),
                       command=COMMAND_W_STDIN, proc_exe_settings=SETTINGS, command_executor=EXECUTOR,
                       mem_buff_size=Nat, tmp_file_space=DIR_FILE_SPACE),
           ensures={'no process is started yet; the starter inside holds the given settings and executor, unchanged':
                    lambda proc_exe_settings, command_executor, command, result, trace:
                    type(result) is StringSourceWithCachedFrozen and executions(trace) == []
                    and type(_the_starter_of(result._contents)) in _STARTER_CLASSES
                    and holds(_the_starter_of(result._contents), proc_exe_settings, command_executor)
                    and _the_starter_of(result._contents)._command is command},
           raises_only=())


class StringSourceAdvI(Interface):
    methods = {PRIMITIVE: Method(returns=STRING_SOURCE)}


class StringSourceDdvI(Interface):
    attrs = {'validator': Iface(ValidatorI)}
    methods = {'value_of_any_dependency': Method(returns=Iface(StringSourceAdvI))}


class CommandDdvI(Interface):
    attrs = {'validators': Any_}
    methods = {'value_of_any_dependency': Method(returns=A_COMMAND)}


M.contract('exactly_lib.impls.types.string_source.ddvs:CommandOutputStringSourceDdv.value_of_any_dependency',
           params=dict(self=Inst(string_source_ddvs.CommandOutputStringSourceDdv, _structure_header=Str,
                                 _ignore_exit_code=Bool, _output_channel_to_capture=EnumOf(ProcOutputFile),
                                 _command=Iface(CommandDdvI), _command_stdin=ListOf(Iface(StringSourceDdvI)),
                                 _validators=Any_),
                       tcds=Any_),
           ghosts=dict(app_env=APP_ENV),     # an arbitrary application environment the adv is later asked for
           ensures={'for every application environment: the text source built for it holds that environment\'s '
                    'settings object and command executor, unchanged, and building it starts no process':
                    lambda result, app_env, trace:
                    holds(_the_starter_of(result.primitive(app_env)._contents),
                          app_env._process_execution_settings, app_env._os_services.command_executor)
                    and executions(trace) == []},
           raises_only=())


# ------------------------------------------------------------------------------ stdout/stderr of a program in [assert]

from exactly_lib.impls.program_execution import file_transformation_utils as ftu
from exactly_lib.impls.exception.pfh_exception import PfhHardErrorException

P_FTU = 'exactly_lib.impls.program_execution.file_transformation_utils'

M.contract('exactly_lib.impls.file_creation:FileTransformerHelper.transform_to_file', trusted=True,
           params=dict(self=Any_, src_path=Any_, dst_path=Any_, transformer=Any_), returns=Opt(Any_))
M.trust('file_creation.FileTransformerHelper.transform_to_file applies an already built string transformer to a '
        'file; it starts no process itself (a transformer that runs a program is its own site)')

M.contract(P_FTU + ':make_transformed_file_from_output', inline=True,
           params=dict(pgm_output_dir=Iface(FsPathI), process_execution_settings=SETTINGS, os_services=OS_SERVICES,
                       tmp_file_space=DIR_FILE_SPACE, transformed_output=EnumOf(ProcOutputFile), program=PROGRAM),
           ensures={'one process start on the OS services, with the given settings object (its timeout) unchanged':
                    lambda process_execution_settings, os_services, program, trace:
                    one_start(trace, program.command)
                    and all_use(trace, os_services.command_executor, process_execution_settings)},
           raises={PfhHardErrorException: {
               'ensures': lambda process_execution_settings, os_services, exc, trace:
               all_use(trace, os_services.command_executor, process_execution_settings)
               and exc._status is pfh.PassOrFailOrHardErrorEnum.HARD_ERROR}},
           raises_only=())

M.contract(P_FTU + ':make_transformed_file_from_output_in_instruction_tmp_dir',
           params=dict(environment=ENV_POST_SDS, os_services=OS_SERVICES, checked_output=EnumOf(ProcOutputFile),
                       program=PROGRAM),
           returns=Any_,
           ensures={'one process start on the OS services, with the settings object of the environment (its timeout)':
                    lambda environment, os_services, program, trace:
                    one_start(trace, program.command)
                    and all_use(trace, os_services.command_executor, environment._proc_exe_settings)},
           raises={PfhHardErrorException: {
               'ensures': lambda environment, os_services, exc, trace:
               all_use(trace, os_services.command_executor, environment._proc_exe_settings)
               and exc._status is pfh.PassOrFailOrHardErrorEnum.HARD_ERROR}},
           raises_only=())


# ------------------------------------------------------------------------------ the action to check: actors

from exactly_lib.impls.actors.program import execution as pgm_execution
from exactly_lib.impls.actors.util.actor_from_parts import parts as actor_parts
from exactly_lib.impls.actors.util.actor_from_parts import command_executor as actor_cmd_exe
from exactly_lib.impls.actors import file_interpreter
from exactly_lib.impls.actors.source_interpreter import executor as src_interpreter_executor
from exactly_lib.util.file_utils.std import StdFiles, StdOutputFiles

from exactly_lib.impls.types.string_source.factory import RootStringSourceFactory

P_PGX = 'exactly_lib.impls.actors.program.execution'

M.contract('exactly_lib.impls.types.string_source.factory:RootStringSourceFactory.of_file__poorly_described',
           trusted=True, params=dict(self=Any_, file=Any_), returns=STRING_SOURCE, event='string-source.of-file')
M.trust('string_source.factory.RootStringSourceFactory.of_file__poorly_described(file) builds a string source for an '
        'existing file; it starts no process')


class ProgramDdvI(Interface):
    methods = {'value_of_any_dependency': Method(returns=Iface(ProgramAdvI))}


class ProgramSdvI(Interface):
    attrs = {'references': Any_}
    methods = {'resolve': Method(returns=Iface(ProgramDdvI))}


PROGRAM_SDV = Iface(ProgramSdvI)
OUTPUT_FILES = Inst(StdOutputFiles, _tuple=[Any_, Any_])
STD_FILES = Inst(StdFiles, _tuple=[Any_, OUTPUT_FILES])
PGM_EXECUTOR = Inst(pgm_execution.Executor, _os_services=OS_SERVICES, _program=PROGRAM_SDV)


def carries(app_env, os_services, settings):
    return type(app_env) is ApplicationEnvironment and app_env._os_services is os_services \
        and app_env._process_execution_settings is settings


M.contract(P_PGX + ':Executor._app_env', inline=True,
           params=dict(self=PGM_EXECUTOR, environment=ENV_POST_SDS, settings=SETTINGS),
           ensures={'the given settings object, unchanged': lambda self, settings, result:
           carries(result, self._os_services, settings)}, raises_only=())

def _written_is_transformed_stdout(trace, transformer):
    """one source is made of the file that the one process was given as stdout; the transformer is applied once, to
    that source; the contents written are those of the transformer's result"""
    of_file = [e for e in trace if e[0] == 'string-source.of-file']
    made = [e[2] for e in trace if e[0] == 'string-source.of-file:returned']
    applied = [e for e in trace if e[0] == 'transformer.transform']
    transformed = [e[2] for e in trace if e[0] == 'transformer.transform:returned']
    written = [e[1] for e in trace if e[0] == 'contents.write_to']
    return len(of_file) == 1 and len(made) == 1 and len(applied) == 1 and len(transformed) == 1 and len(written) == 1 \
        and of_file[0][1]['file'] is executions(trace)[0][3].output.out.g_path \
        and applied[0][1] is transformer and applied[0][2][0] is made[0] \
        and written[0] is transformed[0].contents()


M.contract(P_PGX + ':_ExecutorWithoutTransformation.execute', inline=True, props=BOTH,
           params=dict(self=Inst(pgm_execution._ExecutorWithoutTransformation, _app_env=APP_ENV, _command=A_COMMAND,
                                 _atc_files=STD_FILES)), returns=Int,
           ensures={
               'one process start, with the settings of the application environment, the command and the ATC files':
                   lambda self, trace: one_start(trace, self._command) and uses_app_env(trace, self._app_env)
                                       and executions(trace)[0][3] is self._atc_files,
               'exit code is the one the executor returned': lambda result, trace: result == execution_results(trace)[0],
           },
           raises={HardErrorException: {'ensures': lambda self, trace: uses_app_env(trace, self._app_env)}},
           raises_only=())

M.contract(P_PGX + ':_ExecutorWithTransformation.execute', inline=True, props=BOTH,
           params=dict(self=Inst(pgm_execution._ExecutorWithTransformation, _app_env=APP_ENV, _program=PROGRAM,
                                 _resolved_transformer_for_program=Iface(TransformerI), _atc_files=STD_FILES,
                                 _string_source_factory=Inst(RootStringSourceFactory,
                                                             _tmp_file_space=DIR_FILE_SPACE))), returns=Int,
           ensures={
               'one process start, with the settings of the application environment':
                   lambda self, trace: one_start(trace, self._program.command) and uses_app_env(trace, self._app_env),
               'stdin and stderr of the process are those of the ATC': lambda self, trace:
               executions(trace)[0][3].stdin is self._atc_files.stdin
               and executions(trace)[0][3].output.err is self._atc_files.output.err,
               'C10: the transformed stdout of the process is what is written to the stdout of the ATC':
                   lambda self, trace:
                   [e[2][0] for e in trace if e[0] == 'contents.write_to'] == [self._atc_files.output.out],
               # (seeded change C10-s9: the transformation was applied only when the exit code was 0)
               'C10: whatever the exit code, what is written is the text of the file the process had as stdout, '
               'transformed by the transformer of the program':
                   lambda self, trace:
                   _written_is_transformed_stdout(trace, self._resolved_transformer_for_program),
               'exit code is the one the executor returned': lambda result, trace: result == execution_results(trace)[0],
           },
           raises={HardErrorException: {'ensures': lambda self, trace: uses_app_env(trace, self._app_env)}},
           raises_only=())

def the_program(trace):
    return [e[2] for e in trace if e[0] == PRIMITIVE + ':returned'][0]


M.contract(P_PGX + ':Executor.execute', props=BOTH,
           params=dict(self=PGM_EXECUTOR, environment=ENV_POST_SDS, settings=SETTINGS, stdin=Opt(STRING_SOURCE),
                       output=OUTPUT_FILES), returns=Int, ghosts=dict(j=Int),
           ensures={
               'C10: the process runs the command of the resolved program': lambda trace:
               executions(trace)[0][1] is the_program(trace).command,
               'C10: stdin of the process: the stdin parts of the program, then the act-phase stdin (or /dev/null)':
                   lambda stdin, trace, j:
                   stdin_file_is(executions(trace)[0][3].stdin, stdin_parts_of(stdin, the_program(trace).stdin), trace, j),
               'C10: stderr of the process is the given stderr file; stdout is the given stdout file unless the program '
               'has transformations (then the transformed text is written to it)': lambda output, trace:
               executions(trace)[0][3].output.err is output.err
               and (executions(trace)[0][3].output.out is output.out
                    or [e[2][0] for e in trace if e[0] == 'contents.write_to'] == [output.out]),
               'one process start on the OS services, with the given settings object (its timeout) unchanged':
                   lambda self, settings, trace: len(executions(trace)) == 1
                                                 and all_use(trace, self._os_services.command_executor, settings),
               'the program is built with an application environment that carries the given settings, unchanged':
                   lambda self, settings, trace: len(primitives(trace)) == 1
                                                 and carries(primitives(trace)[0], self._os_services, settings),
               'exit code is the one the executor returned': lambda result, trace: result == execution_results(trace)[0],
           },
           raises={HardErrorException: {'ensures': lambda self, settings, trace:
           all_use(trace, self._os_services.command_executor, settings)}},
           raises_only=())


P_PARTS = 'exactly_lib.impls.actors.util.actor_from_parts.parts'
EXECUTOR_EXECUTE = 'executor.execute'


class PartsExecutorI(Interface):
    """the Executor part of an actor (program / source interpreter executors are verified above and below)"""
    target_class = actor_parts.Executor
    methods = {'execute': Method(returns=Int, event=EXECUTOR_EXECUTE,
                                 params=['environment', 'settings', 'stdin', 'output'], may_raise=(_mk_hard_error,)),
               'prepare': Method()}


ATC_INPUT = Inst(AtcExecutionInput, _tuple=[Opt(STRING_SOURCE), Opt(Any_)])


def executor_executions(trace):
    return [e[2] for e in trace if e[0] == EXECUTOR_EXECUTE]


def atc_settings(settings, environment, atc_input):
    """settings of the action to check: the TIMEOUT of the environment, the environ of the act-phase input"""
    return type(settings) is ProcessExecutionSettings and timeout_of(settings) == env_timeout(environment) \
        and environ_of(settings) == atc_input[1]


def hard_error_iff_raised(result, trace, raised_event):
    """the step result is an exit code iff the start returned; a HardErrorException (cannot start / TIMEOUT)
    gives a hard-error result -- which ActionToCheckExecutor.execute turns into HARD_ERROR of act/execute"""
    if any([e[0] == raised_event for e in trace]):
        return result.is_hard_error and not result.is_exit_code
    return result.is_exit_code and result.exit_code == [e[2] for e in trace if e[0] == raised_event[:-7] + ':returned'][0]


M.contract(P_PARTS + ':ActionToCheckFromParts.execute',
           params=dict(self=Inst(actor_parts.ActionToCheckFromParts, object_to_execute=Any_, validator_constructor=Any_,
                                 executor_constructor=Any_, _ActionToCheckFromParts__validator=Any_,
                                 _ActionToCheckFromParts__executor=Iface(PartsExecutorI),
                                 _ActionToCheckFromParts__symbol_usages=Any_),
                       environment=ENV_POST_SDS, os_services=OS_SERVICES, atc_input=ATC_INPUT, output=OUTPUT_FILES),
           returns=Any_,
           ensures={
               'the executor is run once, with the timeout of the environment and the environ/stdin of the act input':
                   lambda self, environment, atc_input, output, trace:
                   len(executor_executions(trace)) == 1
                   and executor_executions(trace)[0][0] is environment
                   and atc_settings(executor_executions(trace)[0][1], environment, atc_input)
                   and executor_executions(trace)[0][2] == atc_input[0]
                   and executor_executions(trace)[0][3] is output,
               'exit code, or hard error when the executor raised HardErrorException (e.g. timeout)':
                   lambda result, trace: hard_error_iff_raised(result, trace, EXECUTOR_EXECUTE + ':raised'),
           }, raises_only=())


class CommandSdvI(Interface):
    methods = {'resolve': Method(returns=Iface(CommandDdvI))}


class _OsProcessExecutorForProof(actor_cmd_exe.OsProcessExecutor):
    """concrete stand-in for the abstract OsProcessExecutor: the command to execute is an arbitrary CommandSdv"""

    def _command_to_execute(self, environment):
        return self.the_command_sdv


M.contract('exactly_lib.impls.actors.util.actor_from_parts.command_executor:OsProcessExecutor.execute',
           params=dict(self=Inst(_OsProcessExecutorForProof, os_services=OS_SERVICES, the_command_sdv=Iface(CommandSdvI)),
                       environment=ENV_POST_SDS, settings=SETTINGS, stdin=Opt(STRING_SOURCE), output=OUTPUT_FILES),
           returns=Int,
           ensures={
               'one process start on the OS services, with the given settings object (its timeout) unchanged':
                   lambda self, settings, trace: len(executions(trace)) == 1
                                                 and all_use(trace, self.os_services.command_executor, settings),
               'stdout/stderr of the process are the given output files': lambda output, trace:
               executions(trace)[0][3].output is output,
               'exit code is the one the executor returned': lambda result, trace: result == execution_results(trace)[0],
           },
           raises={HardErrorException: {'ensures': lambda self, settings, trace:
           all_use(trace, self.os_services.command_executor, settings)}},
           raises_only=())


class MakeCommandI(Interface):
    methods = {'__call__': Method(returns=A_COMMAND, may_raise=(_mk_hard_error,))}


M.contract('exactly_lib.impls.actors.file_interpreter:_ActionToCheck.execute',
           params=dict(self=Inst(file_interpreter._ActionToCheck, _symbol_usages=Any_, _source_file=Any_,
                                 _make_command=Iface(MakeCommandI), _validator=Any_),
                       environment=ENV_POST_SDS, os_services=OS_SERVICES, atc_input=ATC_INPUT, output=OUTPUT_FILES),
           returns=Any_,
           ensures={
               'at most one process start, on the OS services, with the timeout of the environment and the environ '
               'of the act input':
                   lambda environment, os_services, atc_input, trace:
                   len(executions(trace)) <= 1
                   and all([ex is os_services.command_executor and atc_settings(s, environment, atc_input)
                            for (ex, _c, s, _f) in executions(trace)]),
               'stdout/stderr of the process are the given output files': lambda output, trace:
               all([f.output is output for (_e, _c, _s, f) in executions(trace)]),
               'exit code iff the process start returned; else hard error (e.g. timeout)':
                   lambda result, trace:
                   (result.is_exit_code and result.exit_code == execution_results(trace)[0])
                   if len(execution_results(trace)) == 1 else (result.is_hard_error and not result.is_exit_code),
           }, raises_only=())


# ------------------------------------------------------------------------------ (4) the source of the setting

from exactly_lib.execution.partial_execution.impl import executor as partial_executor
from exactly_lib.impls.instructions.multi_phase.timeout import impl as timeout_impl
from exactly_lib.definitions import os_proc_env
from exactly_lib.test_case import phase_identifier

P_PX = 'exactly_lib.execution.partial_execution.impl.executor'
P_IS = 'exactly_lib.test_case.phases.instruction_settings'

# the environ of the settings is irrelevant here: None or some dict
INSTRUCTION_SETTINGS = Inst(InstructionSettings, _environ=Union(Const(None), Const({'VAR': 'value'})), _default_environ_getter=Any_,
                            _timeout_in_seconds=Opt(Nat))

M.contract(P_IS + ':InstructionSettings.set_timeout', inline=True,
           params=dict(self=INSTRUCTION_SETTINGS, seconds=Opt(Nat)),
           ensures={'stores-the-value (None: no limit)': lambda self, seconds: self._timeout_in_seconds == seconds},
           raises_only=())
M.contract(P_IS + ':InstructionSettings.timeout_in_seconds', inline=True,
           params=dict(self=INSTRUCTION_SETTINGS),
           ensures={'the-value-last-stored': lambda self, result: result == self._timeout_in_seconds}, raises_only=())


class ConfValuesI(Interface):
    attrs = {'hds': Any_}


class ExeConfI(Interface):
    attrs = {'mem_buff_size': Nat, 'timeout_in_seconds': Opt(Nat)}     # the initial (default) timeout


class PhaseTmpSpaceI(Interface):
    methods = {'instruction__main': Method(returns=Any_), 'instruction__validation': Method(returns=Any_)}


PARTIAL_EXECUTOR = Inst(partial_executor._PartialExecutor, conf_values=Iface(ConfValuesI), exe_conf=Iface(ExeConfI),
                        _instruction_settings=INSTRUCTION_SETTINGS,
                        _PartialExecutor__sandbox_directory_structure=Any_,
                        _PartialExecutor__post_sds_symbol_table=Any_,
                        _phase_tmp_space_factory=Iface(PhaseTmpSpaceI),
                        _action_to_check=Const(None), _instruction_environment_pre_sds=Const(None))

M.contract(P_PX + ':_PartialExecutor._post_sds_environment', inline=True,
           params=dict(self=PARTIAL_EXECUTOR, tmp_file_storage=Any_, symbols=Any_),
           ensures={'the environment carries the timeout that is in the instruction settings NOW':
                    lambda self, result: type(result) is InstructionEnvironmentForPostSdsStep
                                         and type(result._proc_exe_settings) is ProcessExecutionSettings
                                         and env_timeout(result) == self._instruction_settings._timeout_in_seconds},
           raises_only=())

M.contract(P_PX + ':_PartialExecutor._setup_pre_sds_environment',
           params=dict(self=PARTIAL_EXECUTOR, atc=Any_, symbols=Any_),
           ensures={'the pre-sds environment carries the timeout that is in the instruction settings NOW':
                    lambda self: type(self._instruction_environment_pre_sds) is InstructionEnvironmentForPreSdsStep
                                 and env_timeout(self._instruction_environment_pre_sds)
                                 == self._instruction_settings._timeout_in_seconds},
           raises_only=())


# --- the `timeout` instruction

TIMEOUT_VALUE = 'timeout-value'


class IntegerDdvI(Interface):
    methods = {'value_of_any_dependency': Method(returns=Nat, event=TIMEOUT_VALUE), 'validator': Method(returns=Any_)}


class IntegerSdvI(Interface):
    attrs = {'references': Any_}
    methods = {'resolve': Method(returns=Iface(IntegerDdvI))}


TIMEOUT_INSTRUCTION = Inst(timeout_impl.TheInstructionEmbryo, _value=Opt(Iface(IntegerSdvI)))


def value_written(instruction, trace):
    """the value denoted by `timeout = INTEGER|none`: None for none, else the integer the expression resolves to"""
    if instruction._value is None:
        return None
    return [e[2] for e in trace if e[0] == TIMEOUT_VALUE + ':returned'][0]


M.contract('exactly_lib.impls.instructions.multi_phase.timeout.impl:TheInstructionEmbryo.main', inline=True,
           params=dict(self=TIMEOUT_INSTRUCTION, environment=ENV_POST_SDS, settings=INSTRUCTION_SETTINGS,
                       os_services=OS_SERVICES),
           ensures={'stores the denoted value in the instruction settings (none: no limit)':
                    lambda self, settings, trace: settings._timeout_in_seconds == value_written(self, trace)},
           raises_only=())


def timeout_instruction_then_next_instruction(px, phase, instruction, os_services):
    """Scenario (what SetupMainExecutor / AssertMainExecutor ... .apply do for two consecutive instructions,
    the first being `timeout = ...`): each main step gets `next(environments)`."""
    environments = px._post_sds_main_environments(phase)
    env_of_timeout_instruction = next(environments)
    instruction.main(env_of_timeout_instruction, px._instruction_settings, os_services)
    env_of_next_instruction = next(environments)
    return env_of_timeout_instruction, env_of_next_instruction


M.contract('contracts.C19_timeouts:timeout_instruction_then_next_instruction',
           params=dict(px=PARTIAL_EXECUTOR, phase=OneOf(phase_identifier.SETUP, phase_identifier.BEFORE_ASSERT, phase_identifier.ASSERT,
                                         phase_identifier.CLEANUP), instruction=TIMEOUT_INSTRUCTION,
                       os_services=OS_SERVICES),
           old=lambda px: px._instruction_settings._timeout_in_seconds,
           ensures={
               'only from that point on: the environment handed out before keeps the old timeout':
                   lambda result, old: env_timeout(result[0]) == old,
               'the next instruction gets the value last set (none: no limit)':
                   lambda instruction, result, trace: env_timeout(result[1]) == value_written(instruction, trace),
           }, raises_only=())


@M.check('setting-source')
def _setting_source(ctx):
    """frame: who can write the timeout; and where the default comes from"""
    root = os.path.join(REPO_SRC, 'exactly_lib')
    writers = []
    for dirpath, _dirs, files in os.walk(root):
        for fn in files:
            if not fn.endswith('.py'):
                continue
            path = os.path.join(dirpath, fn)
            rel = os.path.relpath(path, root).replace(os.sep, '/')
            for n in ast.walk(ast.parse(open(path, encoding='utf-8').read(), path)):
                if isinstance(n, ast.Attribute) and n.attr == 'set_timeout':
                    writers.append((rel, n.lineno, 'set_timeout'))
                if isinstance(n, ast.Attribute) and n.attr == '_timeout_in_seconds' and isinstance(n.ctx, ast.Store) \
                        and rel != 'execution/configuration.py':     # PredefinedProperties: another class, read-only
                    writers.append((rel, n.lineno, '_timeout_in_seconds ='))
    expected = {('impls/instructions/multi_phase/timeout/impl.py', 'set_timeout'),
                ('test_case/phases/instruction_settings.py', '_timeout_in_seconds =')}
    ctx.obligation('the only writer of InstructionSettings._timeout_in_seconds is set_timeout, whose only caller is the '
                   'main step of the `timeout` instruction (besides the constructor)',
                   {(r, w) for (r, _l, w) in writers} == expected
                   and len([w for w in writers if w[2] == 'set_timeout']) == 1
                   and len([w for w in writers if w[2] != 'set_timeout']) == 2,
                   'scan', detail={'writers': writers})
    ctx.obligation('TIMEOUT__DEFAULT == 60', os_proc_env.TIMEOUT__DEFAULT == 60, 'enumeration',
                   detail={'value': os_proc_env.TIMEOUT__DEFAULT})


# ------------------------------------------------------------------------------ a timeout is reported as HARD_ERROR
# CommandExecutorFromProcessExecutor.execute raises HardErrorException when the process times out (C10_process).
# The instruction sites above let it propagate (or turn it into a hard-error result themselves); here: the
# generic wrappers of an instruction's main step turn HardErrorException into HARD_ERROR of that step.

from exactly_lib.impls.instructions.multi_phase.utils import instruction_part_utils, instruction_embryo
from exactly_lib.execution.impl import single_instruction_executor, phase_step_executors
from exactly_lib.execution.impl.single_instruction_executor import (PartialControlledFailureEnum,
                                                                    PartialInstructionControlledFailureInfo)
from exactly_lib.execution.result import ExecutionFailureStatus
from exactly_lib.test_case.phases.common import TestCaseInstruction

MAIN = 'main'


class MainI(Interface):
    """the main step of an arbitrary (phase agnostic) instruction embryo"""
    methods = {'__call__': Method(returns=Any_, event=MAIN, params=['environment', 'settings', 'os_services'],
                                  may_raise=(_mk_hard_error,))}


class _EmbryoForProof(instruction_embryo.PhaseAgnosticInstructionEmbryo):
    """concrete stand-in for the abstract PhaseAgnosticInstructionEmbryo: `main` is an arbitrary main step"""

    def main(self, environment, settings, os_services):
        return self.the_main(environment, settings, os_services)

    @property
    def validator(self):
        raise NotImplementedError()

    @property
    def symbol_usages(self):
        raise NotImplementedError()


class TranslatorI(Interface):
    target_class = instruction_part_utils.MainStepResultTranslator
    methods = {'translate_for_non_assertion': Method(returns=Any_), 'translate_for_assertion': Method(returns=Any_)}


MAIN_STEP_EXECUTOR = Inst(instruction_part_utils.MainStepExecutorFromMainStepExecutorEmbryo,
                          result_translator=Iface(TranslatorI),
                          main_step=Inst(_EmbryoForProof, the_main=Iface(MainI)))
P_IPU = 'exactly_lib.impls.instructions.multi_phase.utils.instruction_part_utils'


def mains(trace):
    return [e[2] for e in trace if e[0] == MAIN]


def main_raised(trace):
    return any([e[0] == MAIN + ':raised' for e in trace])


M.contract(P_IPU + ':MainStepExecutorFromMainStepExecutorEmbryo.apply_as_non_assertion',
           params=dict(self=MAIN_STEP_EXECUTOR, environment=ENV_POST_SDS, settings=INSTRUCTION_SETTINGS,
                       os_services=OS_SERVICES, setup_phase_settings=Opt(Any_)),
           returns=Any_,
           ensures={
               'main gets the environment (with its timeout), the settings and the OS services unchanged':
                   lambda environment, settings, os_services, trace:
                   mains(trace) == [(environment, settings, os_services)],
               'HardErrorException of main (e.g. a timeout) => hard error of the step':
                   lambda result, trace: (not main_raised(trace)) or result.is_hard_error,
           }, raises_only=())

M.contract(P_IPU + ':MainStepExecutorFromMainStepExecutorEmbryo.apply_as_assertion',
           params=dict(self=MAIN_STEP_EXECUTOR, environment=ENV_POST_SDS, settings=INSTRUCTION_SETTINGS,
                       os_services=OS_SERVICES),
           returns=Any_,
           ensures={
               'main gets the environment (with its timeout), the settings and the OS services unchanged':
                   lambda environment, settings, os_services, trace:
                   mains(trace) == [(environment, settings, os_services)],
               'HardErrorException of main (e.g. a timeout) => HARD_ERROR (not FAIL) of the assertion':
                   lambda result, trace: (not main_raised(trace))
                                         or result.status is pfh.PassOrFailOrHardErrorEnum.HARD_ERROR,
           }, raises_only=())

P_PSE = 'exactly_lib.execution.impl.phase_step_executors'

M.contract(P_PSE + ':_from_success_or_hard_error', inline=True,
           params=dict(res=Inst(sh.SuccessOrHardError, _tuple=[Opt(Any_)])),
           ensures={'hard error => HARD_ERROR': lambda res, result:
           (result is None) if res[0] is None else (result.status is PartialControlledFailureEnum.HARD_ERROR)},
           raises_only=())

M.contract(P_PSE + ':_from_pass_or_fail_or_hard_error', inline=True,
           params=dict(res=Inst(pfh.PassOrFailOrHardError, _tuple=[EnumOf(pfh.PassOrFailOrHardErrorEnum), Opt(Any_)])),
           ensures={'HARD_ERROR => HARD_ERROR, FAIL => FAIL': lambda res, result:
           (result is None) if res[0] is pfh.PassOrFailOrHardErrorEnum.PASS
           else (result.status.name == res[0].name)},
           raises_only=())

APPLY = 'apply'


class ControlledExecutorI(Interface):
    target_class = single_instruction_executor.ControlledInstructionExecutor
    methods = {APPLY: Method(returns=Opt(Inst(PartialInstructionControlledFailureInfo,
                                              _tuple=[EnumOf(PartialControlledFailureEnum), Any_])),
                             event=APPLY, may_raise=(_mk_hard_error,))}


class SourceLocationInfoI(Interface):
    attrs = {'source_location_path': Any_}


class ElementI(Interface):
    attrs = {'source_location_info': Iface(SourceLocationInfoI)}


class InstructionI(Interface):
    target_class = TestCaseInstruction


class InstructionInfoI(Interface):
    attrs = {'instruction': Iface(InstructionI)}


def _applied(trace):
    return [e[2] for e in trace if e[0] == APPLY + ':returned']


M.contract('exactly_lib.execution.impl.single_instruction_executor:execute_element',
           params=dict(executor=Iface(ControlledExecutorI), element=Iface(ElementI),
                       instruction_info=Iface(InstructionInfoI)),
           returns=Any_,
           # a second, focused contract (the function is verified in full under C01): here the step raises
           # HardErrorException only, so the INTERNAL_ERROR branch is not reached
           cover=False,
           ensures={
               'HardErrorException of the step => HARD_ERROR': lambda result, trace:
               (not any([e[0] == APPLY + ':raised' for e in trace]))
               or result.status is ExecutionFailureStatus.HARD_ERROR,
               'the status of a failing step is kept (HARD_ERROR stays HARD_ERROR)': lambda result, trace:
               (not (len(_applied(trace)) == 1 and _applied(trace)[0] is not None))
               or result.status.name == _applied(trace)[0].status.name,
               'success => no failure': lambda result, trace:
               (not (len(_applied(trace)) == 1 and _applied(trace)[0] is None)) or result is None,
           }, raises_only=())


# ------------------------------------------------------------------------------ "Cleanup still runs, the sandbox is removed"
# A step that ends in HARD_ERROR because of a timeout is an ordinary failing step for the phase machinery.  That
# [cleanup] runs exactly once after ANY failing step once the sandbox exists is proved for C01 (executor.execute and
# every layer below it), and that the sandbox is removed on every outcome for C04 (execution.execute).  Those
# contracts carry C19 too: this check re-proves them on the current tree.

def _cleanup_and_removal_after_a_timeout():
    from contracts.common import share_contracts
    from contracts import C01_protocol as c01
    layers = (c01.P_EX + ':', c01.P_PSE + ':', c01.P_SIE + ':', c01.P_AH + ':', c01.P_AX + ':')
    share_contracts('C19', 'contracts.C01_protocol', lambda q: q.startswith(layers))
    share_contracts('C19', 'contracts.C04_sandbox',
                    lambda q: q == 'exactly_lib.execution.partial_execution.execution:execute')


M.after_load = _cleanup_and_removal_after_a_timeout


# ------------------------------------------------------------------------------ record classes that carry the timeout
# The timeout (default, or last set) travels in tuple-backed records (ExecutionConfiguration,
# ProcessExecutionSettings, instruction environments ...): each accessor must return the component that was built
# from the constructor argument of its name.  (After the seeded change C19-s5: `timeout_in_seconds` returned
# the memory buffer size, 8192 "seconds".)

@M.check('record-accessors')
def _record_accessors(ctx):
    from contracts.common import record_accessor_obligations
    record_accessor_obligations(ctx)


# ------------------------------------------------------------------------------ completeness of the list of sites

def _settings_references(tree):
    """references in a module that create, read or forward ProcessExecutionSettings"""
    found = set()
    for n in ast.walk(tree):
        if isinstance(n, ast.Call):
            f = n.func
            if isinstance(f, ast.Name) and f.id == 'ProcessExecutionSettings':
                found.add('ProcessExecutionSettings(...)')
            if isinstance(f, ast.Attribute) and isinstance(f.value, ast.Name) and f.value.id == 'ProcessExecutionSettings':
                found.add('ProcessExecutionSettings.%s(...)' % f.attr)
        if isinstance(n, ast.Attribute) and isinstance(n.ctx, ast.Load) and \
                n.attr in ('proc_exe_settings', 'process_execution_settings', '_proc_exe_settings',
                           '_process_execution_settings'):
            found.add('.' + n.attr)
    return found


# file -> the functions under contract (here or in C10_process) that cover its references
SETTINGS_SITES = {
    'util/process_execution/execution_elements.py': 'ProcessExecutionSettings.__new__ and its static constructors',
    'test_case/phases/instruction_environment.py': 'environment classes: store / return the object (shapes ENV_*)',
    'test_case/app_env.py': 'ApplicationEnvironment: stores / returns the object (shape APP_ENV)',
    'execution/partial_execution/impl/executor.py': '_PartialExecutor._post_sds_environment, _setup_pre_sds_environment',
    'execution/partial_execution/impl/atc_execution.py': 'ActionToCheckExecutor._app_env_for_execute',
    'impls/actors/util/atc_proc_exe_settings.py': 'for_atc',
    'impls/actors/program/execution.py': 'Executor.execute/_app_env, _ExecutorWith(out)Transformation.execute',
    'impls/instructions/multi_phase/environ/impl.py': '_AppEnvConstructor._proc_exe_settings / of',
    'impls/instructions/multi_phase/new_file.py': '_TheInstructionEmbryo.main',
    'impls/instructions/multi_phase/new_dir.py': 'TheInstructionEmbryo.main',
    'impls/instructions/multi_phase/utils/instruction_from_parts_for_executing_program.py': 'TheInstructionEmbryo.main',
    'impls/instructions/assert_/utils/instruction_of_matcher.py': 'Instruction._execute / main',
    'impls/instructions/assert_/process_output/impl/exit_code/getter_from_program.py': '_ExitCodeAndStderrFileGetter.get',
    'impls/instructions/utils/logic_type_resolving_helper.py': 'full_resolving_env_for_instruction_env',
    'impls/program_execution/file_transformation_utils.py': 'make_transformed_file_from_output*',
    'impls/types/string_source/command_output/exit_ignored.py': '_WriterBase.write',
    'impls/types/string_source/command_output/exit_relevant.py': 'StdoutWriter.write, StderrFileCreator.create',
    'impls/types/string_source/ddvs.py': 'CommandOutputStringSourceDdv.value_of_any_dependency',
    'impls/types/string_transformer/impl/sources/transformed_by_program.py': '_TransformationWriter.write',
    'impls/types/matcher/impls/run_program/adv.py': 'Matcher.matches_w_trace',
}


@M.check('sites-complete')
def _sites_complete(ctx):
    """every file that creates, reads or forwards ProcessExecutionSettings is one of the verified sites:
    a new plumbing site makes this obligation fail by file name"""
    root = os.path.join(REPO_SRC, 'exactly_lib')
    per_file = {}
    for dirpath, _dirs, files in os.walk(root):
        for fn in files:
            if fn.endswith('.py'):
                path = os.path.join(dirpath, fn)
                rel = os.path.relpath(path, root).replace(os.sep, '/')
                refs = _settings_references(ast.parse(open(path, encoding='utf-8').read(), path))
                if refs:
                    per_file[rel] = sorted(refs)
    for rel in sorted(set(per_file) - set(SETTINGS_SITES)):
        ctx.obligation('sites: %s handles ProcessExecutionSettings but is not a verified site' % rel, False, 'scan',
                       detail={'references': per_file[rel]})
    ctx.obligation('sites: the files that handle ProcessExecutionSettings are exactly the verified sites',
                   set(per_file) == set(SETTINGS_SITES), 'scan',
                   detail={'unexpected': sorted(set(per_file) - set(SETTINGS_SITES)),
                           'vanished': sorted(set(SETTINGS_SITES) - set(per_file))})
    # no site uses one of the constructors that drop the timeout
    droppers = {rel: [r for r in refs if r.startswith('ProcessExecutionSettings.')]
                for rel, refs in per_file.items() if rel != 'util/process_execution/execution_elements.py'}
    droppers = {k: v for k, v in droppers.items() if v}
    ctx.obligation('sites: no site builds settings with with_environ / with_empty_environ / null / from_non_immutable '
                   '(which would drop or replace the timeout)', not droppers, 'scan', detail={'uses': droppers})


COMMAND_EXECUTOR_USERS = {
    'test_case/os_services.py': 'the interface',
    'impls/os_services/impl.py': 'OsServicesForAnyOs: stores / returns the executor',
    'impls/os_services/os_services_access.py': 'construction (C10 `construction`)',
    'impls/program_execution/impl/cmd_exe_from_proc_exe.py': 'CommandExecutorFromProcessExecutor (C10_process)',
    'impls/actors/file_interpreter.py': '_ActionToCheck.execute',
    'impls/actors/program/execution.py': '_ExecutorWith(out)Transformation.execute',
    'impls/actors/util/actor_from_parts/command_executor.py': 'OsProcessExecutor.execute',
    'impls/instructions/assert_/process_output/impl/exit_code/getter_from_program.py': '_ExitCodeAndStderrFileGetter.get',
    'impls/instructions/multi_phase/utils/instruction_from_parts_for_executing_program.py': 'TheInstructionEmbryo.main',
    'impls/program_execution/file_transformation_utils.py': 'make_transformed_file_from_output',
    'impls/program_execution/processors/read_stderr_on_error.py': 'the two processors',
    'impls/program_execution/processors/store_result_in_files.py': 'the two processors',
    'impls/types/matcher/impls/run_program/adv.py': 'Matcher.matches_w_trace',
    'impls/types/string_source/command_output/exit_ignored.py': '_WriterBase.write',
    'impls/types/string_source/command_output/exit_relevant.py': 'StdoutWriter.write, StderrFileCreator.create',
    'impls/types/string_source/command_output/string_source.py': '_writer / _contents / string_source',
    'impls/types/string_source/ddvs.py': 'CommandOutputStringSourceDdv.value_of_any_dependency',
    'impls/types/string_transformer/impl/sources/transformed_by_program.py': '_TransformationWriter',
}


@M.check('executor-users-complete')
def _executor_users_complete(ctx):
    """every file that touches a command executor is one of the verified sites"""
    import re
    root = os.path.join(REPO_SRC, 'exactly_lib')
    users = set()
    for dirpath, _dirs, files in os.walk(root):
        for fn in files:
            if fn.endswith('.py'):
                path = os.path.join(dirpath, fn)
                rel = os.path.relpath(path, root).replace(os.sep, '/')
                tree = ast.parse(open(path, encoding='utf-8').read(), path)
                for n in ast.walk(tree):
                    name = n.attr if isinstance(n, ast.Attribute) else (n.id if isinstance(n, ast.Name) else
                                                                        (n.arg if isinstance(n, ast.arg) else None))
                    if name and re.search(r'command_executor|CommandExecutor', name):
                        users.add(rel)
    for rel in sorted(users - set(COMMAND_EXECUTOR_USERS)):
        ctx.obligation('sites: %s uses a command executor but is not a verified site' % rel, False, 'scan')
    ctx.obligation('sites: the files that use a command executor are exactly the verified ones',
                   users == set(COMMAND_EXECUTOR_USERS), 'scan',
                   detail={'unexpected': sorted(users - set(COMMAND_EXECUTOR_USERS)),
                           'vanished': sorted(set(COMMAND_EXECUTOR_USERS) - users)})
