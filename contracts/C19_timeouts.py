"""C19 -- timeouts are enforced on every OS process.

Proof of the *plumbing* (DESIGN "### C19"):
 (1) choke point: the only places of the source tree that can start an OS process are
     util/process_execution/process_executor.py (test-case processes) and processing/preprocessor.py;
 (2) ProcessExecutor.execute forwards `timeout=settings.timeout_in_seconds`; TimeoutExpired becomes
     ProcessExecutionException, which CommandExecutorFromProcessExecutor turns into HardErrorException
     (contracts shared with C10, module C10_process);
 (3) every site between an instruction environment and the command executor hands on the environment's
     settings (or its timeout) unchanged;
 (4) the environment's settings are built, at the time the environment is requested, from the current
     InstructionSettings, whose only writer is the main step of the `timeout` instruction.
The liveness half (the child is killed, the call returns promptly) is CPython's subprocess: trusted."""
import ast
import os
import pathlib

from pyvc import REPO_SRC
from pyvc.api import (Module, Interface, Method, Iface, Inst, Int, Nat, Bool, Str, Opt, OneOf, Const, Union,
                      ListOf, FixedList, Any_, EnumOf, Custom, new_opaque, assume_pred)
from contracts.common import implies, iff
from contracts.C10_process import (SETTINGS, CommandExecutorI, OsServicesI, FsPathI, FileI, FileCtxI, StdinCtxI,
                                   executions, execution_results, timeout_of, environ_of, EXECUTE, _mk_hard_error)

from exactly_lib.test_case.hard_error import HardErrorException
from exactly_lib.util.process_execution.execution_elements import ProcessExecutionSettings
from exactly_lib.util.process_execution.result_files import DirWithResultFiles

M = Module('C19')

M.trust('subprocess.call(..., timeout=t): when the child has not exited after t seconds it is killed and '
        'subprocess.TimeoutExpired is raised promptly; timeout=None waits without limit (CPython subprocess; '
        'grandchildren of a shell child, SIGTERM handling and wall-clock bounds are outside what a deductive '
        'proof about this repository can establish)')


# ------------------------------------------------------------------------------ (1) the choke point

PROCESS_STARTERS = {
    'subprocess': None,      # every attribute of subprocess except the constants below
    'os': ('system', 'popen', 'fork', 'forkpty', 'posix_spawn', 'posix_spawnp', 'startfile'),
    'os-prefixes': ('exec', 'spawn'),
    'pty': None, 'multiprocessing': None, 'concurrent.futures': None, 'asyncio': None, 'pexpect': None,
    'commands': None, 'popen2': None,
}
HARMLESS_SUBPROCESS_NAMES = ('DEVNULL', 'PIPE', 'STDOUT', 'TimeoutExpired', 'CalledProcessError', 'SubprocessError')
ALLOWED_FILES = ('util/process_execution/process_executor.py', 'processing/preprocessor.py')


def _process_start_references(tree):
    """(lineno, text) of every reference in a module that could start an OS process"""
    found = []
    mod_alias = {}      # local name -> module it stands for
    for n in ast.walk(tree):
        if isinstance(n, ast.Import):
            for al in n.names:
                root = al.name.split('.')[0]
                if al.name in PROCESS_STARTERS or root in PROCESS_STARTERS:
                    mod_alias[al.asname or root] = al.name if al.asname else root
                if root in ('pty', 'multiprocessing', 'asyncio', 'pexpect', 'commands', 'popen2') \
                        or al.name.startswith('concurrent.futures'):
                    found.append((n.lineno, 'import ' + al.name))
        elif isinstance(n, ast.ImportFrom) and n.module:
            root = n.module.split('.')[0]
            if root == 'subprocess':
                for al in n.names:
                    if al.name not in HARMLESS_SUBPROCESS_NAMES:
                        found.append((n.lineno, 'from subprocess import ' + al.name))
            elif root == 'os' and n.module == 'os':
                for al in n.names:
                    if al.name in PROCESS_STARTERS['os'] or al.name.startswith(PROCESS_STARTERS['os-prefixes']):
                        found.append((n.lineno, 'from os import ' + al.name))
            elif root in ('pty', 'multiprocessing', 'asyncio', 'pexpect', 'commands', 'popen2') \
                    or n.module.startswith('concurrent.futures'):
                found.append((n.lineno, 'from %s import ...' % n.module))
    for n in ast.walk(tree):
        if isinstance(n, ast.Attribute) and isinstance(n.value, ast.Name):
            m = mod_alias.get(n.value.id)
            if m == 'subprocess' and n.attr not in HARMLESS_SUBPROCESS_NAMES:
                found.append((n.lineno, 'subprocess.' + n.attr))
            elif m == 'os' and (n.attr in PROCESS_STARTERS['os'] or n.attr.startswith(PROCESS_STARTERS['os-prefixes'])):
                found.append((n.lineno, 'os.' + n.attr))
        elif isinstance(n, ast.Call) and isinstance(n.func, ast.Name) and n.func.id in ('__import__', 'eval', 'exec'):
            # dynamic code could hide a process start: only the known uses are accepted
            found.append((n.lineno, n.func.id + '(...)'))
    return sorted(set(found))


# Dynamic evaluation sites of the unchanged tree, listed by name so that a new one fails the obligation.
# evaluate_integer.python_evaluate is `eval(s)` of an integer expression written in the test case: the
# expression is arbitrary Python, so a test author CAN start a process there (natively confirmed:
# python_evaluate("__import__('os').system('sleep 100')") runs the command, without any timeout).  That
# process is started by the test author's expression, not by one of the program uses the property lists
# (action to check, run/$/%, programs as text sources / transformers / matchers); it is recorded as an
# explicit assumption and reported in notes/C19.md.
ALLOWED_DYNAMIC = {
    'impls/types/integer/evaluate_integer.py': ('eval(...)',),
}
M.assume('integer expressions of a test case (evaluated by impls/types/integer/evaluate_integer.python_evaluate with '
         'the builtin eval) do not themselves start OS processes; the frame obligation `choke-point` accepts exactly '
         'this one eval site')


@M.check('choke-point')
def _choke_point(ctx):
    root = os.path.join(REPO_SRC, 'exactly_lib')
    per_file = {}
    n_files = 0
    for dirpath, _dirs, files in os.walk(root):
        for fn in files:
            if not fn.endswith('.py'):
                continue
            n_files += 1
            path = os.path.join(dirpath, fn)
            rel = os.path.relpath(path, root).replace(os.sep, '/')
            refs = _process_start_references(ast.parse(open(path, encoding='utf-8').read(), path))
            refs = [r for r in refs if r[1] not in ALLOWED_DYNAMIC.get(rel, ())]
            if refs:
                per_file[rel] = refs
    ctx.obligation('source tree scanned', n_files > 1000, 'scan', detail={'files': n_files})
    for rel in sorted(set(per_file) | set(ALLOWED_FILES)):
        refs = per_file.get(rel, [])
        if rel in ALLOWED_FILES:
            ok = [r[1] for r in refs] == ['subprocess.call']
            ctx.obligation('choke point: %s starts processes only through one subprocess.call' % rel, ok, 'scan',
                           detail={'references': refs})
        else:
            ctx.obligation('choke point: %s does not reference a process-starting function' % rel, False, 'scan',
                           detail={'references': refs})
    ctx.obligation('choke point: no file outside %s references a process-starting function' % (ALLOWED_FILES,),
                   set(per_file) <= set(ALLOWED_FILES), 'scan', detail={'offending': sorted(set(per_file) - set(ALLOWED_FILES))})


# ------------------------------------------------------------------------------ (3) plumbing: spec vocabulary
# A *process start request* is a call of `execute` on the (opaque) CommandExecutor of the OS services; it is
# a ghost event carrying the settings object it was given (contracts.C10_process.CommandExecutorI).

def all_use(trace, executor, settings):
    """every process start requested on this path went to `executor` and carried exactly the object
    `settings` (hence its timeout)"""
    return all([ex is executor and s is settings for (ex, _c, s, _f) in executions(trace)])


def all_use_timeout(trace, executor, timeout):
    """every process start requested on this path went to `executor` with settings whose timeout is `timeout`"""
    return all([ex is executor and timeout_of(s) == timeout for (ex, _c, s, _f) in executions(trace)])


def one_start(trace, command):
    """exactly one process start was requested, for `command`, and it returned"""
    es = executions(trace)
    return len(es) == 1 and es[0][1] is command and len(execution_results(trace)) == 1


# ------------------------------------------------------------------------------ processors

from exactly_lib.impls.program_execution.processors import store_result_in_files, read_stderr_on_error, \
    w_exit_code_handling

P_SRF = 'exactly_lib.impls.program_execution.processors.store_result_in_files'
P_RSE = 'exactly_lib.impls.program_execution.processors.read_stderr_on_error'
P_WEH = 'exactly_lib.impls.program_execution.processors.w_exit_code_handling'

EXECUTOR = Iface(CommandExecutorI)
DIR_W_RESULT_FILES = Inst(DirWithResultFiles, _directory=Iface(FsPathI))


class TextReaderI(Interface):
    methods = {'read': Method(returns=Str)}


class DirFileSpaceI(Interface):
    methods = {'new_path': Method(returns=Iface(FsPathI)),
               'new_path_as_existing_dir': Method(returns=Iface(FsPathI))}


STORES_RESULT = Inst(store_result_in_files.ProcessorThatStoresResultInFilesInDir,
                     _storage_dir_created_on_demand=DIR_W_RESULT_FILES, _executor=EXECUTOR, _stdin=Iface(StdinCtxI))
STORES_STDERR = Inst(store_result_in_files.ProcessorThatStoresStderrInFiles,
                     _stderr_path_created_on_demand=Iface(FsPathI), _executor=EXECUTOR,
                     _stdin=Iface(StdinCtxI), _stdout=Iface(StdinCtxI))
READS_STDERR_W_FILES = Inst(read_stderr_on_error.ProcessorThatStoresResultInFilesInDirAndReadsStderrOnNonZeroExitCode,
                            _executor=STORES_RESULT, _stderr_msg_reader=Iface(TextReaderI))
READS_STDERR = Inst(read_stderr_on_error.ProcessorThatReadsStderrOnNonZeroExitCode,
                    _executor=EXECUTOR, _tmp_file_space=Iface(DirFileSpaceI),
                    _stdin=Iface(StdinCtxI), _stdout=Iface(StdinCtxI), _stderr_msg_reader=Iface(TextReaderI))


def _executor_of(processor):
    e = processor._executor
    return e._executor if isinstance(e, store_result_in_files.ProcessorThatStoresResultInFilesInDir) else e


for _q, _shape in ((P_SRF + ':ProcessorThatStoresResultInFilesInDir.process', STORES_RESULT),
                   (P_SRF + ':ProcessorThatStoresStderrInFiles.process', STORES_STDERR),
                   (P_RSE + ':ProcessorThatStoresResultInFilesInDirAndReadsStderrOnNonZeroExitCode.process',
                    READS_STDERR_W_FILES),
                   (P_RSE + ':ProcessorThatReadsStderrOnNonZeroExitCode.process', READS_STDERR)):
    M.contract(_q, inline=True, params=dict(self=_shape, settings=SETTINGS, command=Any_),
               ensures={
                   'one process start, with the given settings object (its timeout) unchanged':
                       lambda self, settings, command, trace:
                       one_start(trace, command) and all_use(trace, _executor_of(self), settings),
                   'exit code is the one the executor returned': lambda result, trace:
                   result.exit_code == execution_results(trace)[0],
               },
               raises={HardErrorException: {'ensures': lambda self, settings, trace:
               all_use(trace, _executor_of(self), settings)}},
               raises_only=())

from exactly_lib.type_val_prims.program.command import Command
from exactly_lib.impls.program_execution.command_processor import CommandProcessor

PROCESS = 'process'


class StructureBuilderI(Interface):
    """description trees (for error messages): opaque"""
    methods = {'build': Method(returns=Any_), 'as_render': Method(returns=Any_),
               'append_child': Method(returns=Any_), 'append_details': Method(returns=Any_)}


class CommandI(Interface):
    """a Command the site only hands on (its translation to an argv is C10)"""
    target_class = Command
    attrs = {'driver': Any_, 'arguments': Any_}
    methods = {'new_structure_builder': Method(returns=Iface(StructureBuilderI))}


A_COMMAND = Iface(CommandI)


class CommandProcessorI(Interface):
    """any CommandProcessor: `process(settings, command)` is a ghost event; returns an (exit code, stderr file) pair"""
    target_class = CommandProcessor
    methods = {PROCESS: Method(returns=Inst(store_result_in_files.ExitCodeAndStderrFile, _tuple=[Int, Iface(FsPathI)]),
                               event=PROCESS, params=['settings', 'command'], may_raise=(_mk_hard_error,))}


def processings(trace):
    return [(e[1], e[2][0], e[2][1]) for e in trace if e[0] == PROCESS]


W_EXIT_CODE_HANDLING = Inst(w_exit_code_handling.Processor, err_msg_reader=Iface(TextReaderI),
                            get_exit_code=Const(store_result_in_files.ExitCodeAndStderrFile.exit_code.fget),
                            get_stderr=Const(store_result_in_files.ExitCodeAndStderrFile.stderr.fget),
                            handled=Iface(CommandProcessorI))

M.contract(P_WEH + ':Processor.process', inline=True,
           params=dict(self=W_EXIT_CODE_HANDLING, settings=SETTINGS, command=A_COMMAND),
           ensures={
               'delegates once, with the given settings object unchanged': lambda self, settings, command, trace:
               processings(trace) == [(self.handled, settings, command)],
               'returns only when the exit code is zero': lambda result: result.exit_code == 0,
           },
           raises={HardErrorException: {'ensures': lambda self, settings, command, trace:
           processings(trace) == [(self.handled, settings, command)]}},
           raises_only=())


# ------------------------------------------------------------------------------ environments (shapes)

from exactly_lib.test_case.app_env import ApplicationEnvironment
from exactly_lib.test_case.phases.instruction_environment import (InstructionEnvironmentForPostSdsStep,
                                                                  InstructionEnvironmentForPreSdsStep, TmpFileStorage)
from exactly_lib.test_case.phases.instruction_settings import InstructionSettings
from exactly_lib.test_case.phases.act.execution_input import AtcExecutionInput

OS_SERVICES = Iface(OsServicesI)
DIR_FILE_SPACE = Iface(DirFileSpaceI)

TMP_FILE_STORAGE = Inst(TmpFileStorage, _root_dir__may_not_exist=Iface(FsPathI), _root_dir__existing=Const(None),
                        _paths_access_for_dir=DIR_FILE_SPACE)
ENV_POST_SDS = Inst(InstructionEnvironmentForPostSdsStep, _hds=Any_, _symbols=Any_, _proc_exe_settings=SETTINGS,
                    _mem_buff_size=Nat, _tmp_dir_space=TMP_FILE_STORAGE, _sds=Any_)
APP_ENV = Inst(ApplicationEnvironment, _os_services=OS_SERVICES, _process_execution_settings=SETTINGS,
               _tmp_files_space=DIR_FILE_SPACE, _mem_buff_size=Nat)


def env_timeout(environment):
    """the timeout in force for an instruction environment: the one of its process execution settings"""
    return timeout_of(environment._proc_exe_settings)


def app_env_of(app_env, os_services, environment):
    """`app_env` carries the OS services and -- unchanged, the very object -- the settings of `environment`"""
    return type(app_env) is ApplicationEnvironment and app_env._os_services is os_services \
        and app_env._process_execution_settings is environment._proc_exe_settings


# opaque chain  sdv.resolve(symbols).value_of_any_dependency(tcds).primitive(app_env):  `primitive` is a ghost
# event that records the application environment the primitive (matcher, program, file maker ...) is built with

PRIMITIVE = 'primitive'


def primitives(trace):
    """the application environments handed to `primitive(...)` on this path"""
    return [e[2][0] for e in trace if e[0] == PRIMITIVE]


def all_primitives_of(trace, os_services, environment):
    return all([app_env_of(a, os_services, environment) for a in primitives(trace)])


# ------------------------------------------------------------------------------ settings constructed from an environment

M.contract('exactly_lib.impls.actors.util.atc_proc_exe_settings:for_atc', inline=True,
           params=dict(environment=ENV_POST_SDS,
                       execution_input=Inst(AtcExecutionInput, _tuple=[Opt(Any_), Opt(Any_)])),
           ensures={
               'timeout-of-the-environment': lambda environment, result: timeout_of(result) == env_timeout(environment),
               'environ-of-the-act-phase-input': lambda execution_input, result:
               environ_of(result) == execution_input[1] and type(result) is ProcessExecutionSettings,
           }, raises_only=())

from exactly_lib.impls.instructions.multi_phase.environ import impl as environ_impl

APP_ENV_CONSTRUCTOR = Inst(environ_impl._AppEnvConstructor, _environment=ENV_POST_SDS, _os_services=OS_SERVICES)

M.contract('exactly_lib.impls.instructions.multi_phase.environ.impl:_AppEnvConstructor._proc_exe_settings', inline=True,
           params=dict(self=APP_ENV_CONSTRUCTOR, environ=Opt(Any_)),
           ensures={'timeout-of-the-environment': lambda self, environ, result:
           timeout_of(result) == env_timeout(self._environment) and environ_of(result) == environ
           and type(result) is ProcessExecutionSettings}, raises_only=())

M.contract('exactly_lib.impls.instructions.multi_phase.environ.impl:_AppEnvConstructor.of', inline=True,
           params=dict(self=APP_ENV_CONSTRUCTOR, environ=Opt(Any_)),
           ensures={'timeout-of-the-environment': lambda self, result:
           type(result) is ApplicationEnvironment and result._os_services is self._os_services
           and timeout_of(result._process_execution_settings) == env_timeout(self._environment)}, raises_only=())

P_LTRH = 'exactly_lib.impls.instructions.utils.logic_type_resolving_helper'

M.contract(P_LTRH + ':full_resolving_env_for_instruction_env', inline=True,
           params=dict(os_services=OS_SERVICES, environment=ENV_POST_SDS),
           ensures={'settings-of-the-environment-unchanged': lambda os_services, environment, result:
           app_env_of(result[2], os_services, environment)}, raises_only=())

M.contract(P_LTRH + ':resolving_helper_for_instruction_env', inline=True,
           params=dict(os_services=OS_SERVICES, environment=ENV_POST_SDS),
           ensures={'settings-of-the-environment-unchanged': lambda os_services, environment, result:
           app_env_of(result._application_environment, os_services, environment)}, raises_only=())

from exactly_lib.execution.partial_execution.impl import atc_execution

M.contract('exactly_lib.execution.partial_execution.impl.atc_execution:ActionToCheckExecutor._app_env_for_execute',
           inline=True,
           params=dict(self=Inst(atc_execution.ActionToCheckExecutor, environment_for_other_steps=ENV_POST_SDS,
                                 os_services=OS_SERVICES)),
           ensures={'settings-of-the-environment-unchanged': lambda self, result:
           app_env_of(result, self.os_services, self.environment_for_other_steps)}, raises_only=())


# ------------------------------------------------------------------------------ opaque sdv / ddv / adv chains

class PrimI(Interface):
    """whatever `primitive(app_env)` gives (file maker, model getter, matcher, program ...): an opaque object;
    what it does with the application environment it was built with is the contract of ITS class (below)"""
    attrs = {'value': Bool, 'trace': Any_, 'command': Iface(CommandI), 'stdin': ListOf(Any_),
             'transformation': ListOf(Any_)}
    methods = {'make__translate_hard_error': Method(returns=Opt(Any_)),
               'get': Method(returns=Any_, event='get', may_raise=(_mk_hard_error,)),
               'matches_w_trace': Method(returns=Iface(lambda: PrimI), event='matches_w_trace',
                                         may_raise=(_mk_hard_error,)),
               'structure': Method(returns=Any_)}


class AdvI(Interface):
    methods = {PRIMITIVE: Method(returns=Iface(PrimI), event=PRIMITIVE, params=['environment'])}


class ValidatorI(Interface):
    methods = {'validate_pre_sds_if_applicable': Method(returns=Opt(Any_)),
               'validate_post_sds_if_applicable': Method(returns=Opt(Any_))}


class DdvI(Interface):
    attrs = {'validator': Iface(ValidatorI)}
    methods = {'value_of_any_dependency': Method(returns=Iface(AdvI)),
               'value_of_any_dependency__d': Method(returns=Any_)}


class SdvI(Interface):
    attrs = {'references': Any_}
    methods = {'resolve': Method(returns=Iface(DdvI))}


SDV = Iface(SdvI)
DDV = Iface(DdvI)

# ------------------------------------------------------------------------------ instructions that build an ApplicationEnvironment

from exactly_lib.impls.instructions.multi_phase import new_file, new_dir
from exactly_lib.impls.instructions.assert_.utils import instruction_of_matcher

M.contract('exactly_lib.impls.instructions.multi_phase.new_file:_TheInstructionEmbryo.main',
           params=dict(self=Inst(new_file._TheInstructionEmbryo, _path_to_create=SDV, _file_maker=SDV, _validator=Any_),
                       environment=ENV_POST_SDS, settings=Any_, os_services=OS_SERVICES),
           returns=Opt(Any_),
           ensures={'file maker is built with the settings of the environment, unchanged':
                    lambda environment, os_services, trace:
                    len(primitives(trace)) == 1 and all_primitives_of(trace, os_services, environment)},
           raises_only=())

M.contract('exactly_lib.impls.instructions.multi_phase.new_dir:TheInstructionEmbryo.main',
           params=dict(self=Inst(new_dir.TheInstructionEmbryo, _dir_path_sdv=SDV, _file_maker=SDV, _references=Any_),
                       environment=ENV_POST_SDS, settings=Any_, os_services=OS_SERVICES),
           returns=Opt(Any_),
           ensures={'file maker is built with the settings of the environment, unchanged':
                    lambda environment, os_services, trace:
                    len(primitives(trace)) == 1 and all_primitives_of(trace, os_services, environment)},
           raises_only=())


from exactly_lib.test_case.result import pfh, sh


class FailureMessageConfigI(Interface):
    methods = {'head': Method(returns=Any_), 'tail': Method(returns=Any_)}


MATCHER_INSTRUCTION = Inst(instruction_of_matcher.Instruction, _matcher=SDV, _model_getter=SDV,
                           _failure_message_config=Iface(FailureMessageConfigI))

M.contract('exactly_lib.impls.instructions.assert_.utils.instruction_of_matcher:Instruction._execute', inline=True,
           params=dict(self=MATCHER_INSTRUCTION, os_services=OS_SERVICES, environment=ENV_POST_SDS,
                       model_getter_ddv=DDV, matcher_ddv=DDV),
           ensures={'model getter and matcher are built with the settings of the environment, unchanged':
                    lambda environment, os_services, trace:
                    len(primitives(trace)) == 2 and all_primitives_of(trace, os_services, environment)},
           raises={HardErrorException: {'ensures': lambda environment, os_services, trace:
           all_primitives_of(trace, os_services, environment)}},
           raises_only=())

M.contract('exactly_lib.impls.instructions.assert_.utils.instruction_of_matcher:Instruction.main',
           params=dict(self=MATCHER_INSTRUCTION, environment=ENV_POST_SDS, settings=Any_, os_services=OS_SERVICES),
           returns=Any_,
           ensures={
               'model getter and matcher are built with the settings of the environment, unchanged':
                   lambda environment, os_services, trace: all_primitives_of(trace, os_services, environment),
               'a hard error of the model getter or matcher (e.g. a timeout) is reported as HARD_ERROR':
                   lambda result, trace:
                   (not any([e[0] in ('get:raised', 'matches_w_trace:raised') for e in trace]))
                   or result.status is pfh.PassOrFailOrHardErrorEnum.HARD_ERROR,
           }, raises_only=())
