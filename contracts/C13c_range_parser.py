"""C13, second sentence (`filter -line-nums`), extension L8: the written range expression -> the range object.

`resolvers._RangeParser.parse` (+ `_split_into_valid_number_of_parts`, `_range_expr_must_not_be_empty`, the four
`_*_range` helpers, `integer/validation.evaluate`) was covered by the bounded stand-in `range-parser` only.  Here it is
proved for EVERY expression text, relative to
  * `str.strip()` as an uninterpreted function of the text (pyvc/charclass.strip_space),
  * `str.split(':')` exact for at most one separator (pyvc/strings: `exact_split`, opt-in of this module),
  * the C18 contract of `evaluate_integer.python_evaluate` (an int, or NotAnIntegerException, nothing else): which
    texts denote integers is NOT part of this proof (it is `eval`); the value an evaluation yields is observed as
    the ghost event of `validation.evaluate` (under contract here, proved from the C18 contract; that it returns
    the very value of python_evaluate is the syntactic obligation `evaluate-passes-the-value-through`).
What is proved: the form of the stripped text t decides the class of the range (t without ':' -> single line,
':' + b -> upper limit, a + ':' -> lower limit, a + ':' + b -> both), the parts handed to the evaluation are exactly
these a / b, in this order, and the integer each evaluation returned IS the corresponding limit (nothing is added,
swapped or dropped); a blank text, more than one ':' or a part the evaluation rejects gives
ValidationErrorException and nothing else escapes.  The bounded stand-in `range-parser` (C13b) stays as cross-check
(it is the only cover of "which parts are integers": 'x', '1:x', ':' ...).

`_RangeValidator.validate_pre_sds_if_applicable`: the expression is parsed once, the error of a malformed one is
RETURNED as the validation result (nothing is raised), the range of a well-formed one is kept.

Part (b): the C14 contracts of the string-source plumbing between the proved pieces carry C13 as well, and
`DelegatedStringSourceContentsWithInit` (no contract in C14) is put under contract here."""
import ast

from pyvc.api import (Module, Inst, Int, Str, Opt, Any_, Union)

from contracts import C18_mistakes as _c18      # noqa: F401  (module import: its contracts are used at call sites)

from exactly_lib.impls.exception.validation_error_exception import ValidationErrorException
from exactly_lib.impls.types.integer import validation as int_validation
from exactly_lib.impls.types.string_transformer.impl.filter.line_nums import resolvers
from exactly_lib.impls.types.string_transformer.impl.filter.line_nums.range_expr import (
    SingleLineRange, LowerLimitRange, UpperLimitRange, LowerAndUpperLimitRange)

M = Module('C13')
M.exact_split = True        # pyvc/strings: s.split(c) is [s] without c and [a, b] (first occurrence) with one c

SEP = ':'
_Q = 'exactly_lib.impls.types.string_transformer.impl.filter.line_nums.resolvers:_RangeParser.'
VALIDATION_ERROR = Inst(ValidationErrorException, _error=Any_)

# the flags below are ON when the obligations they guard discharge on the unchanged tree
_PARSE_PROOF = True
_VALIDATOR_PROOF = True
_DELEGATED_PROOF = True
_SHARE_C14 = True


# ------------------------------------------------------------------------------ specification

def is_blank(s):
    """the expression is empty or white space only"""
    return s == '' or s.isspace()


def stripped(parser):
    """the expression without surrounding white space (str.strip: uninterpreted)"""
    return parser._range_expr.strip()


def evaluated(trace):
    """the texts handed to the integer evaluation, in order"""
    return [e[1]['py_expr'] for e in trace if e[0] == 'evaluate']


def values(trace):
    """the integers the evaluations returned, in order"""
    return [e[2] for e in trace if e[0] == 'evaluate:returned']


def an_evaluation_failed(trace):
    return len(trace) > 0 and trace[-1][0] == 'evaluate:raised'


def is_malformed(parser):
    """blank, or more than one separator"""
    return is_blank(parser._range_expr) or stripped(parser).count(SEP) > 1


def form_single(t, result, trace):
    """INT: the whole stripped text is evaluated, its value is the line number"""
    ts = evaluated(trace)
    vs = values(trace)
    return len(ts) == 1 and len(vs) == 1 and ts[0] == t and SEP not in t and result.line_number == vs[0]


def form_upper(t, result, trace):
    """:INT"""
    ts = evaluated(trace)
    vs = values(trace)
    return len(ts) == 1 and len(vs) == 1 and t == SEP + ts[0] and SEP not in ts[0] and result.upper_limit == vs[0]


def form_lower(t, result, trace):
    """INT:  (the part before the separator is not empty: ':' alone is read as an upper limit)"""
    ts = evaluated(trace)
    vs = values(trace)
    return len(ts) == 1 and len(vs) == 1 and t == ts[0] + SEP and SEP not in ts[0] and ts[0] != '' \
        and result.lower_limit == vs[0]


def form_lower_upper(t, result, trace):
    """INT:INT -- the first part is the lower, the second the upper limit"""
    ts = evaluated(trace)
    vs = values(trace)
    return len(ts) == 2 and len(vs) == 2 and t == ts[0] + SEP + ts[1] and SEP not in ts[0] and SEP not in ts[1] \
        and ts[0] != '' and ts[1] != '' and result.lower_limit == vs[0] and result.upper_limit == vs[1]


# ------------------------------------------------------------------------------ integer/validation.evaluate
# proved from the C18 contract of python_evaluate (shared below: re-proved by this check)

M.contract('exactly_lib.impls.types.integer.validation:evaluate', params=dict(py_expr=Str), returns=Int,
           event='evaluate',
           ensures={'an integer': lambda result: isinstance(result, int)},
           raises={ValidationErrorException: {'shape': VALIDATION_ERROR}},     # its docstring: nothing else
           raises_only=())


@M.check('evaluate-passes-the-value-through')
def _evaluate_passes_through(ctx):
    """`evaluate` returns what python_evaluate returned for the same text (its contract above cannot name that
    value: the C18 contract of python_evaluate has no ghost event).  Syntactic: the only `return` of the current
    source is `return python_evaluate(py_expr)`."""
    import os
    from pyvc import REPO_SRC
    path = os.path.join(REPO_SRC, 'exactly_lib', 'impls', 'types', 'integer', 'validation.py')
    tree = ast.parse(open(path, encoding='utf-8').read(), path)
    fn = [n for n in tree.body if isinstance(n, ast.FunctionDef) and n.name == 'evaluate'][0]
    returns = [n for n in ast.walk(fn) if isinstance(n, ast.Return)]
    ok = len(returns) == 1 and ast.dump(returns[0].value) == ast.dump(
        ast.parse('python_evaluate(%s)' % fn.args.args[0].arg, mode='eval').body)
    ctx.obligation('validation.evaluate returns python_evaluate(py_expr) itself', ok, backend='enumeration',
                   detail={'returns': [ast.unparse(r) for r in returns]})


# ------------------------------------------------------------------------------ _RangeParser
PARSER = Inst(resolvers._RangeParser, _range_expr=Str)
RANGE = Union(Inst(SingleLineRange, line_number=Int), Inst(LowerLimitRange, lower_limit=Int),
              Inst(UpperLimitRange, upper_limit=Int), Inst(LowerAndUpperLimitRange, lower_limit=Int, upper_limit=Int))

if _PARSE_PROOF:
    M.contract(_Q + '_range_expr_must_not_be_empty', params=dict(self=PARSER),
               raises={ValidationErrorException: {'when': lambda self: is_blank(self._range_expr),
                                                  'shape': VALIDATION_ERROR}},
               raises_only=())

    M.contract(_Q + '_split_into_valid_number_of_parts', params=dict(self=PARSER), inline=True,
               ensures={
                   'one-or-two-parts': lambda result: len(result) == 1 or len(result) == 2,
                   'no-separator: the stripped text itself': lambda self, result:
                   len(result) != 1 or (result[0] == stripped(self) and SEP not in stripped(self)),
                   'one-separator: the texts before and after it': lambda self, result:
                   len(result) != 2 or (stripped(self) == result[0] + SEP + result[1]
                                        and SEP not in result[0] and SEP not in result[1]),
               },
               raises={ValidationErrorException: {'when': lambda self: is_malformed(self),
                                                  'shape': VALIDATION_ERROR}},
               raises_only=())

    M.contract(_Q + 'parse', params=dict(self=PARSER), returns=RANGE, event='parse',
               ensures={
                   'well-formed': lambda self: not is_malformed(self),
                   'one-of-the-four-forms': lambda result:
                   isinstance(result, (SingleLineRange, LowerLimitRange, UpperLimitRange, LowerAndUpperLimitRange)),
                   'INT: the line whose number the evaluation of the text yields': lambda self, result, trace:
                   (not isinstance(result, SingleLineRange)) or form_single(stripped(self), result, trace),
                   ':INT: the upper limit is what the evaluation of the part after the separator yields':
                       lambda self, result, trace:
                       (not isinstance(result, UpperLimitRange)) or form_upper(stripped(self), result, trace),
                   'INT: the lower limit is what the evaluation of the part before the separator yields':
                       lambda self, result, trace:
                       (not isinstance(result, LowerLimitRange)) or form_lower(stripped(self), result, trace),
                   'INT:INT the limits are what the evaluations of the two parts yield, in this order':
                       lambda self, result, trace:
                       (not isinstance(result, LowerAndUpperLimitRange))
                       or form_lower_upper(stripped(self), result, trace),
               },
               raises={ValidationErrorException: {
                   'shape': VALIDATION_ERROR,
                   'ensures': lambda self, trace: is_malformed(self) or an_evaluation_failed(trace)}},
               raises_only=())

# `_RangeValidator.validate_pre_sds_if_applicable`: a malformed expression is REPORTED (the text of the exception
# is returned, nothing is raised); otherwise the range that `parse` made is kept, and parsed once.
_QV = 'exactly_lib.impls.types.string_transformer.impl.filter.line_nums.resolvers:_RangeValidator.'
VALIDATOR = Inst(resolvers._RangeValidator, _range_expr=Str, range_after_validation=Opt(RANGE))


def parses(trace):
    return [e for e in trace if e[0] == 'parse']


def validated(self, old, result, trace):
    if old is not None:
        return result is None and len(parses(trace)) == 0 and self.range_after_validation is old
    if len(parses(trace)) != 1 or parses(trace)[0][1]['self']._range_expr != self._range_expr:
        return False
    outcome = trace[-1]
    if outcome[0] == 'parse:returned':
        return result is None and self.range_after_validation is outcome[2]
    return outcome[0] == 'parse:raised' and result is outcome[2].error and self.range_after_validation is None


if _VALIDATOR_PROOF:
    M.contract(_QV + 'validate_pre_sds_if_applicable', params=dict(self=VALIDATOR, hds=Any_),
               old=lambda self: self.range_after_validation,
               ensures={'the-expression-is-parsed-once: its range is kept, its error is returned':
                        lambda self, old, result, trace: validated(self, old, result, trace)},
               raises_only=())


# ------------------------------------------------------------------------------ sharing
M.trust('str.strip() / str.isspace(): white space is an uninterpreted character class; strip() is an uninterpreted '
        'function of the text with text == l + strip(text) + r, l and r white space (pyvc/charclass.strip_space)')
M.trust('str.split(c) for a single character c (pyvc/strings, exact_split): [s] when c does not occur in s, '
        '[a, b] with s == a + c + b and c not in a, b when it occurs once, count(c) + 1 items otherwise')
M.trust('evaluate_integer.python_evaluate: its C18 contract (an int or NotAnIntegerException), relative to the '
        'model of builtins.eval (returns any value or raises any Exception); which texts are integers is not '
        'proved (bounded stand-in range-parser)')


# ------------------------------------------------------------------------------ (b) the string-source plumbing
# Between the proved pieces of C13b (`MultipleLineRangesTransformer.transform` -> resolver -> `resolve` ->
# `_ContentsOfLinesTransformer._transform_lines`) lies plumbing that only the bounded stand-in `end-to-end` covered:
#   * StringSourceWithCachedFrozen (contents / freeze / __init__) and TransformedContentsViaAsLinesBase.as_lines are
#     under contract in C14 (a text has one value, before and after freeze; as_lines gives the lines of the text
#     that `_transform_lines` makes): these contracts now carry C13 and are re-proved by this check (`_share`);
#   * DelegatedStringSourceContentsWithInit has no contract in C14: `_get_delegated` / `as_lines` are put under
#     contract here.  This is the fact the two-step argument of C13b for ranges with negative numbers relies on:
#     the contents are made by ONE call of the initializer (= `resolve` of the untouched resolver) when first read
#     and kept, so every reading sees the lines of that one resolution.
from pyvc.api import Interface, Method, Iface  # noqa: E402
from contracts.C13b_line_nums import ContentsI  # noqa: E402
from exactly_lib.impls.types.string_source.contents.delegated_with_init import \
    DelegatedStringSourceContentsWithInit  # noqa: E402


class InitializerI(Interface):
    """the callable that makes the contents when they are first needed (environment of this class; for the filter
    it is the bound method `resolve` of the resolver, under contract in C13b)"""
    methods = {'__call__': Method(returns=Iface(ContentsI), event='initialize')}


DELEGATED = Inst(DelegatedStringSourceContentsWithInit, _initializer=Iface(InitializerI),
                 _delegated=Opt(Iface(ContentsI)), _may_depend_on_external_resources_of_uninitialized=Any_,
                 _get_tmp_file_space=Any_)
_P_DEL = 'exactly_lib.impls.types.string_source.contents.delegated_with_init:DelegatedStringSourceContentsWithInit.'


def initializations(trace):
    return [e for e in trace if e[0] == 'initialize']


def initialized(trace):
    """what the initializer returned"""
    return [e[2] for e in trace if e[0] == 'initialize:returned']


def made_once_and_kept(self, old, result, trace):
    if old is None:
        return len(initializations(trace)) == 1 and len(initialized(trace)) == 1 and result is initialized(trace)[0] \
            and self._delegated is result
    return len(initializations(trace)) == 0 and result is old and self._delegated is old


if _DELEGATED_PROOF:
    M.contract(_P_DEL + '_get_delegated', params=dict(self=DELEGATED), inline=True,
               old=lambda self: self._delegated,
               ensures={'the-contents-are-made-by-one-call-of-the-initializer-when-first-needed-and-kept':
                        lambda self, old, result, trace: made_once_and_kept(self, old, result, trace),
                        'initialized-afterwards': lambda self, result: result is not None and self._delegated is result},
               raises_only=())

    M.contract(_P_DEL + 'as_lines', params=dict(self=DELEGATED), inline=True,
               old=lambda self: self._delegated,
               ensures={'the-lines-of-the-contents-made-once': lambda self, old, result, trace:
                        result is self._delegated.as_lines
                        and len(initializations(trace)) == (1 if old is None else 0)
                        and (old is None or self._delegated is old)},
               raises_only=())


def _share():
    from contracts.common import share_contracts
    share_contracts('C13', 'contracts.C18_mistakes', lambda q: q.endswith('evaluate_integer:python_evaluate'))
    if _SHARE_C14:
        share_contracts('C13', 'contracts.C14_text_value',
                        lambda q: ':StringSourceWithCachedFrozen.' in q
                        or q.endswith(':TransformedContentsViaAsLinesBase.as_lines'))


M.after_load = _share
