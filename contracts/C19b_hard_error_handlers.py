"""C19, "a process that is killed because of a timeout is reported as HARD_ERROR": the process executor raises
HardErrorException for TimeoutExpired (C10_process / C19_timeouts); between that raise and the step wrappers proved in
C19_timeouts (`execute_element`, MainStepExecutor...) some instructions catch HardErrorException themselves and
translate it.  Obligation per handler (syntactic scan of the current source, every `except HardErrorException` of the
tree): the handler ends in a HARD ERROR outcome -- it returns / raises a value built by one of the hard-error
constructors with the error message of the exception -- and never in a FAIL / PASS / validation outcome.
(Seeded change C19-s8: the handler of the dir-contents assertion part raised PfhFailException: a timed-out `run`
matcher inside `dir-contents` was reported as FAIL.)  The handlers whose translation is itself under contract
(phase_step_execution, single_instruction_executor, instruction_part_utils, instruction_of_matcher ...) are covered
twice; the scan is what reaches the others."""
import ast
import os

from pyvc import REPO_SRC
from pyvc.api import Module

M = Module('C19')

# what a handler may end in: call of one of these (attribute or name), given `<exc>.error` or the exception itself
HARD_ERROR_CONSTRUCTORS = {
    'new_sh_hard_error', 'new_eh_hard_error', 'new_pfh_hard_error', 'new_svh_hard_error',
    'PfhHardErrorException', 'hard_error',
}
HARD_ERROR_STATUS = 'HARD_ERROR'
# handlers that hand the message to their caller, which reports it as a hard error (the callers are under contract:
# C15 file_makers / ExistingFileModifier, NewFileCreator: `raise HardErrorException(msg)`)
RETURNS_THE_MESSAGE = {'impls/types/files_source/file_maker.py', 'impls/file_creation.py'}


def _mentions_exc(node, exc_name):
    return any(isinstance(n, ast.Name) and n.id == exc_name for n in ast.walk(node))


def _is_hard_error_value(v, exc_name):
    if not isinstance(v, ast.Call):
        return False
    f = v.func
    name = f.attr if isinstance(f, ast.Attribute) else getattr(f, 'id', None)
    if name in HARD_ERROR_CONSTRUCTORS and _mentions_exc(v, exc_name):
        return True
    # a wrapper around a hard-error value: PhaseStepFailureException(failure_con.hard_error(ex)),
    # SingleInstructionExecutionFailure(ExecutionFailureStatus.HARD_ERROR, ..., ex.error)
    if any(_is_hard_error_value(a, exc_name) for a in v.args):
        return True
    if any(isinstance(a, ast.Attribute) and a.attr == HARD_ERROR_STATUS for a in v.args) and _mentions_exc(v, exc_name):
        return True
    return False


def handler_verdict(rel, handler):
    """(ok, description) for one `except HardErrorException [as x]` handler"""
    exc_name = handler.name
    if exc_name is None or len(handler.body) != 1:
        return False, 'handler does not name the exception or has more than one statement'
    st = handler.body[0]
    if isinstance(st, ast.Return):
        v, kind = st.value, 'return'
    elif isinstance(st, ast.Raise):
        v, kind = st.exc, 'raise'
    else:
        return False, 'handler neither returns nor raises'
    if rel in RETURNS_THE_MESSAGE and kind == 'return' and isinstance(v, ast.Attribute) and v.attr == 'error' \
            and isinstance(v.value, ast.Name) and v.value.id == exc_name:
        return True, 'returns the message to a caller that reports a hard error'
    return _is_hard_error_value(v, exc_name), '%s %s' % (kind, ast.unparse(v)[:120])


@M.check('hard-error handlers')
def _hard_error_handlers(ctx):
    root = os.path.join(REPO_SRC, 'exactly_lib')
    n = 0
    for dirpath, _dirs, files in os.walk(root):
        for fn in sorted(files):
            if not fn.endswith('.py'):
                continue
            path = os.path.join(dirpath, fn)
            rel = os.path.relpath(path, root).replace(os.sep, '/')
            src = open(path, encoding='utf-8').read()
            if 'HardErrorException' not in src:
                continue
            tree = ast.parse(src, path)
            ordinal = {}
            for fdef in [x for x in ast.walk(tree) if isinstance(x, (ast.FunctionDef, ast.AsyncFunctionDef))]:
                for t in [x for x in ast.walk(fdef) if isinstance(x, ast.Try)]:
                    for h in t.handlers:
                        names = [h.type] if not isinstance(h.type, ast.Tuple) else list(h.type.elts)
                        if not any((isinstance(x, ast.Name) and x.id == 'HardErrorException')
                                   or (isinstance(x, ast.Attribute) and x.attr == 'HardErrorException')
                                   for x in names if x is not None):
                            continue
                        key = (rel, fdef.name)
                        if (key, h.lineno) in ordinal:
                            continue      # (nested function definitions are walked twice)
                        ordinal[(key, h.lineno)] = True
                        k = len([1 for (kk, _l) in ordinal if kk == key])
                        ok, what = handler_verdict(rel, h)
                        n += 1
                        ctx.obligation('%s: %s: handler #%d of HardErrorException ends in a hard-error outcome '
                                       'carrying the message of the exception' % (rel, fdef.name, k),
                                       ok, 'scan', detail={'line': h.lineno, 'handler': what})
    ctx.obligation('handlers of HardErrorException found in the source tree', n >= 10, 'scan', detail={'handlers': n})
