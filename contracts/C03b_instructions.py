"""C03 / C18 (extension I7) -- the instruction framework: the generic adapters through which most instructions are
built, and the most used concrete instructions.

 1  `*PhaseInstructionFromParts` (setup, before-assert, assert, cleanup), `MainStepExecutorFromMainStepExecutorEmbryo`,
    `instruction_parts_from_embryo`, the parsers that build them, `AssertionInstructionFromAssertionPart`,
    `SequenceOfCooperativeAssertionParts`, `instruction_of_matcher.Instruction`:
      validate_pre_sds calls ONLY the pre-sds part of the validator of the parts -- once, with the path-resolving
      environment of the environment given -- and no main step; it reports VALIDATION_ERROR iff that validator
      reports an error (with that message); a validator's error never becomes an exception; `main` is the only
      method that reaches the main step (of the executor / embryo / assertion part).
 2  concrete instructions: the validator of the instruction is built from the validators of ALL its arguments.

Ghost events (the frame): 'validate-pre' / 'validate-post' (a validator is asked: C03_validation.ValidatorI),
'exe-main' / 'exe-assert' (main step of a MainStepExecutor, as non-assertion / as assertion), 'embryo-main' (main of an instruction embryo), 'part-check'
(an assertion part is checked), 'get-arg' (argument of an assertion part is computed), 'model-get' / 'matcher-apply'
(instruction of a matcher: the model is fetched / the matcher applied).
See notes/C03.md and notes/C18.md, section "Extension I7"."""
from pyvc.api import (Module, Interface, Method, Iface, Inst, Int, Bool, Str, Opt, OneOf, Const, Union, ListOf,
                      FixedList, Any_, EnumOf, Custom, Dependent)
from pyvc.interp import ArbitraryException
from contracts.common import implies, iff, forall_range

from contracts import C01_protocol as c01
from contracts import C03_validation as c03
from contracts.C03_validation import ValidatorI, PathEnvI

from exactly_lib.impls import svh_validators
from exactly_lib.impls.instructions.multi_phase.utils import instruction_embryo as embryo_mod
from exactly_lib.impls.instructions.multi_phase.utils import instruction_part_utils as ipu
from exactly_lib.impls.instructions.multi_phase.utils import instruction_parts as iparts
from exactly_lib.impls.instructions.setup.utils import instruction_from_parts as setup_fp
from exactly_lib.impls.instructions.before_assert.utils import instruction_from_parts as before_assert_fp
from exactly_lib.impls.instructions.assert_.utils import instruction_from_parts as assert_fp
from exactly_lib.impls.instructions.cleanup.utils import instruction_from_parts as cleanup_fp
from exactly_lib.impls.instructions.cleanup.utils import validation as cleanup_validation
from exactly_lib.test_case.hard_error import HardErrorException
from exactly_lib.test_case.phases.cleanup import PreviousPhase
from exactly_lib.test_case.result import pfh, sh, svh

M = Module('C03')

P_IPU = 'exactly_lib.impls.instructions.multi_phase.utils.instruction_part_utils'
P_EMB = 'exactly_lib.impls.instructions.multi_phase.utils.instruction_embryo'
P_FP = 'exactly_lib.impls.instructions.%s.utils.instruction_from_parts'

SVH, SH, PFH = c01.SVH, c01.SH, c01.PFH
svh_kind, sh_kind, pfh_kind = c01.svh_kind, c01.sh_kind, c01.pfh_kind
outcome_event = c01.outcome_event

# every ghost event that stands for "something of the instruction is run"
VALIDATION_EVENTS = ('validate-pre', 'validate-post')
MAIN_EVENTS = ('exe-main', 'exe-assert', 'embryo-main', 'part-check', 'get-arg', 'model-get', 'matcher-apply')
STEP_EVENTS = VALIDATION_EVENTS + MAIN_EVENTS


def steps(trace):
    """the calls (event, object, arguments) by which a method reaches into the parts of its instruction"""
    return [(e[0], e[1], e[2]) for e in trace if e[0] in STEP_EVENTS]


def raised_by(trace, event):
    return [e[2] for e in trace if e[0] == event + ':raised']


# ====================================================================================== 1a: instructions from parts

class MainStepExecutorI(Interface):
    """instruction_parts.MainStepExecutor (environment of the phase-specific adapters): the main step returns a
    result of the phase's type, or raises (the implementation in use -- ...FromMainStepExecutorEmbryo, below --
    lets no HardErrorException escape; the adapters do not depend on that)"""
    target_class = iparts.MainStepExecutor
    methods = {'apply_as_non_assertion': Method(returns=SH, may_raise=c01.RAISES, event='exe-main'),
               'apply_as_assertion': Method(returns=PFH, may_raise=c01.RAISES, event='exe-assert')}


PARTS = Inst(iparts.InstructionParts, _tuple=[Iface(ValidatorI), Iface(MainStepExecutorI), Any_])


class InstructionEnvI(Interface):
    """InstructionEnvironmentForPreSdsStep / ...PostSdsStep as far as the adapters look at it"""
    attrs = {'path_resolving_environment': Iface(PathEnvI),
             'path_resolving_environment_pre_or_post_sds': Iface(PathEnvI)}


def _mk_from_parts(cls, parts_attr):
    """an instruction as its __init__ leaves it (contract of __init__ below): the parts, and the svh-validator
    that wraps THE validator of the parts"""

    def mk(interp, name):
        x = object.__new__(cls)
        parts = PARTS.make(interp, name + '.parts')
        setattr(x, parts_attr, parts)
        v = object.__new__(svh_validators.PreOrPostSdsSvhValidationErrorValidator)
        v.validator = parts.validator
        x._validator = v
        return x

    return Custom(mk)


# phase -> (module, class, attribute that holds the parts, kind of the main result, shape, name of the executor's method)
FROM_PARTS = {
    'setup': (setup_fp, 'SetupPhaseInstructionFromParts', 'setup', sh_kind, SH, 'apply_as_non_assertion'),
    'before_assert': (before_assert_fp, 'BeforeAssertPhaseInstructionFromParts', 'setup', sh_kind, SH,
                      'apply_as_non_assertion'),
    'assert_': (assert_fp, 'AssertPhaseInstructionFromParts', '_parts', pfh_kind, PFH, 'apply_as_assertion'),
    'cleanup': (cleanup_fp, 'CleanupPhaseInstructionFromParts', 'setup', sh_kind, SH, 'apply_as_non_assertion'),
}


def _main_args(phase, environment, settings, os_services, settings_builder):
    if phase == 'setup':
        return (environment, settings, os_services, settings_builder)
    if phase == 'assert_':
        return (environment, settings, os_services)
    return (environment, settings, os_services, None)


def _from_parts_contracts(phase, mod, clsname, parts_attr, kind, shape, exe_method):
    cls = getattr(mod, clsname)
    q = '%s:%s' % (P_FP % phase, clsname)
    this = _mk_from_parts(cls, parts_attr)
    g = dict(parts_attr=Const(parts_attr), phase=Const(phase), kind=Const(kind))
    post_env_attr = 'path_resolving_environment_pre_or_post_sds' if phase == 'cleanup' else 'path_resolving_environment'

    def built_from(self, parts, parts_attr):
        return getattr(self, parts_attr) is parts \
            and type(self._validator) is svh_validators.PreOrPostSdsSvhValidationErrorValidator \
            and self._validator.validator is parts.validator

    _INIT = 'holds the parts; its svh-validator wraps the validator of the parts'
    M.contract(q + '.__init__',
               params={'self': Inst(cls), ('parts' if phase == 'assert_' else 'instruction_setup'): PARTS},
               ghosts=g, inline=True,
               ensures={
                   _INIT: (lambda self, parts, parts_attr: built_from(self, parts, parts_attr))
                   if phase == 'assert_' else
                   (lambda self, instruction_setup, parts_attr: built_from(self, instruction_setup, parts_attr)),
                   'runs nothing': lambda trace: trace == [],
               }, raises_only=())

    # (inline: call sites -- the per-instruction harnesses of section 2 -- see the bodies)
    M.contract(q + '.symbol_usages', params=dict(self=this), ghosts=g, inline=True,
               ensures={'the symbol usages of the parts; runs nothing': lambda self, parts_attr, result, trace:
               result is getattr(self, parts_attr).symbol_usages and trace == []},
               raises_only=())

    M.contract(q + '.validate_pre_sds', params=dict(self=this, environment=Iface(InstructionEnvI)), ghosts=g,
               returns=SVH, inline=True,
               ensures={
                   'only the pre-sds part of the validator of the parts, once, in the environment given; no main step':
                       lambda self, environment, parts_attr, trace:
                       steps(trace) == [('validate-pre', getattr(self, parts_attr).validator,
                                         (environment.path_resolving_environment,))],
                   'VALIDATION_ERROR iff the validator reports an error, with its message': lambda result, trace:
                   svh_kind(result) == (None if outcome_event(trace, 'validate-pre')[1] is None else 'VALIDATION_ERROR')
                   and result.failure_message is outcome_event(trace, 'validate-pre')[1],
               },
               raises={ArbitraryException: {'ensures': lambda self, environment, parts_attr, exc, trace:
               # (only what the validator itself raised)
               steps(trace) == [('validate-pre', getattr(self, parts_attr).validator,
                                 (environment.path_resolving_environment,))]
               and outcome_event(trace, 'validate-pre') == ('raised', exc)}},
               raises_only=())

    if phase != 'cleanup':
        M.contract(q + '.validate_post_setup', params=dict(self=this, environment=Iface(InstructionEnvI)),
                   returns=SVH, inline=True,
                   ensures={'success; runs nothing': lambda result, trace: svh_kind(result) is None and trace == []},
                   raises_only=())

    main_params = dict(self=this, environment=Iface(InstructionEnvI), settings=Any_, os_services=Any_)
    if phase == 'setup':
        main_params['settings_builder'] = Any_
    if phase == 'cleanup':
        main_params['previous_phase'] = EnumOf(PreviousPhase)
    g_main = dict(g, post_env_attr=Const(post_env_attr), settings_builder=Const(None),
                  exe_event=Const('exe-assert' if phase == 'assert_' else 'exe-main'))
    if phase == 'setup':
        del g_main['settings_builder']

    M.contract(q + '.main', params=main_params, ghosts=g_main, returns=shape, inline=True,
               ensures={
                   'post-sds validation of the parts first; the main step of the executor iff it has nothing to '
                   'say -- once, with the arguments given; nothing else':
                       lambda self, environment, settings, os_services, settings_builder, parts_attr, phase,
                              post_env_attr, exe_event, trace:
                       steps(trace) == [('validate-post', getattr(self, parts_attr).validator,
                                         (getattr(environment, post_env_attr),))]
                       + ([] if outcome_event(trace, 'validate-post')[1] is not None else
                          [(exe_event, getattr(self, parts_attr).executor,
                            _main_args(phase, environment, settings, os_services, settings_builder))]),
                   'an error of post-sds validation is a HARD_ERROR with its message; else the result of the executor':
                       lambda result, kind, exe_event, trace:
                       (result is outcome_event(trace, exe_event)[1])
                       if outcome_event(trace, 'validate-post')[1] is None else
                       (kind(result) == 'HARD_ERROR' and result[-1] is outcome_event(trace, 'validate-post')[1]),
               },
               raises={HardErrorException: {'ensures': lambda exc, exe_event, trace:
               outcome_event(trace, exe_event) == ('raised', exc)},
                       ArbitraryException: {'ensures': lambda exc, trace:
                       [e[2] for e in trace if e[0].endswith(':raised')] == [exc]}},
               raises_only=())


for _phase, _spec in FROM_PARTS.items():
    _from_parts_contracts(_phase, *_spec)


# ====================================================================================== 1b: the main step of an embryo
# MainStepExecutorFromMainStepExecutorEmbryo: the executor of the parts that are made of an InstructionEmbryo.

class EmbryoMainI(Interface):
    """the `main` of a concrete instruction embryo (arbitrary code of ~40 instructions): returns its custom
    result, raises HardErrorException (documented) or anything else"""
    methods = {'main': Method(returns=Opt(Any_), may_raise=c01.RAISES, event='embryo-main')}


class _AnyPhaseAgnosticEmbryo(embryo_mod.PhaseAgnosticInstructionEmbryo):
    """a concrete phase-agnostic embryo: `main` is opaque; everything else is the real base class"""

    def main(self, environment, settings, os_services):
        return self._main.main(environment, settings, os_services)


class _AnySetupPhaseAwareEmbryo(embryo_mod.SetupPhaseAwareInstructionEmbryo):
    def main(self, environment, settings, setup_phase_settings, os_services):
        return self._main.main(environment, settings, setup_phase_settings, os_services)


EMBRYO = Union(Inst(_AnyPhaseAgnosticEmbryo, _main=Iface(EmbryoMainI)),
               Inst(_AnySetupPhaseAwareEmbryo, _main=Iface(EmbryoMainI)))

TRANSLATOR = Union(Inst(ipu.MainStepResultTranslatorForTextRendererAsHardError),
                   Inst(ipu.MainStepResultTranslatorForUnconditionalSuccess))
# (MainStepResultTranslatorForErrorMessageStringResultAsHardError differs from ...ForTextRendererAsHardError only
#  in formatting the message string)

EMBRYO_EXECUTOR = Inst(ipu.MainStepExecutorFromMainStepExecutorEmbryo, result_translator=TRANSLATOR,
                       main_step=EMBRYO)


def _embryo_main_args(self, environment, settings, os_services, setup_phase_settings):
    if isinstance(self.main_step, _AnySetupPhaseAwareEmbryo):
        return (environment, settings, setup_phase_settings, os_services)
    return (environment, settings, os_services)


def _translated(self, kind, result, main_result):
    """the documented translation of the custom result of main: None (or anything, for the unconditional
    translator) is success, a message is a HARD_ERROR with that message"""
    if main_result is None or isinstance(self.result_translator, ipu.MainStepResultTranslatorForUnconditionalSuccess):
        return kind(result) is None
    return kind(result) == 'HARD_ERROR' and result[-1] is main_result


for _m, _kind, _shape, _extra in (('apply_as_non_assertion', sh_kind, SH, dict(setup_phase_settings=Any_)),
                                  ('apply_as_assertion', pfh_kind, PFH, {})):
    M.contract('%s:MainStepExecutorFromMainStepExecutorEmbryo.%s' % (P_IPU, _m),
               params=dict(self=EMBRYO_EXECUTOR, environment=Any_, settings=Any_, os_services=Any_, **_extra),
               ghosts=dict(kind=Const(_kind), **({} if _extra else dict(setup_phase_settings=Const(None)))),
               returns=_shape,
               ensures={
                   'the main of the embryo, once, with the arguments given (the setup settings iff it is setup-phase '
                   'aware); nothing else': lambda self, environment, settings, os_services, setup_phase_settings, trace:
                   steps(trace) == [('embryo-main', self.main_step._main,
                                     _embryo_main_args(self, environment, settings, os_services, setup_phase_settings))],
                   'a HardErrorException of main is a HARD_ERROR with its message; else the translation of its result':
                       lambda self, kind, result, trace:
                       _translated(self, kind, result, outcome_event(trace, 'embryo-main')[1])
                       if outcome_event(trace, 'embryo-main')[0] == 'returned' else
                       (kind(result) == 'HARD_ERROR' and result[-1] is outcome_event(trace, 'embryo-main')[1].error),
               },
               raises={ArbitraryException: {'ensures': lambda exc, trace:
               outcome_event(trace, 'embryo-main') == ('raised', exc)}},
               raises_only=())      # (no HardErrorException escapes)


class EmbryoI(Interface):
    """an InstructionEmbryo as the construction of the parts sees it"""
    target_class = embryo_mod.InstructionEmbryo
    attrs = {'validator': Iface(ValidatorI), 'symbol_usages': FixedList(Any_, Any_)}


M.contract(P_IPU + ':instruction_parts_from_embryo',
           params=dict(instruction=Iface(EmbryoI), result_translator=TRANSLATOR),
           returns=Inst(iparts.InstructionParts, _tuple=[Any_, Any_, Any_]), inline=True,
           ensures={
               'the validator of the parts is THE validator of the embryo': lambda instruction, result:
               result.validator is instruction.validator,
               'the executor runs the main of that embryo, translated by the translator given':
                   lambda instruction, result_translator, result:
                   type(result.executor) is ipu.MainStepExecutorFromMainStepExecutorEmbryo
                   and result.executor.main_step is instruction
                   and result.executor.result_translator is result_translator,
               'all symbol usages of the embryo': lambda instruction, result:
               result.symbol_usages == tuple(instruction.symbol_usages),
               'runs nothing': lambda trace: trace == [],
           }, raises_only=())


# ----- the parsers: what is parsed is what is validated and run

def _mk_arbitrary(interp, o):
    return ArbitraryException()


class EmbryoParserI(Interface):
    methods = {'parse': Method(returns=Iface(EmbryoI), may_raise=(_mk_arbitrary,), event='parse-embryo')}


M.contract(P_IPU + ':PartsParserFromEmbryoParser.parse',
           params=dict(self=Inst(ipu.PartsParserFromEmbryoParser, embryo_parser=Iface(EmbryoParserI),
                                 main_step_result_translator=TRANSLATOR), fs_location_info=Any_, source=Any_),
           returns=Inst(iparts.InstructionParts, _tuple=[Any_, Any_, Any_]), inline=True,
           ensures={
               'the parts of the embryo that the embryo parser made of the source': lambda self, result, trace:
               result.validator is outcome_event(trace, 'parse-embryo')[1].validator
               and result.executor.main_step is outcome_event(trace, 'parse-embryo')[1]
               and result.executor.result_translator is self.main_step_result_translator,
               'one parse, of the source given; nothing is validated or run':
                   lambda self, fs_location_info, source, trace:
                   [e for e in trace if not e[0].endswith(':returned')]
                   == [('parse-embryo', self.embryo_parser, (fs_location_info, source))],
           },
           raises={ArbitraryException: {}}, raises_only=())


class PartsParserI(Interface):
    target_class = iparts.InstructionPartsParser
    methods = {'parse': Method(returns=PARTS, may_raise=(_mk_arbitrary,), event='parse-parts')}


for _phase, (_mod, _clsname, _parts_attr, _k, _s, _x) in FROM_PARTS.items():
    M.contract('%s:Parser.parse' % (P_FP % _phase),
               params=dict(self=Inst(_mod.Parser, instruction_parts_parser=Iface(PartsParserI)), fs_location_info=Any_,
                           source=Any_),
               ghosts=dict(cls=Const(getattr(_mod, _clsname)), parts_attr=Const(_parts_attr)),
               ensures={
                   'the instruction of the phase, made of the parts that the parts parser made of the source':
                       lambda result, cls, parts_attr, trace:
                       type(result) is cls and getattr(result, parts_attr) is outcome_event(trace, 'parse-parts')[1]
                       and result._validator.validator is outcome_event(trace, 'parse-parts')[1].validator,
                   'one parse, of the source given; nothing is validated or run':
                       lambda self, fs_location_info, source, trace:
                       [e for e in trace if not e[0].endswith(':returned')]
                       == [('parse-parts', self.instruction_parts_parser, (fs_location_info, source))],
               },
               raises={ArbitraryException: {}}, raises_only=())


# ====================================================================================== 1c: assertion parts
from exactly_lib.impls.instructions.assert_.utils import assertion_part as ap
from exactly_lib.impls.exception import pfh_exception
from exactly_lib.type_val_deps.dep_variants.sdv import sdv_validation

P_AP = 'exactly_lib.impls.instructions.assert_.utils.assertion_part'

PFH_ENUM = pfh.PassOrFailOrHardErrorEnum


def _mk_pfh_exception(interp, o):
    """PfhFailException / PfhHardErrorException: "the assertion part does not PASS" (its docstring)"""
    if interp.st.choose(2) == 0:
        e = pfh_exception.PfhFailException.__new__(pfh_exception.PfhFailException)
        e._status = PFH_ENUM.FAIL
    else:
        e = pfh_exception.PfhHardErrorException.__new__(pfh_exception.PfhHardErrorException)
        e._status = PFH_ENUM.HARD_ERROR
    e._err_msg = Any_.make(interp, 'pfh_exception.err_msg')
    return e


class PartCheckI(Interface):
    """the `check` of a concrete assertion part (arbitrary code): returns a value for the next part, raises
    PfhException (documented), HardErrorException, or anything else"""
    methods = {'check': Method(returns=Any_, may_raise=(_mk_pfh_exception,) + c01.RAISES, event='part-check')}


class _AnyAssertionPart(ap.AssertionPart):
    """a concrete assertion part: `check` is opaque; the rest is the real base class"""

    def check(self, environment, os_services, value_to_check):
        return self._impl.check(environment, os_services, value_to_check)


M.contract(P_AP + ':AssertionPart.check_and_return_pfh',
           params=dict(self=Inst(_AnyAssertionPart, _validator=Iface(ValidatorI), _impl=Iface(PartCheckI)),
                       environment=Any_, os_services=Any_, value_to_check=Any_),
           returns=PFH,
           ensures={
               'one check, of the value given; no validation': lambda self, environment, os_services, value_to_check, trace:
               steps(trace) == [('part-check', self._impl, (environment, os_services, value_to_check))],
               'PASS iff the check returns; a PfhException is the status and message it stands for':
                   lambda result, trace:
                   (result.status is PFH_ENUM.PASS) if outcome_event(trace, 'part-check')[0] == 'returned' else
                   (result.status is outcome_event(trace, 'part-check')[1]._status
                    and result.failure_message is outcome_event(trace, 'part-check')[1].err_msg),
           },
           raises={HardErrorException: {'ensures': lambda exc, trace: outcome_event(trace, 'part-check') == ('raised', exc)},
                   ArbitraryException: {'ensures': lambda exc, trace: outcome_event(trace, 'part-check') == ('raised', exc)}},
           raises_only=())


class AssertionPartI(Interface):
    """an AssertionPart as the instruction made of it sees it"""
    target_class = ap.AssertionPart
    attrs = {'validator': Iface(ValidatorI), 'references': Any_}
    methods = {'check_and_return_pfh': Method(returns=PFH, may_raise=c01.RAISES, event='part-check')}


class GetArgI(Interface):
    methods = {'__call__': Method(returns=Any_, may_raise=c01.RAISES, event='get-arg')}


class HeaderI(Interface):
    methods = {'__call__': Method(returns=Any_, may_raise=c01.RAISES, event='failure-header')}


class TmpDirAccessI(Interface):
    attrs = {'paths_access': Any_}


class PostSdsInstructionEnvI(InstructionEnvI):
    attrs = {'symbols': Any_, 'tcds': Any_, 'hds': Any_, 'proc_exe_settings': Any_, 'mem_buff_size': Any_,
             'tmp_dir__path_access': Iface(TmpDirAccessI)}


def _mk_instruction_of_part(interp, name):
    x = object.__new__(ap.AssertionInstructionFromAssertionPart)
    x._assertion_part = Iface(AssertionPartI).make(interp, name + '.part')
    x._get_argument_to_assertion_part = Iface(GetArgI).make(interp, name + '.get_arg')
    v = object.__new__(svh_validators.PreOrPostSdsSvhValidationErrorValidator)
    v.validator = interp.getattr(x._assertion_part, 'validator')
    x._validator = v
    x._failure_message_header = Opt(Iface(HeaderI)).make(interp, name + '.header')
    return x


INSTRUCTION_OF_PART = Custom(_mk_instruction_of_part)
Q_IOP = P_AP + ':AssertionInstructionFromAssertionPart'

M.contract(Q_IOP + '.__init__',
           params=dict(self=Inst(ap.AssertionInstructionFromAssertionPart), assertion_part=Iface(AssertionPartI),
                       get_argument_to_part=Iface(GetArgI), failure_message_header=Opt(Iface(HeaderI))),
           inline=True,
           ensures={'holds the part; its svh-validator wraps the validator of the part': lambda self, assertion_part:
           self._assertion_part is assertion_part
           and type(self._validator) is svh_validators.PreOrPostSdsSvhValidationErrorValidator
           and self._validator.validator is assertion_part.validator,
                    'runs nothing': lambda trace: trace == []},
           raises_only=())

M.contract(Q_IOP + '.symbol_usages', params=dict(self=INSTRUCTION_OF_PART), inline=True,
           ensures={'the references of the part; runs nothing': lambda self, result, trace:
           result is self._assertion_part.references and trace == []}, raises_only=())

M.contract(Q_IOP + '.validate_pre_sds', params=dict(self=INSTRUCTION_OF_PART, environment=Iface(InstructionEnvI)),
           returns=SVH, inline=True,
           ensures={
               'only the pre-sds part of the validator of the assertion part, once, in the environment given; no check':
                   lambda self, environment, trace:
                   steps(trace) == [('validate-pre', self._assertion_part.validator,
                                     (environment.path_resolving_environment,))],
               'VALIDATION_ERROR iff the validator reports an error, with its message': lambda result, trace:
               svh_kind(result) == (None if outcome_event(trace, 'validate-pre')[1] is None else 'VALIDATION_ERROR')
               and result.failure_message is outcome_event(trace, 'validate-pre')[1],
           },
           raises={ArbitraryException: {'ensures': lambda exc, trace:
           outcome_event(trace, 'validate-pre') == ('raised', exc)}},
           raises_only=())

M.contract(Q_IOP + '.main',
           params=dict(self=INSTRUCTION_OF_PART, environment=Iface(PostSdsInstructionEnvI), settings=Any_,
                       os_services=Any_),
           returns=PFH, inline=True,
           ensures={
               'post-sds validation of the part first; iff it has nothing to say: the argument is computed and the '
               'part checked with it -- once; nothing else': lambda self, environment, os_services, trace:
               steps(trace) == [('validate-post', self._assertion_part.validator,
                                 (environment.path_resolving_environment,))]
               + ([] if outcome_event(trace, 'validate-post')[1] is not None else
                  [('get-arg', self._get_argument_to_assertion_part, (environment,)),
                   ('part-check', self._assertion_part,
                    (environment, os_services, outcome_event(trace, 'get-arg')[1]))]),
               'an error of post-sds validation is a HARD_ERROR with its message; else the status of the check (its '
               'message too, unless a header is put before the message of a FAIL)': lambda self, result, trace:
               (result.status is PFH_ENUM.HARD_ERROR
                and result.failure_message is outcome_event(trace, 'validate-post')[1])
               if outcome_event(trace, 'validate-post')[1] is not None else
               (result.status is outcome_event(trace, 'part-check')[1].status
                and (result is outcome_event(trace, 'part-check')[1]
                     or (result.status is PFH_ENUM.FAIL
                         and (self._failure_message_header is not None
                              or result.failure_message is outcome_event(trace, 'part-check')[1].failure_message)))),
           },
           raises={HardErrorException: {}, ArbitraryException: {}},
           raises_only=())

# ----- the sequence of assertion parts: validated iff every part is

M.contract('exactly_lib.symbol.sdv_structure:references_from_objects_with_symbol_references', trusted=True,
           params=dict(objects=Any_), returns=FixedList(Any_, Any_))
M.trust('sdv_structure.references_from_objects_with_symbol_references concatenates the `references` of the objects '
        '(which references an instruction reports: C08)')

M.contract(P_AP + ':SequenceOfCooperativeAssertionParts.__init__',
           params=dict(self=Inst(ap.SequenceOfCooperativeAssertionParts),
                       assertion_parts=ListOf(Iface(AssertionPartI))), inline=True,
           ensures={
               'its validator is the conjunction of the validators of ALL parts, in order':
                   lambda self, assertion_parts:
                   type(self.validator) is sdv_validation.AndSdvValidator
                   and len(self.validator.validators) == len(assertion_parts)
                   and forall_range(0, len(assertion_parts),
                                    lambda j: self.validator.validators[j] is assertion_parts[j].validator),
               'runs nothing': lambda trace: trace == [],
           }, raises_only=())


# ====================================================================================== 1d: the instruction of a matcher
# assert_/utils/instruction_of_matcher.Instruction (`exists`, `dir-contents`, ... are made of it): validated iff
# BOTH the model getter and the matcher are.
from exactly_lib.impls.instructions.assert_.utils import instruction_of_matcher as iom
from exactly_lib.type_val_deps.dep_variants.ddv import ddv_validators

P_IOM = 'exactly_lib.impls.instructions.assert_.utils.instruction_of_matcher'
P_DV = c03.P_DV

# the conjunction of exactly two validators (what `all_of([a, b])` gives; C03_validation proves the conjunction of
# any number with a ghost monitor; here call sites see the body)
PAIR = Inst(ddv_validators.AndValidator, validators=FixedList(Iface(ValidatorI), Iface(ValidatorI)))


def _pair_steps(self, step, arg, trace):
    first = ('validate-' + step, self.validators[0], (arg,))
    o = [e for e in trace if e[0] in ('validate-%s:returned' % step, 'validate-%s:raised' % step)][0]
    if o[0].endswith(':raised') or o[2] is not None:
        return [first]
    return [first, ('validate-' + step, self.validators[1], (arg,))]


for _method, _step, _arg in (('validate_pre_sds_if_applicable', 'pre', 'hds'),
                             ('validate_post_sds_if_applicable', 'post', 'tcds')):
    M.contract('%s:AndValidator.%s' % (P_DV, _method), params={'self': PAIR, _arg: Any_},
               ghosts=dict(step=Const(_step)), returns=Opt(Any_), inline=True,
               ensures={
                   'two components: the first, then -- iff it has nothing to say -- the second; that part only':
                       (lambda self, hds, step, trace: steps(trace) == _pair_steps(self, step, hds, trace))
                       if _arg == 'hds' else
                       (lambda self, tcds, step, trace: steps(trace) == _pair_steps(self, step, tcds, trace)),
                   'two components: the first error is the result': lambda result, step, trace:
                   result is [e for e in trace if e[0] == 'validate-%s:returned' % step][-1][2],
               },
               raises={ArbitraryException: {}}, raises_only=())


class MatchingResultI(Interface):
    attrs = {'value': Bool, 'trace': Any_}


class GetterPrimitiveI(Interface):
    methods = {'get': Method(returns=Any_, may_raise=c01.RAISES, event='model-get'),
               'description': Method(returns=Any_)}


class MatcherPrimitiveI(Interface):
    methods = {'matches_w_trace': Method(returns=Iface(MatchingResultI), may_raise=c01.RAISES, event='matcher-apply')}


class GetterAdvI(Interface):
    methods = {'primitive': Method(returns=Iface(GetterPrimitiveI), may_raise=c01.RAISES, event='to-primitive')}


class MatcherAdvI(Interface):
    methods = {'primitive': Method(returns=Iface(MatcherPrimitiveI), may_raise=c01.RAISES, event='to-primitive')}


class GetterDdvI(Interface):
    attrs = {'validator': Iface(ValidatorI)}
    methods = {'value_of_any_dependency': Method(returns=Iface(GetterAdvI), may_raise=c01.RAISES, event='to-adv')}


class MatcherDdvI(Interface):
    attrs = {'validator': Iface(ValidatorI)}
    methods = {'value_of_any_dependency': Method(returns=Iface(MatcherAdvI), may_raise=c01.RAISES, event='to-adv')}


class GetterSdvI(Interface):
    attrs = {'references': FixedList(Any_)}
    methods = {'resolve': Method(returns=Iface(GetterDdvI), may_raise=(_mk_arbitrary,), event='resolve-getter')}


class MatcherSdvI(Interface):
    attrs = {'references': FixedList(Any_, Any_)}
    methods = {'resolve': Method(returns=Iface(MatcherDdvI), may_raise=(_mk_arbitrary,), event='resolve-matcher')}


class FailureMessageConfigI(Interface):
    methods = {'head': Method(returns=Any_), 'tail': Method(returns=Any_)}


INSTRUCTION_OF_MATCHER = Inst(iom.Instruction, _matcher=Iface(MatcherSdvI), _model_getter=Iface(GetterSdvI),
                              _failure_message_config=Iface(FailureMessageConfigI))


class PreSdsEnvOfMatcherI(Interface):
    attrs = {'symbols': Any_, 'hds': Any_}


def _resolved(trace, what):
    return [e[2] for e in trace if e[0] == 'resolve-%s:returned' % what][0]


def _resolves_both(self, environment, trace):
    return [e for e in trace if e[0] in ('resolve-getter', 'resolve-matcher')] \
        == [('resolve-getter', self._model_getter, (environment.symbols,)),
            ('resolve-matcher', self._matcher, (environment.symbols,))]


def _validations_of_both(trace, step, arg):
    """the validator of the model getter, then -- iff it has nothing to say -- that of the matcher"""
    first = ('validate-' + step, _resolved(trace, 'getter').validator, (arg,))
    o = [e for e in trace if e[0] in ('validate-%s:returned' % step, 'validate-%s:raised' % step)][0]
    if o[0].endswith(':raised') or o[2] is not None:
        return [first]
    return [first, ('validate-' + step, _resolved(trace, 'matcher').validator, (arg,))]


def _verdict(trace, step):
    return [e for e in trace if e[0] == 'validate-%s:returned' % step][-1][2]


M.contract(P_IOM + ':Instruction.symbol_usages', params=dict(self=INSTRUCTION_OF_MATCHER), inline=True,
           ensures={'the references of the model getter and of the matcher -- all of them; runs nothing':
                    lambda self, result, trace:
                    result == tuple(self._model_getter.references) + tuple(self._matcher.references) and trace == []},
           raises_only=())

M.contract(P_IOM + ':Instruction.validate_pre_sds',
           params=dict(self=INSTRUCTION_OF_MATCHER, environment=Iface(PreSdsEnvOfMatcherI)), returns=SVH, inline=True,
           ensures={
               'the pre-sds parts of the validators of BOTH the model getter and the matcher, as resolved with the '
               'symbols of the environment, on its home directories; nothing else': lambda self, environment, trace:
               _resolves_both(self, environment, trace)
               and steps(trace) == _validations_of_both(trace, 'pre', environment.hds),
               'VALIDATION_ERROR iff one of them reports an error, with its message': lambda result, trace:
               svh_kind(result) == (None if _verdict(trace, 'pre') is None else 'VALIDATION_ERROR')
               and result.failure_message is _verdict(trace, 'pre'),
           },
           raises={ArbitraryException: {}}, raises_only=())

M.contract(P_IOM + ':Instruction.main',
           params=dict(self=INSTRUCTION_OF_MATCHER, environment=Iface(PostSdsInstructionEnvI), settings=Any_,
                       os_services=Any_), returns=PFH, inline=True,
           ensures={
               'post-sds validation of both first; the model is fetched and the matcher applied to it iff they have '
               'nothing to say': lambda self, environment, trace:
               _resolves_both(self, environment, trace)
               and [s for s in steps(trace) if s[0] in VALIDATION_EVENTS]
               == _validations_of_both(trace, 'post', environment.tcds)
               and [s[0] for s in steps(trace) if s[0] in MAIN_EVENTS]
               == ([] if _verdict(trace, 'post') is not None else
                   [] if [e for e in trace if e[0] in ('to-adv:raised', 'to-primitive:raised')] else
                   ['model-get'] + (['matcher-apply'] if outcome_event(trace, 'model-get')[0] == 'returned' else []))
               and all(e[2] == (outcome_event(trace, 'model-get')[1],) for e in trace if e[0] == 'matcher-apply'),
               'validation error or HardErrorException: HARD_ERROR with its message; else PASS iff the matcher matches, '
               'FAIL otherwise': lambda result, trace:
               (result.status is PFH_ENUM.HARD_ERROR and result.failure_message is _verdict(trace, 'post'))
               if _verdict(trace, 'post') is not None else
               (result.status is PFH_ENUM.HARD_ERROR
                and result.failure_message is [e[2] for e in trace if e[0].endswith(':raised')][0].error)
               if [e for e in trace if e[0].endswith(':raised')] else
               (result.status is (PFH_ENUM.PASS if outcome_event(trace, 'matcher-apply')[1].value else PFH_ENUM.FAIL)),
           },
           raises={ArbitraryException: {}}, raises_only=())


# ====================================================================================== 2: concrete instructions
# For each instruction: the instruction AS ITS PARSER BUILDS IT (real constructor of the embryo, real
# `instruction_parts_from_embryo`, real phase instruction: what `PartsParserFromEmbryoParser.parse` and
# `Parser.parse` do with the embryo, section 1b) is asked to validate before the sandbox exists -- a small harness
# that calls the real `validate_pre_sds`, as ENGINE.md section 9 describes for code that has no function of its own.
# Claim per instruction: validate_pre_sds asks the pre-sds validator of EVERY argument (as resolved with the symbols
# of the environment, on its home directories), in order, none dropped; it reports VALIDATION_ERROR iff one of them
# reports; and it does nothing else: no main step, no ghost file-system / process event (`quiet`).
# The arguments (PathSdv, FileMakerSdv, IntegerSdv, StringSourceSdv, ...) are opaque: `resolve(symbols)` gives a DDV
# whose `validator` is a DdvValidator (ValidatorI).
import os as _os
from pyvc import fsmodel as _fsmodel      # noqa: F401  (registers the ghost file system: its events must NOT occur)
from exactly_lib.impls.instructions.multi_phase import new_file, new_dir, copy as copy_instr, change_dir
from exactly_lib.impls.instructions.multi_phase.timeout import impl as timeout_impl
from exactly_lib.impls.instructions.multi_phase.environ import impl as env_impl
from exactly_lib.impls.instructions.setup import stdin as stdin_instr
from exactly_lib.impls.instructions.assert_ import existence_of_file
from exactly_lib.type_val_deps.dep_variants.ddv import ddv_validation

P_SVN = c03.P_SVN
P_I = 'exactly_lib.impls.instructions.'
HARNESS = 'contracts.C03b_instructions:'

FS_EVENTS = ('mkdir', 'open', 'write', 'close', 'chmod', 'chdir', 'rmtree', 'mkdtemp', 'resolve', 'exists?', 'stat')


def quiet(trace):
    """no main step and no effect on / look at the ghost file system and process state"""
    return not [e for e in trace if e[0] in MAIN_EVENTS or e[0] in FS_EVENTS]


# ----- call sites see the body (C03_validation proves these generically; its clauses are about the callee's trace)
M.contract(P_SVN + ':SdvValidatorFromDdvValidator.validate_pre_sds_if_applicable',
           params=dict(self=Inst(sdv_validation.SdvValidatorFromDdvValidator,
                                 _get_value_validator=Iface(c03.GetValidatorI), _hds=Const(None)),
                       environment=Iface(PathEnvI)), returns=Opt(Any_), inline=True,
           ensures={'(inline) the verdict of the pre-sds part of the validator of the resolved value':
                    lambda result, trace: c03._outcome(trace, 'pre') == ('returned', result)},
           raises={ArbitraryException: {}}, raises_only=())

SDV_PAIR = Inst(sdv_validation.AndSdvValidator, validators=FixedList(Iface(ValidatorI), Iface(ValidatorI)))

for _method, _step in (('validate_pre_sds_if_applicable', 'pre'), ('validate_post_sds_if_applicable', 'post')):
    M.contract('%s:AndSdvValidator.%s' % (P_SVN, _method), params=dict(self=SDV_PAIR, environment=Any_),
               ghosts=dict(step=Const(_step)), returns=Opt(Any_), inline=True,
               ensures={
                   'two components: the first, then -- iff it has nothing to say -- the second; that part only':
                       lambda self, environment, step, trace: steps(trace) == _pair_steps(self, step, environment, trace),
                   'two components: the first error is the result': lambda result, step, trace:
                   result is [e for e in trace if e[0] == 'validate-%s:returned' % step][-1][2],
               },
               raises={ArbitraryException: {}}, raises_only=())


# ----- the arguments of instructions

class FileMakerI(Interface):
    """FileMaker.make__translate_hard_error (C15): makes the file; a HardErrorException of the making is returned
    as a message"""
    methods = {'make__translate_hard_error': Method(returns=Opt(Any_), may_raise=(_mk_arbitrary,), event='make-file')}


class FileMakerAdvI(Interface):
    methods = {'primitive': Method(returns=Iface(FileMakerI), may_raise=(_mk_arbitrary,), event='to-primitive')}


class DdvWithValidatorI(Interface):
    """a DDV (of a path check, file maker, string source, file matcher ...) as far as validation is concerned"""
    attrs = {'validator': Iface(ValidatorI)}
    methods = {'value_of_any_dependency': Method(returns=Iface(FileMakerAdvI), may_raise=(_mk_arbitrary,), event='to-adv')}


class SdvOfDdvWithValidatorI(Interface):
    attrs = {'references': FixedList(Any_)}
    methods = {'resolve': Method(returns=Iface(DdvWithValidatorI), may_raise=(_mk_arbitrary,), event='resolve-arg')}


class DdvWithValidatorMethodI(Interface):
    """IntegerDdv / environ ModifierDdv: `validator()` is a method"""
    methods = {'validator': Method(returns=Iface(ValidatorI), event='get-validator-of-ddv')}


class SdvOfDdvWithValidatorMethodI(Interface):
    attrs = {'references': FixedList(Any_)}
    methods = {'resolve': Method(returns=Iface(DdvWithValidatorMethodI), may_raise=(_mk_arbitrary,),
                                 event='resolve-arg')}


class PathSuffixI(Interface):
    methods = {'value': Method(returns=Str, event='suffix-value')}


class PurePathI(Interface):
    attrs = {'name': Str}


class PathDdvOfDstI(Interface):
    methods = {'path_suffix': Method(returns=Iface(PathSuffixI)), 'path_suffix_path': Method(returns=Iface(PurePathI)),
               'describer': Method(returns=Any_),
               'value_of_any_dependency__d': Method(returns=Any_, may_raise=(_mk_arbitrary,), event='path-value')}


class PathSdvI(Interface):
    """a PathSdv whose value is not validated before the sandbox (a path to create / to change to)"""
    attrs = {'references': FixedList(Any_)}
    methods = {'resolve': Method(returns=Iface(PathDdvOfDstI), may_raise=(_mk_arbitrary,), event='resolve-path')}


class PreSdsInstructionEnvI(Interface):
    """InstructionEnvironmentForPreSdsStep: its path-resolving environment holds ITS symbols and home directories"""
    attrs = {'symbols': Any_, 'hds': Any_}
    computed = {'path_resolving_environment': lambda interp, obj: _mk_path_env(interp, obj)}


def _mk_path_env(interp, env):
    from exactly_lib.test_case.path_resolving_env import PathResolvingEnvironmentPreSds
    return PathResolvingEnvironmentPreSds(interp.getattr(env, 'hds'), interp.getattr(env, 'symbols'))


def resolved_arg(trace, sdv):
    """the DDV that `sdv.resolve(symbols)` returned"""
    k = [i for i in range(len(trace)) if trace[i][0] in ('resolve-arg', 'resolve-path') and trace[i][1] is sdv][0]
    return trace[k + 1][2]


def resolutions(trace):
    return [(e[0], e[1], e[2]) for e in trace if e[0] in ('resolve-arg', 'resolve-path')]


def validated(trace):
    """the pre-sds validations done: (validator, arguments)"""
    return [(e[1], e[2]) for e in trace if e[0] == 'validate-pre']


def no_post_sds_validation(trace):
    return not [e for e in trace if e[0] == 'validate-post']


def verdict_of(result, trace, names=('validate-pre', 'validate-dst-name')):
    """VALIDATION_ERROR iff the last validator asked reports an error -- with its message; success otherwise
    (conjunctions stop at the first error: the last one asked is the only one that can have reported)"""
    returned = [e for e in trace if e[0] in [n + ':returned' for n in names]]
    msg = returned[-1][2] if returned else None
    return svh_kind(result) == (None if msg is None else 'VALIDATION_ERROR') and result.failure_message is msg


def _setup_instruction_of(embryo_):
    """what PartsParserFromEmbryoParser.parse + setup Parser.parse make of the embryo"""
    return setup_fp.SetupPhaseInstructionFromParts(
        ipu.instruction_parts_from_embryo(embryo_, ipu.MainStepResultTranslatorForTextRendererAsHardError()))


# ----- file PATH [= CONTENTS]   (new_file)

M.model(_os.path.split, lambda interp, args, kwargs: (Str.make(interp, 'split.head'), Str.make(interp, 'split.tail')))
M.trust('os.path.split(str) returns a pair of strings and has no effect')

M.contract('exactly_lib.impls.types.path.path_err_msgs:line_header__ddv', trusted=True,
           params=dict(header=Any_, path=Any_), returns=Any_)
M.trust('path_err_msgs.line_header__ddv builds a message object (rendering is outside the property)')

M.contract(P_I + 'multi_phase.new_file:_DstFileNameSdvValidator.validate_pre_sds_if_applicable',
           params=dict(self=Inst(new_file._DstFileNameSdvValidator, _path_to_create=Iface(PathSdvI)),
                       environment=Iface(PathEnvI)),
           returns=Opt(Any_), event='validate-dst-name',
           ensures={
               'looks at the name of the path as resolved with the symbols of the environment; nothing else':
                   lambda self, environment, trace:
                   resolutions(trace) == [('resolve-path', self._path_to_create, (environment.symbols,))]
                   and quiet(trace) and steps(trace) == [],
               'a path without a file name (empty suffix) is an error': lambda result, trace:
               outcome_event(trace, 'suffix-value')[1] != '' or result is not None,
           },
           raises={ArbitraryException: {'ensures': lambda exc, trace: outcome_event(trace, 'resolve-path') == ('raised', exc)}},
           raises_only=())


def harness_new_file_validate_pre_sds(path_to_create, file_maker, environment):
    """`file PATH = CONTENTS` (new_file._TheInstructionEmbryo in [setup]) validates before the sandbox exists"""
    return _setup_instruction_of(new_file._TheInstructionEmbryo(path_to_create, file_maker)).validate_pre_sds(environment)


M.contract(HARNESS + 'harness_new_file_validate_pre_sds',
           params=dict(path_to_create=Iface(PathSdvI), file_maker=Iface(SdvOfDdvWithValidatorI),
                       environment=Iface(PreSdsInstructionEnvI)), returns=SVH,
           ensures={
               'the name of the file to create is validated, then -- iff that has nothing to say -- the file maker '
               '(contents) as resolved with the symbols of the environment, on its home directories':
                   lambda path_to_create, file_maker, environment, trace:
                   [e[0] for e in trace if e[0] == 'validate-dst-name'] == ['validate-dst-name']
                   and [e for e in trace if e[0] == 'validate-dst-name'][0][1]['self']._path_to_create is path_to_create
                   and [e for e in trace if e[0] == 'validate-dst-name'][0][1]['environment'].symbols
                   is environment.symbols
                   and (validated(trace) == [] and resolutions(trace) == []
                        if outcome_event(trace, 'validate-dst-name')[1] is not None else
                        resolutions(trace) == [('resolve-arg', file_maker, (environment.symbols,))]
                        and validated(trace) == [(resolved_arg(trace, file_maker).validator, (environment.hds,))]),
               'VALIDATION_ERROR iff one of them reports an error, with its message': lambda result, trace:
               verdict_of(result, trace),
               'nothing else: no main step, no effect': lambda trace: quiet(trace) and no_post_sds_validation(trace),
           },
           raises={ArbitraryException: {}}, raises_only=())


class TokenPathParserI(Interface):
    methods = {'parse_from_token_parser': Method(returns=Iface(PathSdvI), may_raise=(_mk_arbitrary,), event='parse-path')}


class TokenParserOfI(Interface):
    methods = {'parse': Method(returns=Iface(SdvOfDdvWithValidatorI), may_raise=(_mk_arbitrary,), event='parse-arg')}


class TokensI(Interface):
    attrs = {'is_at_eol': Bool}
    methods = {'report_superfluous_arguments_if_not_at_eol': Method(may_raise=(_mk_arbitrary,), event='at-eol')}


for _q, _cls, _emb, _path_attr in (
        ('multi_phase.new_file:EmbryoParser', new_file.EmbryoParser, new_file._TheInstructionEmbryo, '_path_to_create'),
        ('multi_phase.new_dir:EmbryoParser', new_dir.EmbryoParser, new_dir.TheInstructionEmbryo, '_dir_path_sdv')):
    M.contract(P_I + _q + '._parse_from_tokens',
               params={'self': Inst(_cls, _path_parser=Iface(TokenPathParserI), _file_maker_parser=Iface(TokenParserOfI)),
                       ('tokens' if _emb is new_file._TheInstructionEmbryo else 'token_parser'): Iface(TokensI)},
               ghosts=dict(emb=Const(_emb), path_attr=Const(_path_attr)),
               ensures={'the embryo of the path and the file maker that were parsed -- both': lambda result, emb, path_attr, trace:
               type(result) is emb and getattr(result, path_attr) is outcome_event(trace, 'parse-path')[1]
               and result._file_maker is outcome_event(trace, 'parse-arg')[1],
                        'superfluous arguments are reported; nothing is validated or run': lambda trace:
                        len([e for e in trace if e[0] == 'at-eol']) == 1 and steps(trace) == [] and quiet(trace)},
               raises={ArbitraryException: {}}, raises_only=())


# ----- dir PATH [= CONTENTS]   (new_dir)

def harness_new_dir_validate_pre_sds(dir_path_sdv, file_maker, environment):
    """`dir PATH [= CONTENTS]` (new_dir.TheInstructionEmbryo in [setup]) validates before the sandbox exists"""
    return _setup_instruction_of(new_dir.TheInstructionEmbryo(dir_path_sdv, file_maker)).validate_pre_sds(environment)


def _validates_exactly(arg, environment, trace):
    return resolutions(trace) == [('resolve-arg', arg, (environment.symbols,))] \
        and validated(trace) == [(resolved_arg(trace, arg).validator, (environment.hds,))]


_ONE_ARG = {
    'the argument is validated: as resolved with the symbols of the environment, on its home directories':
        lambda arg, environment, trace: _validates_exactly(arg, environment, trace),
    'VALIDATION_ERROR iff it reports an error, with its message': lambda result, trace: verdict_of(result, trace),
    'nothing else: no main step, no effect': lambda trace: quiet(trace) and no_post_sds_validation(trace),
}

M.contract(HARNESS + 'harness_new_dir_validate_pre_sds',
           params=dict(dir_path_sdv=Iface(PathSdvI), file_maker=Iface(SdvOfDdvWithValidatorI),
                       environment=Iface(PreSdsInstructionEnvI)), returns=SVH,
           setup=lambda interp, args, ghosts: {'arg': args['file_maker']}, ghosts=dict(arg=Any_),
           ensures=dict(_ONE_ARG), raises={ArbitraryException: {}}, raises_only=())


# ----- timeout = INTEGER / env VAR = VALUE: the validator method of the resolved value

def _validates_exactly_m(arg, environment, trace):
    return resolutions(trace) == [('resolve-arg', arg, (environment.symbols,))] \
        and [(e[0], e[1]) for e in trace if e[0] == 'get-validator-of-ddv'] \
        == [('get-validator-of-ddv', resolved_arg(trace, arg))] \
        and validated(trace) == [(outcome_event(trace, 'get-validator-of-ddv')[1], (environment.hds,))]


_ONE_ARG_M = dict(_ONE_ARG)
del _ONE_ARG_M['the argument is validated: as resolved with the symbols of the environment, on its home directories']
_ONE_ARG_M = dict({'the argument is validated: as resolved with the symbols of the environment, on its home directories':
                   lambda arg, environment, trace: _validates_exactly_m(arg, environment, trace)}, **_ONE_ARG_M)


def harness_timeout_validate_pre_sds(value, environment):
    """`timeout = INTEGER` (timeout.impl.TheInstructionEmbryo in [setup]) validates before the sandbox exists"""
    return _setup_instruction_of(timeout_impl.TheInstructionEmbryo(value)).validate_pre_sds(environment)


M.contract(HARNESS + 'harness_timeout_validate_pre_sds',
           params=dict(value=Opt(Iface(SdvOfDdvWithValidatorMethodI)), environment=Iface(PreSdsInstructionEnvI)),
           returns=SVH,
           ensures={
               'the argument is validated: as resolved with the symbols of the environment, on its home directories':
                   lambda value, environment, trace:
                   (trace == []) if value is None else _validates_exactly_m(value, environment, trace),      # (`timeout = none`)
               'VALIDATION_ERROR iff it reports an error, with its message': lambda result, trace:
               verdict_of(result, trace),
               'nothing else: no main step, no effect': lambda trace: quiet(trace) and no_post_sds_validation(trace),
           }, raises={ArbitraryException: {}}, raises_only=())


def harness_env_validate_pre_sds(phases, modifier, environment):
    """`env VAR = VALUE` / `env unset VAR` (environ.impl.TheInstructionEmbryo in [setup])"""
    return _setup_instruction_of(env_impl.TheInstructionEmbryo(phases, modifier)).validate_pre_sds(environment)


M.contract(HARNESS + 'harness_env_validate_pre_sds',
           params=dict(phases=Any_, modifier=Iface(SdvOfDdvWithValidatorMethodI),
                       environment=Iface(PreSdsInstructionEnvI)),
           returns=SVH, setup=lambda interp, args, ghosts: {'arg': args['modifier']}, ghosts=dict(arg=Any_),
           ensures=dict(_ONE_ARG_M), raises={ArbitraryException: {}}, raises_only=())


# ----- cd PATH: nothing can be validated before the sandbox exists (the directory lies in it); nothing is done

def harness_change_dir_validate_pre_sds(destination, environment):
    """`cd PATH` (change_dir.InstructionEmbryo in [setup])"""
    return _setup_instruction_of(change_dir.InstructionEmbryo(destination)).validate_pre_sds(environment)


M.contract(HARNESS + 'harness_change_dir_validate_pre_sds',
           params=dict(destination=Iface(PathSdvI), environment=Iface(PreSdsInstructionEnvI)), returns=SVH,
           ensures={'success; in particular the current directory is not changed': lambda result, trace:
           svh_kind(result) is None and trace == []},
           raises_only=())


# ----- copy SOURCE [DESTINATION]: "names a missing file in a home directory"
from exactly_lib.impls.types.path import path_check as _path_check, path_validator as _path_validator
from exactly_lib.impls import file_properties as _file_properties

FS_MODIFYING_EVENTS = tuple(e for e in FS_EVENTS if e not in ('stat', 'exists?', 'resolve'))


def no_effect(trace):
    """no main step, nothing in the ghost file system / process state is changed (it may be looked at)"""
    return not [e for e in trace if e[0] in MAIN_EVENTS or e[0] in FS_MODIFYING_EVENTS]


class _StatResultI(Interface):
    attrs = {'st_mode': Int}


def _m_stat(interp, args, kwargs):
    """os.stat(path): a look at the file system (ghost event 'stat'); the file status or OSError"""
    interp.st.emit('stat', args[0], None)
    if interp.st.choose(2) == 0:
        interp.st.emit('stat:returned', args[0], True)
        from pyvc.api import new_opaque
        return new_opaque(interp, _StatResultI, 'stat_result')
    interp.st.emit('stat:raised', args[0], False)
    from pyvc.interp import PyRaise
    raise PyRaise(FileNotFoundError())


M.model(_os.stat, _m_stat)
M.trust('os.stat(path) returns the status of the file or raises OSError; it changes nothing (ghost event `stat`)')


class DescribedPathI(Interface):
    """DescribedPath: `primitive` (a pathlib.Path, here: its string) and a describer for messages"""
    attrs = {'primitive': Str, 'describer': Any_}


class CheckedPathDdvI(Interface):
    target_class = c03._PathDdv
    methods = {'exists_pre_sds': Method(returns=Bool, pure=True),
               'value_pre_sds__d': Method(returns=Iface(DescribedPathI), event='value-pre-sds'),
               'value_post_sds__d': Method(returns=Iface(DescribedPathI), event='value-post-sds')}


class CheckedPathSdvI(Interface):
    attrs = {'references': FixedList(Any_)}
    methods = {'resolve': Method(returns=Iface(CheckedPathDdvI), may_raise=(_mk_arbitrary,), event='resolve-arg')}


M.contract('exactly_lib.impls.types.path.path_validator:PathDdvValidatorBase.validate_pre_sds_if_applicable',
           params=dict(self=c03._DDV_VALIDATOR, hds=Any_), returns=Opt(Any_), inline=True,
           ensures={'(inline) a path that exists before the sandbox is checked now; any other path is not':
                    lambda self, trace: len(c03._checks(trace)) == (1 if self._path_ddv.exists_pre_sds() else 0)},
           raises_only=())


def stats(trace):
    return [e[1] for e in trace if e[0] == 'stat']


def _copy_embryo(source_path, destination_path):
    if destination_path is None:
        return copy_instr._CopySourceWithoutExplicitDestinationInstruction(source_path)
    return copy_instr._CopySourceWithExplicitDestinationInstruction(source_path, destination_path)


def harness_copy_validate_pre_sds(source_path, destination_path, environment):
    """`copy SOURCE [DESTINATION]` (the two embryo classes of multi_phase/copy.py, in [setup]: what
    EmbryoParser._parse_from_tokens builds with / without a destination)"""
    return _setup_instruction_of(_copy_embryo(source_path, destination_path)).validate_pre_sds(environment)


M.contract(HARNESS + 'harness_copy_validate_pre_sds',
           params=dict(source_path=Iface(CheckedPathSdvI), destination_path=Opt(Iface(PathSdvI)),
                       environment=Iface(PreSdsInstructionEnvI)), returns=SVH,
           ensures={
               'the source, as resolved with the symbols of the environment, is checked for existence now iff it can '
               'exist before the sandbox (absolute / in a home directory): its location under the home directories of '
               'the environment is looked at; the destination is not touched':
                   lambda source_path, environment, trace:
                   resolutions(trace) == [('resolve-arg', source_path, (environment.symbols,))]
                   and ([(e[1], e[2]) for e in trace if e[0] in ('value-pre-sds', 'value-post-sds')]
                        == [(resolved_arg(trace, source_path), (environment.hds,))]
                        and stats(trace) == [outcome_event(trace, 'value-pre-sds')[1].primitive]
                        if resolved_arg(trace, source_path).exists_pre_sds() else
                        [e for e in trace if e[0] in ('value-pre-sds', 'value-post-sds', 'stat')] == []),
               'VALIDATION_ERROR iff the source is looked for and is missing': lambda result, source_path, trace:
               svh_kind(result) == ('VALIDATION_ERROR' if [e for e in trace if e[0] == 'stat:raised'] else None),
               'nothing else: no main step, nothing is changed': lambda trace:
               no_effect(trace) and steps(trace) == [],
           },
           raises={ArbitraryException: {}}, raises_only=())


M.contract(P_I + 'multi_phase.copy:EmbryoParser._parse_from_tokens',
           params=dict(self=Inst(copy_instr.EmbryoParser, _src_path_parser=Iface(TokenPathParserI),
                                 _dst_path_parser=Iface(TokenPathParserI)), token_parser=Iface(TokensI)),
           ensures={'the embryo of the source that was parsed, and of the destination iff one is given':
                    lambda self, token_parser, result, trace:
                    result.source_path is [e[2] for e in trace if e[0] == 'parse-path:returned'][0]
                    and [e[1] for e in trace if e[0] == 'parse-path']
                    == ([self._src_path_parser] if token_parser.is_at_eol else [self._src_path_parser,
                                                                                 self._dst_path_parser])
                    and (type(result) is copy_instr._CopySourceWithoutExplicitDestinationInstruction
                         if token_parser.is_at_eol else
                         (type(result) is copy_instr._CopySourceWithExplicitDestinationInstruction
                          and result.destination_path is [e[2] for e in trace if e[0] == 'parse-path:returned'][1])),
                    'nothing is validated or run': lambda trace: steps(trace) == [] and quiet(trace)},
           raises={ArbitraryException: {}}, raises_only=())


# ----- stdin = CONTENTS ([setup])

class SetupSettingsBuilderI(Interface):
    attrs = {'stdin': Any_}


STDIN_INSTRUCTION = Inst(stdin_instr._Instruction, _contents=Iface(SdvOfDdvWithValidatorI))

M.contract(P_I + 'setup.stdin:_Instruction.validate_pre_sds',
           params=dict(self=STDIN_INSTRUCTION, environment=Iface(PreSdsInstructionEnvI)), returns=SVH,
           setup=lambda interp, args, ghosts: {'arg': args['self']._contents}, ghosts=dict(arg=Any_),
           ensures=dict(_ONE_ARG), raises={ArbitraryException: {}}, raises_only=())

M.contract(P_I + 'setup.stdin:_Instruction.validate_post_setup',
           params=dict(self=STDIN_INSTRUCTION, environment=Any_), returns=SVH,
           ensures={'success; runs nothing': lambda result, trace: svh_kind(result) is None and trace == []},
           raises_only=())

M.contract(P_I + 'setup.stdin:_Instruction.symbol_usages', params=dict(self=STDIN_INSTRUCTION),
           ensures={'the references of the contents; runs nothing': lambda self, result, trace:
           result is self._contents.references and trace == []}, raises_only=())

M.contract(P_I + 'setup.stdin:_Instruction.main',
           params=dict(self=STDIN_INSTRUCTION, environment=Iface(PostSdsInstructionEnvI), settings=Any_,
                       os_services=Any_, settings_builder=Iface(SetupSettingsBuilderI)), returns=SH,
           ensures={'records the contents as resolved with the symbols of the environment; success; no effect':
                    lambda self, environment, settings_builder, result, trace:
                    sh_kind(result) is None and no_effect(trace)
                    and resolutions(trace) == [('resolve-arg', self._contents, (environment.symbols,))]
                    and type(settings_builder.stdin) is stdin_instr._StdinOfStringSource
                    and settings_builder.stdin._string_source is resolved_arg(trace, self._contents)},
           modifies={'settings_builder.stdin': Any_},
           raises={ArbitraryException: {}}, raises_only=())


# ----- exists [!] PATH [: FILE-MATCHER]

EXISTS_INSTRUCTION = Inst(existence_of_file._Instruction, _expectation_type=Any_, _path_sdv=Iface(PathSdvI),
                          _file_matcher=Opt(Iface(SdvOfDdvWithValidatorI)), _symbol_usages=Any_)

for _method, _step, _arg in (('validate_pre_sds', 'pre', 'hds'), ('validate_post_setup', 'post', 'tcds')):
    M.contract(P_I + 'assert_.existence_of_file:_Instruction.' + _method,
               params=dict(self=EXISTS_INSTRUCTION, environment=Iface(PostSdsInstructionEnvI)), returns=SVH,
               ghosts=dict(step=Const(_step), arg_name=Const(_arg)),
               ensures={
                   'the file matcher -- if there is one -- is validated (that step only): as resolved with the symbols '
                   'of the environment; the path is not looked at': lambda self, environment, step, arg_name, trace:
                   (trace == []) if self._file_matcher is None else
                   (resolutions(trace) == [('resolve-arg', self._file_matcher, (environment.symbols,))]
                    and steps(trace) == [('validate-' + step, resolved_arg(trace, self._file_matcher).validator,
                                          (getattr(environment, arg_name),))]),
                   'VALIDATION_ERROR iff it reports an error, with its message': lambda result, step, trace:
                   verdict_of(result, trace, ('validate-' + step,)),
                   'nothing else: no main step, no effect': lambda trace: quiet(trace),
               },
               raises={ArbitraryException: {}}, raises_only=())

M.contract(P_I + 'assert_.existence_of_file:_Instruction.__init__',
           params=dict(self=Inst(existence_of_file._Instruction), expectation_type=Any_, path_sdv=Iface(PathSdvI),
                       file_matcher=Opt(Iface(SdvOfDdvWithValidatorI))),
           ensures={'holds the file matcher given; reports the references of the path AND of the file matcher':
                    lambda self, path_sdv, file_matcher:
                    self._file_matcher is file_matcher and self._path_sdv is path_sdv
                    and self.symbol_usages() == list(path_sdv.references)
                    + ([] if file_matcher is None else list(file_matcher.references))},
           raises_only=())


# ----- exit-code INTEGER-MATCHER
from exactly_lib.impls.instructions.assert_.process_output.impl.exit_code import instruction as exit_code_instruction
from exactly_lib.impls.types.matcher import property_matcher as _property_matcher

M.contract('exactly_lib.impls.types.matcher.property_matcher:PropertyMatcherDdv.__init__',
           params=dict(self=Inst(_property_matcher.PropertyMatcherDdv), matcher=Iface(c03._WithValidatorI),
                       property_getter=Iface(c03._WithValidatorI), describer=Any_,
                       get_int_interval_of_prop_matcher=Any_), inline=True,
           ensures={'(inline) validated iff the matcher of the property and the property getter both are':
                    lambda self, matcher, property_getter:
                    self.validator.validators[0] is matcher.validator
                    and self.validator.validators[1] is property_getter.validator},
           raises_only=())


def harness_exit_code_validate_pre_sds(matcher, model_getter, environment):
    """`exit-code INTEGER-MATCHER` as exit_code.instruction(...) builds it (C10b: what the parser passes) is asked to
    validate before the sandbox exists"""
    return exit_code_instruction.instruction('exit-code', matcher, model_getter).validate_pre_sds(environment)


M.contract(HARNESS + 'harness_exit_code_validate_pre_sds',
           params=dict(matcher=Iface(SdvOfDdvWithValidatorI), model_getter=Iface(GetterSdvI),
                       environment=Iface(PreSdsEnvOfMatcherI)), returns=SVH,
           ensures={
               'the source of the exit code (-from PROGRAM) and then -- iff it has nothing to say -- the INTEGER MATCHER '
               'are validated: as resolved with the symbols of the environment, on its home directories':
                   lambda matcher, model_getter, environment, trace:
                   [e for e in trace if e[0] == 'resolve-getter'] == [('resolve-getter', model_getter,
                                                                       (environment.symbols,))]
                   and resolutions(trace) == [('resolve-arg', matcher, (environment.symbols,))]
                   and validated(trace) == [(_resolved(trace, 'getter').validator, (environment.hds,))]
                   + ([] if [e for e in trace if e[0] == 'validate-pre:returned'][0][2] is not None else
                      [(resolved_arg(trace, matcher).validator, (environment.hds,))]),
               'VALIDATION_ERROR iff one of them reports an error, with its message': lambda result, trace:
               verdict_of(result, trace),
               'nothing else: no main step, no effect': lambda trace: quiet(trace) and no_post_sds_validation(trace),
           },
           raises={ArbitraryException: {}}, raises_only=())


# ----- stdout / stderr / contents PATH : STRING-MATCHER   (assert_/utils/file_contents/parse_instruction.Parser)
from exactly_lib.impls.instructions.assert_.utils.file_contents import parse_instruction as _fc_parse_instruction
from exactly_lib.impls.types.string_matcher import parse_string_matcher as _parse_string_matcher


class ActualFileConstructorI(Interface):
    """ComparisonActualFileConstructor: the file whose contents is checked (a path / the output of a program)"""
    attrs = {'validator': Iface(ValidatorI), 'references': FixedList(Any_)}
    methods = {'failure_message_header': Method(returns=Any_), 'construct': Method(returns=Any_, event='get-arg')}


class ActualFileParserI(Interface):
    methods = {'parse_from_token_parser': Method(returns=Iface(ActualFileConstructorI), may_raise=(_mk_arbitrary,),
                                                 event='parse-actual-file')}


class MatcherParserI(Interface):
    methods = {'parse_from_token_parser': Method(returns=Iface(SdvOfDdvWithValidatorI), may_raise=(_mk_arbitrary,),
                                                 event='parse-arg')}


class MatcherParsersI(Interface):
    attrs = {'full': Iface(MatcherParserI), 'simple': Iface(MatcherParserI)}


def _m_string_matcher_parsers(interp, args, kwargs):
    from pyvc.api import new_opaque
    return new_opaque(interp, MatcherParsersI, 'string_matcher_parsers')


M.model(_parse_string_matcher.parsers, _m_string_matcher_parsers)
M.trust('parse_string_matcher.parsers() gives the parsers of STRING-MATCHER (grammar: C06); what they return is a '
        'StringMatcherSdv')


def harness_file_contents_instruction_parsed_then_validated(parser, tokens, environment):
    """`stdout` / `stderr` / `contents PATH`: the instruction that the real parse_instruction.Parser makes of the
    tokens (actual-file parser and STRING-MATCHER parser opaque) is asked to validate before the sandbox exists"""
    return parser.parse_from_token_parser(tokens).validate_pre_sds(environment)


M.contract(HARNESS + 'harness_file_contents_instruction_parsed_then_validated',
           params=dict(parser=Inst(_fc_parse_instruction.Parser, _instruction_name=Str,
                                   _actual_file_parser=Iface(ActualFileParserI)),
                       tokens=Iface(TokensI), environment=Iface(PreSdsInstructionEnvI)), returns=SVH,
           ensures={
               'the file to check (the path / the program of -from) that was parsed is validated, then -- iff it has '
               'nothing to say -- the STRING MATCHER that was parsed: as resolved with the symbols of the environment, '
               'on its home directories': lambda environment, trace:
               validated(trace)[0][0] is outcome_event(trace, 'parse-actual-file')[1].validator
               and validated(trace)[0][1][0].symbols is environment.symbols
               and validated(trace)[0][1][0].hds is environment.hds
               and ((len(validated(trace)) == 1 and resolutions(trace) == [])
                    if [e for e in trace if e[0] == 'validate-pre:returned'][0][2] is not None else
                    (resolutions(trace) == [('resolve-arg', outcome_event(trace, 'parse-arg')[1], (environment.symbols,))]
                     and validated(trace)[1:] == [(resolved_arg(trace, outcome_event(trace, 'parse-arg')[1]).validator,
                                                   (environment.hds,))])),
               'VALIDATION_ERROR iff one of them reports an error, with its message': lambda result, trace:
               verdict_of(result, trace),
               'nothing else: no main step, no effect': lambda trace: quiet(trace) and no_post_sds_validation(trace),
           },
           raises={ArbitraryException: {}}, raises_only=())


# ====================================================================================== 3: the chain, closed at both ends
# "gives a non-integer where an integer is required" / bad regex: the validator of the argument, as the instruction's
# validator reaches it (section 2: `exit-code` asks the validator of the INTEGER MATCHER DDV, `stdout ... ` that of the
# STRING MATCHER DDV; section 1: validate_pre_sds reports what it says; C01/C03: the executor then stops before the
# sandbox), reports the defect as an error TEXT -- at validation time, without an exception, without effects.
# Verified from the real code down to `eval` / `re.compile` (models of the engine: any value / any Exception).
from exactly_lib.impls.types.integer_matcher import parse_integer_matcher as _parse_integer_matcher
from exactly_lib.impls.types.integer import integer_sdv as _integer_sdv
from exactly_lib.impls.types.string_ import parse_string as _parse_string
from exactly_lib.impls.types.string_matcher.impl import matches as _matches
from exactly_lib.impls.types.regex import parse_regex as _parse_regex
from exactly_lib.impls.types.matcher.impls import comparison_matcher as _comparison_matcher, operand_object as _operand_object

M.trust('builtins.eval(text): any value or any Exception; re.compile(text, flags): a Pattern or any Exception '
        '(pyvc.models.m_eval, pyvc/re_model.py) -- as in C18')


class StringDdvI(Interface):
    """StringDdv (as C18_mistakes.StringDdvI): resolving the string value does not raise (C08)"""
    methods = {
        'resolving_dependencies': Method(returns=OneOf(frozenset(), frozenset([1])), pure=True),
        'value_when_no_dir_dependencies': Method(returns=Str, event='string-value'),
        'value_of_any_dependency': Method(returns=Str, event='string-value'),
        'describer': Method(returns=Any_),
    }


class StringSdvI(Interface):
    attrs = {'references': FixedList(Any_)}
    methods = {'resolve': Method(returns=Iface(StringDdvI), event='resolve-string')}


def _m_parse_string(interp, args, kwargs):
    from pyvc.api import new_opaque
    s = new_opaque(interp, StringSdvI, 'parsed_string')
    interp.st.emit('parse-string', args[0], tuple(args[1:]))
    interp.st.emit('parse-string:returned', args[0], s)
    return s


M.model(_parse_string.StringFromTokensParser.parse, _m_parse_string)
M.trust('parse_string.StringFromTokensParser.parse(tokens) gives the StringSdv of the token (grammar of strings: C09)')

for _q in ('exactly_lib.common.report_rendering.text_docs:single_pre_formatted_line_object',
           'exactly_lib.common.report_rendering.text_docs:single_line'):
    M.contract(_q, trusted=True, params=dict(x=Any_, s=Any_), returns=Iface(c03.ErrorDescriptionI))
M.trust('text_docs.single_pre_formatted_line_object / single_line build a message object (lazily formatted: C18 '
        '`lazily-formatted-messages`)')


def harness_integer_matcher_parsed_then_validated(operator, tokens, symbols, hds):
    """`OP INTEGER` (what exit-code, num-lines, ... compare with): the matcher that the real
    parse_integer_matcher._ComparisonParser makes of the tokens (the string parser is opaque), resolved, validated
    before the sandbox exists -- what instruction_of_matcher.Instruction.validate_pre_sds reaches (section 2)"""
    matcher = _parse_integer_matcher._ComparisonParser(operator).parse(tokens)
    return matcher.resolve(symbols).validator.validate_pre_sds_if_applicable(hds)


M.contract(HARNESS + 'harness_integer_matcher_parsed_then_validated',
           params=dict(operator=Any_, tokens=Any_, symbols=Any_, hds=Any_), returns=Opt(Any_),
           ensures={
               'the INTEGER that was parsed is evaluated now: its string as resolved with the symbols given':
                   lambda symbols, trace:
                   len([e for e in trace if e[0] == 'resolve-string']) >= 1
                   and all((e[1], e[2]) == (outcome_event(trace, 'parse-string')[1], (symbols,))
                           for e in trace if e[0] == 'resolve-string')
                   and len([e for e in trace if e[0] == 'string-value']) == 1,
               'nothing else: no effect': lambda trace: quiet(trace) and steps(trace) == [],
           },
           raises_only=())      # a text that is not an integer expression is an error TEXT


def harness_matches_regex_validated(is_full_match, is_ignore_case, regex_string, symbols, hds):
    """`matches [-full] REGEX` (string matcher): string_matcher.impl.matches.sdv over the _RegexSdv that ParserOfRegex
    builds from the parsed string; resolved, validated before the sandbox exists.  Returns (ddv, verdict)."""
    ddv = _matches.sdv(is_full_match, _parse_regex._RegexSdv(is_ignore_case, regex_string)).resolve(symbols)
    return ddv, ddv.validator.validate_pre_sds_if_applicable(hds)


M.contract(HARNESS + 'harness_matches_regex_validated',
           params=dict(is_full_match=Bool, is_ignore_case=Bool, regex_string=Iface(StringSdvI), symbols=Any_, hds=Any_),
           ensures={
               'the REGEX, as resolved with the symbols given, is compiled now unless it depends on the sandbox: no '
               'error text means there is a compiled pattern (or validation is postponed to after the sandbox exists)':
                   lambda regex_string, symbols, result, trace:
                   [(e[1], e[2]) for e in trace if e[0] == 'resolve-string'] == [(regex_string, (symbols,))]
                   and (result[1] is not None or result[0]._matcher._regex._validator.pattern is not None
                        or len(result[0]._matcher._regex._validator.string.resolving_dependencies()) > 0),
               'nothing else: no effect': lambda trace: quiet(trace) and steps(trace) == [],
           },
           raises_only=())      # a regex that does not compile is an error TEXT


# ----- run / shell / sys-cmd PROGRAM   (multi_phase/utils/instruction_from_parts_for_executing_program.py)
from exactly_lib.impls.instructions.multi_phase.utils import instruction_from_parts_for_executing_program as _exe_program
from exactly_lib.impls.instructions.multi_phase.define_symbol import parser as _def_parser


def harness_run_program_validate_pre_sds(program, environment):
    """`run` / `$` / `%` PROGRAM ([setup]): the embryo that InstructionEmbryoParser._parse builds from the parsed
    program, the parts as parts_parser(...) makes them (its ResultTranslator)"""
    return setup_fp.SetupPhaseInstructionFromParts(
        ipu.instruction_parts_from_embryo(_exe_program.TheInstructionEmbryo(program), _exe_program.ResultTranslator())
    ).validate_pre_sds(environment)


M.contract(HARNESS + 'harness_run_program_validate_pre_sds',
           params=dict(program=Iface(SdvOfDdvWithValidatorI), environment=Iface(PreSdsInstructionEnvI)),
           returns=SVH, setup=lambda interp, args, ghosts: {'arg': args['program']}, ghosts=dict(arg=Any_),
           ensures=dict(_ONE_ARG),      # in particular: the program is NOT started
           raises={ArbitraryException: {}}, raises_only=())


class ProgramParserI(Interface):
    methods = {'parse': Method(returns=Iface(SdvOfDdvWithValidatorI), may_raise=(_mk_arbitrary,), event='parse-arg')}


class ParseSourceOfProgramI(Interface):
    attrs = {'has_current_line': Bool, 'is_at_eol__except_for_space': Bool, 'remaining_part_of_current_line': Str}
    methods = {'consume': Method(event='consume'), 'consume_current_line': Method(event='consume')}


from exactly_lib.section_document.element_parsers.instruction_parser_exceptions import \
    SingleInstructionInvalidArgumentException as _InvalidArgument

M.contract(P_I + 'multi_phase.utils.instruction_from_parts_for_executing_program:InstructionEmbryoParser._parse',
           params=dict(self=Inst(_exe_program.InstructionEmbryoParser, instruction_name=Str,
                                 program_parser=Iface(ProgramParserI)), source=Iface(ParseSourceOfProgramI)),
           ensures={'the embryo of the program that was parsed; nothing is validated or run': lambda result, trace:
           type(result) is _exe_program.TheInstructionEmbryo
           and result._program is outcome_event(trace, 'parse-arg')[1] and steps(trace) == [] and quiet(trace)},
           raises={ArbitraryException: {},
                   _InvalidArgument: {'when': lambda source: source.has_current_line
                                      and not source.is_at_eol__except_for_space}},      # superfluous arguments
           raises_only=())


# ----- def TYPE NAME = VALUE: the definition is checked as a symbol usage (C08); nothing else is validated or done

def harness_define_symbol_validate_pre_sds(symbol, environment):
    """`def` ([setup]): define_symbol.parser.TheInstructionEmbryo with PARTS_PARSER's translator"""
    return setup_fp.SetupPhaseInstructionFromParts(
        ipu.instruction_parts_from_embryo(_def_parser.TheInstructionEmbryo(symbol),
                                          ipu.MainStepResultTranslatorForErrorMessageStringResultAsHardError())
    ).validate_pre_sds(environment)


M.contract(HARNESS + 'harness_define_symbol_validate_pre_sds',
           params=dict(symbol=Any_, environment=Iface(PreSdsInstructionEnvI)), returns=SVH,
           ensures={'success; in particular the symbol is not put into a table': lambda result, trace:
           svh_kind(result) is None and trace == []},
           raises_only=())


# ----- SequenceOfCooperativeAssertionParts.check: the parts in order, none skipped, none after one that does not pass
# (ghost monitor as for the conjunctions of validators in C03_validation; the threading of the value from part to
# part is not stated: values are opaque and have no identity the verifier could follow through the loop)
from pyvc.interp import PyRaise as _PyRaise
from pyvc.values import wrap as _wrap


def monitor_accepts_check(ghost, idx):
    return (not ghost['stopped']) and idx == ghost['last_part'] + 1


def _part_check_model(interp, self, args, kwargs):
    st = interp.st
    fn = interp.current_function_name()
    g = st.ghost
    if 'parts' in g:
        idx = getattr(self, '_pv_index', ())
        if len(idx) != 1 or not self._pv_uid.startswith(g['parts'].uid + '[]'):
            st.oblige(fn + ' : monitor[only parts of the sequence are checked]', False, {'kind': 'monitor'})
            raise _PyRaise(AssertionError('monitor'))
        ok = interp.truth(interp.call(monitor_accepts_check, [g, _wrap(idx[0])], {}))
        st.oblige(fn + ' : monitor[parts in order, none skipped, none after one that does not pass]', ok,
                  {'kind': 'monitor'})
        st.assume(ok)
        g['last_part'] = _wrap(idx[0])
    st.emit('part-check', self, tuple(args))
    k = st.choose(4)
    if k == 0:
        r = Any_.make(interp, 'checked_value')
        st.emit('part-check:returned', self, r)
        return r
    g['stopped'] = True
    exc = (_mk_pfh_exception(interp, None) if k == 1 else c01._mk_hard_error(interp, None) if k == 2
           else ArbitraryException())
    st.emit('part-check:raised', self, exc)
    raise _PyRaise(exc)


class SequencedPartI(Interface):
    target_class = ap.AssertionPart
    methods = {'check': Method(model=_part_check_model)}


def _sequence_start(interp, args, ghosts):
    g = interp.st.ghost
    g['parts'] = args['self']._assertion_parts
    g['last_part'] = -1
    g['stopped'] = False
    return None


M.contract(P_AP + ':SequenceOfCooperativeAssertionParts.check',
           params=dict(self=Inst(ap.SequenceOfCooperativeAssertionParts, _validator=Any_, _references=Any_,
                                 _assertion_parts=ListOf(Iface(SequencedPartI))),
                       environment=Any_, os_services=Any_, value_to_check=Any_),
           setup=_sequence_start,
           ensures={'returns when every part has been checked and passed': lambda self, ghost:
           (not ghost['stopped']) and ghost['last_part'] == len(self._assertion_parts) - 1},
           raises={pfh_exception.PfhException: {'ensures': lambda exc, trace:
           [e[2] for e in trace if e[0] == 'part-check:raised'] == [exc]},
                   HardErrorException: {'ensures': lambda exc, trace:
                   [e[2] for e in trace if e[0] == 'part-check:raised'] == [exc]},
                   ArbitraryException: {'ensures': lambda exc, trace:
                   [e[2] for e in trace if e[0] == 'part-check:raised'] == [exc]}},
           raises_only=())
M.loop(P_AP + ':SequenceOfCooperativeAssertionParts.check', 0,
       invariant=lambda _i, ghost: (not ghost['stopped']) and ghost['last_part'] == _i - 1,
       modifies={'assertion_part': 'local', 'value_to_check': Any_, 'ghost:last_part': Int})


# ----- main of `file` / `dir`: exactly one file is made -- by the file maker given, at the path given, both as resolved
# with the symbols and directories of the environment; its message (a HardErrorException of the making included:
# C15 `make__translate_hard_error`) is the result; nothing escapes but what the opaque parts raise

for _q, _cls, _path_attr, _fields in (
        ('multi_phase.new_file:_TheInstructionEmbryo', new_file._TheInstructionEmbryo, '_path_to_create',
         dict(_validator=Any_)),
        ('multi_phase.new_dir:TheInstructionEmbryo', new_dir.TheInstructionEmbryo, '_dir_path_sdv',
         dict(_references=Any_))):
    M.contract(P_I + _q + '.main',
               params=dict(self=Inst(_cls, _file_maker=Iface(SdvOfDdvWithValidatorI),
                                     **dict(_fields, **{_path_attr: Iface(PathSdvI)})),
                           environment=Iface(PostSdsInstructionEnvI), settings=Any_, os_services=Any_),
               ghosts=dict(path_attr=Const(_path_attr)), returns=Opt(Any_),
               ensures={
                   'one file is made: by the file maker, at the path -- both as resolved with the symbols and '
                   'directories of the environment': lambda self, environment, path_attr, trace:
                   resolutions(trace) == [('resolve-path', getattr(self, path_attr), (environment.symbols,)),
                                          ('resolve-arg', self._file_maker, (environment.symbols,))]
                   and [(e[1], e[2]) for e in trace if e[0] == 'make-file']
                   == [(outcome_event(trace, 'to-primitive')[1], (outcome_event(trace, 'path-value')[1],))]
                   and [e[2] for e in trace if e[0] in ('path-value', 'to-adv')] == [(environment.tcds,)] * 2,
                   'its message, if any, is the result; no validation, no other effect': lambda result, trace:
                   result is outcome_event(trace, 'make-file')[1] and steps(trace) == [] and quiet(trace),
               },
               raises={ArbitraryException: {'ensures': lambda exc, trace:
               [e[2] for e in trace if e[0].endswith(':raised')] == [exc]}},
               raises_only=())


# ----- symbol usages: an instruction reports the references of ALL its arguments (a reference that is not reported is
# not checked by validate_symbol_usages: an undefined or wrongly typed symbol would show only during execution)

def _refs(*sdvs):
    out = []
    for s in sdvs:
        out += list(s.references)
    return out


M.contract(P_I + 'multi_phase.new_file:_TheInstructionEmbryo.symbol_usages',
           params=dict(self=Inst(new_file._TheInstructionEmbryo, _path_to_create=Iface(PathSdvI),
                                 _file_maker=Iface(SdvOfDdvWithValidatorI), _validator=Any_)),
           ensures={'the references of the path and of the contents -- all of them; runs nothing': lambda self, result, trace:
           list(result) == _refs(self._path_to_create, self._file_maker) and trace == []}, inline=True, raises_only=())

M.contract(P_I + 'multi_phase.copy:_CopySourceWithExplicitDestinationInstruction.symbol_usages',
           params=dict(self=Inst(copy_instr._CopySourceWithExplicitDestinationInstruction,
                                 source_path=Iface(CheckedPathSdvI), destination_path=Iface(PathSdvI), _validator=Any_)),
           ensures={'the references of the source and of the destination -- all of them; runs nothing':
                    lambda self, result, trace:
                    list(result) == _refs(self.source_path, self.destination_path) and trace == []}, inline=True, raises_only=())

M.contract(P_I + 'multi_phase.copy:_CopySourceWithoutExplicitDestinationInstruction.symbol_usages',
           params=dict(self=Inst(copy_instr._CopySourceWithoutExplicitDestinationInstruction,
                                 source_path=Iface(CheckedPathSdvI), _validator=Any_)),
           ensures={'the references of the source; runs nothing': lambda self, result, trace:
           list(result) == _refs(self.source_path) and trace == []}, inline=True, raises_only=())

for _q, _shape, _attr in (
        ('multi_phase.change_dir:InstructionEmbryo', Inst(change_dir.InstructionEmbryo, destination=Iface(PathSdvI)),
         'destination'),
        ('multi_phase.environ.impl:TheInstructionEmbryo',
         Inst(env_impl.TheInstructionEmbryo, _phases=Any_, _modifier=Iface(SdvOfDdvWithValidatorMethodI)), '_modifier'),
        ('multi_phase.utils.instruction_from_parts_for_executing_program:TheInstructionEmbryo',
         Inst(_exe_program.TheInstructionEmbryo, _program=Iface(SdvOfDdvWithValidatorI)), '_program')):
    M.contract(P_I + _q + '.symbol_usages', params=dict(self=_shape), ghosts=dict(attr=Const(_attr)),
               ensures={'the references of its argument; runs nothing': lambda self, attr, result, trace:
               list(result) == _refs(getattr(self, attr)) and trace == []}, inline=True, raises_only=())


# ====================================================================================== 2b: further instruction parts
# `dir-contents` (its files-matcher assertion part) and `stdout / stderr -from PROGRAM` (the constructor of the actual
# file): same claims as section 2.
from exactly_lib.impls.instructions.assert_.contents_of_dir import impl_utils as dir_contents_impl
from exactly_lib.impls.instructions.assert_.process_output.impl import out_err_file
from exactly_lib.util.process_execution.process_output_files import ProcOutputFile


def _message_of(trace):
    returned = [e for e in trace if e[0] == 'validate-pre:returned']
    return returned[-1][2] if returned else None


# ----- dir-contents PATH : FILES-MATCHER  -- the part that holds the arguments that can be invalid

def harness_dir_contents_part_validate_pre_sds(model_constructor, files_matcher, environment):
    """contents_of_dir.impl_utils.FilesMatcherAsDirContentsAssertionPart (what the parser of `dir-contents` makes of the
    parsed model options and FILES-MATCHER): its validator, asked before the sandbox exists"""
    part = dir_contents_impl.FilesMatcherAsDirContentsAssertionPart(model_constructor, files_matcher)
    return part.validator.validate_pre_sds_if_applicable(environment)


M.contract(HARNESS + 'harness_dir_contents_part_validate_pre_sds',
           params=dict(model_constructor=Iface(SdvOfDdvWithValidatorI), files_matcher=Iface(SdvOfDdvWithValidatorI),
                       environment=Iface(PathEnvI)), returns=Opt(Any_),
           ensures={
               'the model options (recursion limits: integers) and then -- iff they have nothing to say -- the FILES '
               'MATCHER are validated: both as resolved with the symbols of the environment, on its home directories':
                   lambda model_constructor, files_matcher, environment, trace:
                   resolutions(trace) == [('resolve-arg', model_constructor, (environment.symbols,)),
                                          ('resolve-arg', files_matcher, (environment.symbols,))]
                   and validated(trace) == [(resolved_arg(trace, model_constructor).validator, (environment.hds,))]
                   + ([] if [e for e in trace if e[0] == 'validate-pre:returned'][0][2] is not None else
                      [(resolved_arg(trace, files_matcher).validator, (environment.hds,))]),
               'the first error is the result': lambda result, trace: result is _message_of(trace),
               'nothing else: no check, no effect': lambda trace: quiet(trace) and no_post_sds_validation(trace),
           },
           raises={ArbitraryException: {}}, raises_only=())


# ----- stdout / stderr -from PROGRAM: the file to check is the output of a program

def harness_output_of_program_validate_pre_sds(checked_output, program, environment):
    """out_err_file._ComparisonActualFileConstructorForProgram (what Parser._parse_program makes of the parsed
    PROGRAM): its validator, asked before the sandbox exists"""
    constructor = out_err_file._ComparisonActualFileConstructorForProgram(checked_output, program)
    return constructor.validator.validate_pre_sds_if_applicable(environment)


M.contract(HARNESS + 'harness_output_of_program_validate_pre_sds',
           params=dict(checked_output=EnumOf(ProcOutputFile), program=Iface(SdvOfDdvWithValidatorI),
                       environment=Iface(PathEnvI)), returns=Opt(Any_),
           ensures={
               'the PROGRAM is validated: as resolved with the symbols of the environment, on its home directories':
                   lambda program, environment, trace:
                   resolutions(trace) == [('resolve-arg', program, (environment.symbols,))]
                   and validated(trace) == [(resolved_arg(trace, program).validator, (environment.hds,))],
               'its error is the result': lambda result, trace: result is _message_of(trace),
               'nothing else: the program is not started, no effect': lambda trace:
               quiet(trace) and no_post_sds_validation(trace),
           },
           raises={ArbitraryException: {}}, raises_only=())


class ProgramTokenParserI(Interface):
    methods = {'parse_from_token_parser': Method(returns=Iface(SdvOfDdvWithValidatorI),
                                                 may_raise=(_mk_arbitrary,), event='parse-arg')}


M.contract('exactly_lib.impls.instructions.assert_.process_output.impl.out_err_file:Parser._parse_program',
           params=dict(self=Inst(out_err_file.Parser, _checked_file=EnumOf(ProcOutputFile), _checked_file_name=Str,
                                 _default=Any_, _PROGRAM_PARSER=Iface(ProgramTokenParserI)), parser=Any_),
           ensures={'the constructor for the output -- of the channel the instruction is about -- of the program that '
                    'was parsed': lambda self, result, trace:
           type(result) is out_err_file._ComparisonActualFileConstructorForProgram
           and result._program is outcome_event(trace, 'parse-arg')[1]
           and result._checked_output is self._checked_file and steps(trace) == [] and quiet(trace)},
           raises={ArbitraryException: {}}, raises_only=())


# ----- exists: main -- looks at the path (stat), applies the file matcher; a HardErrorException is a HARD_ERROR result
from exactly_lib.util.logic_types import ExpectationType


class FileMatcherPrimitiveI(Interface):
    methods = {'matches_w_trace': Method(returns=Iface(MatchingResultI), may_raise=c01.RAISES, event='matcher-apply'),
               'structure': Method(returns=Any_)}


class FileMatcherAdvI(Interface):
    methods = {'primitive': Method(returns=Iface(FileMatcherPrimitiveI), may_raise=c01.RAISES, event='to-primitive')}


class FileMatcherDdvI(Interface):
    attrs = {'validator': Iface(ValidatorI)}
    methods = {'value_of_any_dependency': Method(returns=Iface(FileMatcherAdvI), may_raise=c01.RAISES, event='to-adv'),
               'structure': Method(returns=Any_)}


class FileMatcherSdvI(Interface):
    attrs = {'references': FixedList(Any_)}
    methods = {'resolve': Method(returns=Iface(FileMatcherDdvI), may_raise=(_mk_arbitrary,), event='resolve-arg')}


class PathDdvOfExistsI(Interface):
    methods = {'value_of_any_dependency__d': Method(returns=Iface(DescribedPathI), may_raise=(_mk_arbitrary,),
                                                    event='path-value')}


class PathSdvOfExistsI(Interface):
    attrs = {'references': FixedList(Any_)}
    methods = {'resolve': Method(returns=Iface(PathDdvOfExistsI), may_raise=(_mk_arbitrary,), event='resolve-path')}


M.contract(P_I + 'assert_.existence_of_file:_Instruction.main',
           params=dict(self=Inst(existence_of_file._Instruction, _expectation_type=EnumOf(ExpectationType),
                                 _path_sdv=Iface(PathSdvOfExistsI), _file_matcher=Opt(Iface(FileMatcherSdvI)),
                                 _symbol_usages=Any_),
                       environment=Iface(PostSdsInstructionEnvI), settings=Any_, os_services=Any_), returns=PFH,
           ensures={
               'looks at the path as resolved with the symbols and directories of the environment -- exactly once; '
               'changes nothing': lambda self, environment, trace:
               resolutions(trace)[0] == ('resolve-path', self._path_sdv, (environment.symbols,))
               and [e[2] for e in trace if e[0] == 'path-value'] == [(environment.tcds,)]
               and stats(trace) == [outcome_event(trace, 'path-value')[1].primitive]
               and no_effect([e for e in trace if e[0] != 'matcher-apply'])
               and [x for x in steps(trace) if x[0] in VALIDATION_EVENTS] == [],
               'the file matcher is applied iff there is one and the path exists': lambda self, trace:
               len([e for e in trace if e[0] == 'matcher-apply'])
               == (0 if self._file_matcher is None or [e for e in trace if e[0] == 'stat:raised']
                   or [e for e in trace if e[0] in ('to-adv:raised', 'to-primitive:raised')] else 1),
               'with file matcher: a missing path PASSes iff negated; an existing one iff the matcher matches (does not '
               'match, when negated); a HardErrorException is HARD_ERROR with its message': lambda self, result, trace:
               self._file_matcher is None
               or ((result.status is PFH_ENUM.HARD_ERROR
                    and result.failure_message is [e[2] for e in trace if e[0].endswith(':raised')
                                                   and e[0] != 'stat:raised'][0].error)
                   if [e for e in trace if e[0].endswith(':raised') and e[0] != 'stat:raised'] else
                   ((result.status is PFH_ENUM.PASS) == (self._expectation_type is ExpectationType.NEGATIVE))
                   if [e for e in trace if e[0] == 'stat:raised'] else
                   ((result.status is PFH_ENUM.PASS)
                    == (outcome_event(trace, 'matcher-apply')[1].value
                        == (self._expectation_type is ExpectationType.POSITIVE)))),
               'without file matcher: PASS iff the path exists (does not exist, when negated)': lambda self, result, trace:
               self._file_matcher is not None
               or (result.status is PFH_ENUM.PASS)
               == ((not [e for e in trace if e[0] == 'stat:raised'])
                   == (self._expectation_type is ExpectationType.POSITIVE)),
           },
           raises={ArbitraryException: {}}, raises_only=())      # HardErrorException => HARD_ERROR result


# ----- the embryo parsers of cd and timeout (what is parsed is what the embryo holds; a token error is a syntax error)
from exactly_lib.impls.instructions.multi_phase.timeout import parse as _timeout_parse
from exactly_lib.section_document.element_parsers.token_stream import TokenSyntaxError as _TokenSyntaxError


def _mk_token_syntax_error(interp, o):
    return _TokenSyntaxError('token syntax error')


class TimeoutTokensI(Interface):
    methods = {'consume_mandatory_keyword': Method(may_raise=(_mk_token_syntax_error, _mk_arbitrary), event='keyword'),
               'has_valid_head_matching__consume': Method(returns=Bool, may_raise=(_mk_token_syntax_error,),
                                                          event='none-token?'),
               'report_superfluous_arguments_if_not_at_eol': Method(may_raise=(_mk_token_syntax_error, _mk_arbitrary),
                                                                    event='at-eol')}


class IntegerTokenParserI(Interface):
    methods = {'parse': Method(returns=Iface(SdvOfDdvWithValidatorMethodI),
                               may_raise=(_mk_token_syntax_error, _mk_arbitrary), event='parse-arg')}


M.contract(P_I + 'multi_phase.change_dir:EmbryoParser._parse_from_tokens',
           params=dict(self=Inst(change_dir.EmbryoParser, is_after_act_phase=Bool, _path_parser=Iface(TokenPathParserI)),
                       token_parser=Iface(TokensI)),
           ensures={'the embryo of the path that was parsed; superfluous arguments are reported; nothing is run':
                    lambda result, trace:
                    type(result) is change_dir.InstructionEmbryo
                    and result.destination is outcome_event(trace, 'parse-path')[1]
                    and len([e for e in trace if e[0] == 'at-eol']) == 1 and steps(trace) == [] and quiet(trace)},
           raises={ArbitraryException: {}}, raises_only=())

M.contract(P_I + 'multi_phase.timeout.parse:EmbryoParser._parse_from_tokens',
           params=dict(self=Inst(_timeout_parse.EmbryoParser, _int_parser=Iface(IntegerTokenParserI),
                                 _none_token_matcher=Any_), token_parser=Iface(TimeoutTokensI)),
           ensures={'the embryo of `none` or of the INTEGER that was parsed; superfluous arguments are reported; '
                    'nothing is run': lambda result, trace:
                    type(result) is timeout_impl.TheInstructionEmbryo
                    and (result._value is None and not [e for e in trace if e[0] == 'parse-arg']
                         if outcome_event(trace, 'none-token?')[1] else
                         result._value is outcome_event(trace, 'parse-arg')[1])
                    and len([e for e in trace if e[0] == 'at-eol']) == 1 and steps(trace) == [] and quiet(trace)},
           raises={_InvalidArgument: {'ensures': lambda trace:      # bad quoting => a syntax error of the instruction
                   isinstance([e[2] for e in trace if e[0].endswith(':raised')][0], _TokenSyntaxError)},
                   ArbitraryException: {}},
           raises_only=())


# ====================================================================================== 4: the default instruction set
# The instruction set that `exactly` runs with (cli_default ... default_instructions_setup.INSTRUCTIONS_SETUP, read
# from the real module): every instruction of [setup], [before-assert], [assert], [cleanup] is wired through the
# adapters of section 1 to the embryo / instruction classes of section 2 -- the per-phase wrapper modules
# (setup/new_file.py, ...) only pick a parts parser.  One obligation per (phase, instruction name).

@M.check('default-instruction-set')
def _default_instruction_set(ctx):
    from exactly_lib.cli_default.program_modes.test_case import default_instructions_setup
    from exactly_lib.impls.instructions.multi_phase.timeout import parse as timeout_parse
    from exactly_lib.impls.instructions.multi_phase.environ import parse as env_parse
    from exactly_lib.impls.instructions.multi_phase import run as run_module
    from exactly_lib.impls.instructions.assert_.process_output import exit_code as exit_code_parser
    from exactly_lib.impls.instructions.assert_.contents_of_dir import parser as dir_contents_parser
    s = default_instructions_setup.INSTRUCTIONS_SETUP
    # embryo parsers whose embryo is under contract in section 2 (harness / parser contract)
    embryo_parsers = {
        'file': new_file.EmbryoParser, 'dir': new_dir.EmbryoParser, 'copy': copy_instr.EmbryoParser,
        'cd': change_dir.EmbryoParser, 'def': _def_parser.EmbryoParser, 'timeout': timeout_parse.EmbryoParser,
        'env': env_parse.EmbryoParser, '%': _exe_program.InstructionEmbryoParser,
        '$': _exe_program.InstructionEmbryoParser,
    }
    # instructions with a parser of their own (the instruction class / parser of section 2)
    own_parsers = {
        'stdin': stdin_instr.Parser, 'exists': existence_of_file.Parser, 'exit-code': exit_code_parser.Parser,
        'stdout': _fc_parse_instruction.Parser, 'stderr': _fc_parse_instruction.Parser,
        'contents': _fc_parse_instruction.Parser,
        'dir-contents': dir_contents_parser.Parser,      # (only its files-matcher part is under contract: 2b)
    }
    phases = (('setup', s.setup_instruction_set, setup_fp.Parser),
              ('before-assert', s.before_assert_instruction_set, before_assert_fp.Parser),
              ('assert', s.assert_instruction_set, assert_fp.Parser),
              ('cleanup', s.cleanup_instruction_set, cleanup_fp.Parser))
    n = 0
    for phase, instructions, from_parts_parser in phases:
        for name, setup in instructions.items():
            n += 1
            parser = setup._parser
            how = type(parser).__module__ + '.' + type(parser).__name__
            if name in own_parsers:
                ok = type(parser) is own_parsers[name]
            elif name == 'run':
                # run: the phase's adapter over multi_phase/run.py's own parts parser (embryo class: `%` / `$`'s; C10)
                ok = type(parser) is from_parts_parser \
                    and type(parser.instruction_parts_parser) is run_module._InstructionPartsParser \
                    and type(parser.instruction_parts_parser._embryo_parser) is _exe_program.InstructionEmbryoParser
            else:
                parts_parser = getattr(parser, 'instruction_parts_parser', None)
                ok = name in embryo_parsers and type(parser) is from_parts_parser \
                    and type(parts_parser) is ipu.PartsParserFromEmbryoParser \
                    and type(parts_parser.embryo_parser) is embryo_parsers[name]
                how += ' <- ' + type(parts_parser).__name__ + ' <- ' + \
                    type(getattr(parts_parser, 'embryo_parser', None)).__name__
            ctx.obligation('[%s] %s: built through the adapters and classes under contract' % (phase, name), ok,
                           backend='enumeration', detail={'parser': how})
    ctx.obligation('the instruction set was found (47 instructions in the four phases)', n == 47,
                   backend='enumeration', detail={'instructions': n})


# ====================================================================================== 5: main of copy; run's parts parser
# (C18 view: what escapes from main; the places a copy may write to are C12's subject)
from exactly_lib.impls.exception import hard_error_transl as _hard_error_transl
from exactly_lib.impls.instructions.multi_phase import run as _run_module


class ProcedureI(Interface):
    methods = {'__call__': Method(returns=Any_, may_raise=c01.RAISES, event='procedure')}


M.contract('exactly_lib.impls.exception.hard_error_transl:return_success_or_hard_error',
           params=dict(procedure=Iface(ProcedureI), args=FixedList(Any_, as_tuple=True), kwargs=Const({})),
           returns=SH, inline=True,
           ensures={'the procedure is called once': lambda procedure, trace:
           [(e[0], e[1]) for e in trace if e[0] == 'procedure'] == [('procedure', procedure)],
                    'success iff it returns; a HardErrorException is a HARD_ERROR with its message': lambda result, trace:
                    (sh_kind(result) is None) if outcome_event(trace, 'procedure')[0] == 'returned' else
                    (sh_kind(result) == 'HARD_ERROR' and result.failure_message is outcome_event(trace, 'procedure')[1].error)},
           raises={ArbitraryException: {'ensures': lambda exc, trace: outcome_event(trace, 'procedure') == ('raised', exc)}},
           raises_only=())


class OsServicesOfCopyI(Interface):
    """OsServices: its operations fail with HardErrorException (documented) -- or anything else"""
    methods = {'copy_tree__preserve_as_much_as_possible': Method(may_raise=c01.RAISES, event='copy-tree'),
               'copy_file__preserve_as_much_as_possible': Method(may_raise=c01.RAISES, event='copy-file'),
               'make_dir_if_not_exists': Method(may_raise=c01.RAISES, event='make-dir')}


GPATH = Custom(lambda interp, name: _fsmodel.mk_path(interp, Str.make(interp, name)))


def copies(trace):
    return [(e[0], e[2]) for e in trace if e[0] in ('copy-tree', 'copy-file')]


M.contract(P_I + 'multi_phase.copy:_install_into_directory',
           params=dict(os_services=Iface(OsServicesOfCopyI), src_file_path=GPATH, dst_file_name=Str,
                       dst_container_path=GPATH),
           ensures={'exactly one copy: of the source, to the name given in the container given':
                    lambda src_file_path, dst_file_name, dst_container_path, trace:
                    len(copies(trace)) == 1
                    and copies(trace)[0][1] == (str(src_file_path), str(dst_container_path / dst_file_name))},
           raises={HardErrorException: {'ensures': lambda trace:
           # the target exists already (nothing is copied then), or the copying failed
           len(copies(trace)) <= 1},
                   ArbitraryException: {}},
           raises_only=())

class EmbryoParserOfRunI(Interface):
    methods = {'parse': Method(returns=Iface(EmbryoI), may_raise=(_mk_arbitrary,), event='parse-embryo')}


class OptionIsPresentParserI(Interface):
    methods = {'parse': Method(returns=Bool, may_raise=(_mk_arbitrary,), event='parse-option')}


M.contract(P_I + 'multi_phase.run:_InstructionPartsParser.parse',
           params=dict(self=Inst(_run_module._InstructionPartsParser, _embryo_parser=Iface(EmbryoParserOfRunI),
                                 _IGNORE_EXIT_CODE_OPTION_PARSER=Iface(OptionIsPresentParserI)),
                       fs_location_info=Any_, source=Any_),
           returns=Inst(iparts.InstructionParts, _tuple=[Any_, Any_, Any_]),
           ensures={
               'the parts of the embryo that the embryo parser made of the source: its validator, its main':
                   lambda result, trace:
                   result.validator is outcome_event(trace, 'parse-embryo')[1].validator
                   and result.executor.main_step is outcome_event(trace, 'parse-embryo')[1],
               'the exit code is ignored iff the option is given': lambda result, trace:
               isinstance(result.executor.result_translator, ipu.MainStepResultTranslatorForUnconditionalSuccess)
               == outcome_event(trace, 'parse-option')[1],
               'nothing is validated or run': lambda trace: steps(trace) == [] and quiet(trace),
           },
           raises={ArbitraryException: {}}, raises_only=())
