"""Spec functions for texts and their division into lines (shared by C14 and C05).

The reference manual: "lines are separated by new-line" -- a text is divided into lines only after
'\\n'.  `split_nl` is the independent executable definition; `is_split_nl(xs, t)` is its
characterisation used in proofs (no piece is empty, no piece contains a '\\n' except as its last
character, every piece but possibly the last ends in '\\n', the pieces concatenate to t).
The characterisation determines the list uniquely; that fact and a few other consequences that need
induction are the *trusted lemmas* of `split_nl_lemmas`, checked exhaustively against `split_nl` for
all small arguments on every run (C14 check `lemmas`)."""
from contracts.common import implies, iff, forall_range, exists_range, prefix_join, join_of

NL = '\n'


def split_nl(t):
    """the lines of text t: split after every '\\n' and nowhere else"""
    out = []
    cur = ''
    for ch in t:
        cur += ch
        if ch == NL:
            out.append(cur)
            cur = ''
    if cur != '':
        out.append(cur)
    return out


def is_line(x):
    """a non-empty string with no '\\n' except possibly as its last character"""
    return x != '' and NL not in x[:len(x) - 1]


def line_body(x):
    """a line without its final new-line (if it has one)"""
    return x[:len(x) - 1] if x.endswith(NL) else x


def line_body_over_concat():
    """proof hint (True): instantiate `line_body(a + b) == a + line_body(b)` (b ending in new-line) at the
    concatenations the code makes -- a consequence of the definition of line_body"""
    return True


def line_body_over_concat_off():
    """proof hint (True): stop instantiating the law of line_body_over_concat() (where it is not needed)"""
    return True


def is_split_nl(xs, t):
    n = len(xs)
    return forall_range(0, n, lambda j: is_line(xs[j])) \
        and forall_range(0, n - 1, lambda j: xs[j].endswith(NL)) \
        and prefix_join(xs, n) == t


# --- the canonical division: number of lines and j-th line as functions of the text alone

def nlines(t):
    return len(split_nl(t))


def line_at(t, j):
    return split_nl(t)[j]


def split_nl_lemmas(xs, t):
    """Consequences of is_split_nl(xs, t) that need induction over the list (trusted; bounded-checked):
    uniqueness (xs is the canonical division of t), emptiness, prefixes."""
    n = len(xs)
    return implies(is_split_nl(xs, t),
                   n == nlines(t)
                   and forall_range(0, n, lambda j: xs[j] == line_at(t, j))
                   and iff(n == 0, t == '')
                   and forall_range(0, n + 1, lambda i: t.startswith(prefix_join(xs, i))
                                                        and len(prefix_join(xs, i)) >= i))


def nlines_by_count(t):
    """the documented number of lines, by counting new-lines"""
    return t.count(NL) + (0 if t == '' or t.endswith(NL) else 1)


def lines_of(t):
    """split_nl(t) as a spec-level list (in proofs: the canonical list nlines / line_at of t)"""
    return split_nl(t)


def register_models(M):
    """proof-level definitions of the spec functions above (pyvc.texts)"""
    from pyvc import texts
    M.model(is_line, texts.m_is_line)
    M.model(line_body, texts.m_line_body)
    M.model(line_body_over_concat, texts.m_line_body_over_concat)
    M.model(line_body_over_concat_off, texts.m_line_body_over_concat_off)
    M.model(nlines, texts.m_nlines)
    M.model(line_at, texts.m_line_at)
    M.model(lines_of, texts.m_lines_of)
