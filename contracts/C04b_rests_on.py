"""C04 ("result/ holds exit-code, stdout and stderr of the action to check") rests on the actors giving the process
the files of the ATC as its std streams: proved for C10 / C19 in contracts/C19_timeouts.py (`Executor.execute`,
`_ExecutorWith(out)Transformation.execute` of the program actor; the interpreter actors).  Those contracts carry C04
too.  (Seeded change C04-s7: with a stdout transformation the stderr file argument was lost -- the action's stderr went
to Exactly's own stderr and result/stderr stayed empty.)"""
from pyvc.api import Module

M = Module('C04')


def _share():
    from contracts.common import share_contracts
    names = share_contracts('C04', 'contracts.C19_timeouts', lambda q: q.startswith('exactly_lib.impls.actors.'))
    assert len(names) >= 5, names


M.after_load = _share
