"""C07 -- test-case file structure: phases, merging, inclusion, source locations.  See DESIGN.md section 3 / C07."""
from pyvc.api import (Module, Interface, Method, Iface, Inst, Int, Nat, Pos, Bool, Str, Opt, OneOf, Const, Union,
                      ListOf, FixedList, Any_, EnumOf, Custom, new_opaque, assume_pred)
from contracts.common import implies, iff, forall_range, exists_range

from exactly_lib.section_document.parse_source import ParseSource

from pyvc.api import InPlaceBy, Dependent

M = Module('C07')
M.string_alignment = True


def frame(**objects):
    """modifies={...}: `frame(self=dict(_a=Int), **{'self._b': FIELDS})` lists the fields of each object that a
    call may change, as the flat entries 'self._a', 'self._b.<field>' of the engine"""
    out = {}
    for base, fields in objects.items():
        if isinstance(fields, dict):
            for attr, ty in fields.items():
                out['%s.%s' % (base, attr)] = ty
        else:
            out[base] = fields
    return out


def HavocBy(fn):
    """the whole object becomes arbitrary in its own way: fn(interp, obj)"""
    return InPlaceBy(lambda interp, obj, tag: fn(interp, obj), whole=True)


DECLARED = InPlaceBy(lambda interp, obj, tag: None, whole=True)    # (part of an object that is havocked by its owner's entry)

# ghost monitor variables written by the models of the opaque parsers (what the parser returned, where it
# started, which parser it was): part of the frame of every function that lets a parser run
PARSED_GHOSTS = {'ghost:parsed-element': Any_, 'ghost:parsed-from': Int, 'ghost:parsed-by': Any_}
INSTRUCTION_GHOST = {'ghost:parsed-instruction': Any_}

P_PS = 'exactly_lib.section_document.parse_source'

# ============================================================================== ParseSource
# Ghost view of a ParseSource: (orig, off) -- the text it was created from and the number of characters
# consumed so far.  `orig` is a ghost parameter of every contract; `off` is a function of the fields:

NL = '\n'


def ls_of(self, orig):
    """offset in orig of the first character of the current line (|orig| when there is no current line)"""
    return len(orig) - len(self.source_string)


def off_of(self, orig):
    """number of characters of orig consumed so far"""
    return len(orig) - len(self.source_string) + self._column_index


def has_line(self):
    return self._current_line_number is not None


def line_fields_coherent(self):
    """(conjuncts of RI) the text of the current line is there exactly when its number is, the column is
    inside it, and it does not contain a newline"""
    if self._current_line_number is None:
        return self._current_line_text is None
    return self._current_line_text is not None \
        and 0 <= self._column_index and self._column_index <= len(self._current_line_text) \
        and NL not in self._current_line_text


P_DP = 'exactly_lib.section_document.impl.document_parser'


ALSO_ABSTRACT = ('exactly_lib.section_document.element_parsers.optional_description_and_instruction_parser:'
                 'InstructionWithOptionalDescriptionParser.parse',
                 # (D7) only calls ParseSource methods and the line-syntax predicates: verified through their contracts
                 'exactly_lib.section_document.element_parsers.optional_description_and_instruction_parser:'
                 'InstructionWithOptionalDescriptionParser._consume_space_and_comment_lines',
                 # (D7) reads the source through two observers (used through their contracts there) and lets the
                 # opaque instruction parser run
                 'exactly_lib.section_document.element_parsers.section_element_parsers:parse_and_compute_source',
                 # (D7, contracts/C07c_parsers.py) reads lines through the observers and consume_current_line
                 'exactly_lib.processing.parse.act_phase_source_parser:ActPhaseParser.parse',
                 'exactly_lib.processing.parse.file_inclusion_directive_parser:FileInclusionDirectiveParser.parse',)


def at_document_level(interp):
    """the function under verification belongs to the document parser (impl/document_parser.py) -- or is
    another function that only passes ParseSources on to functions under contract"""
    return interp.fn_name.startswith(P_DP + ':') or interp.fn_name in ALSO_ABSTRACT


def element_level_only(f):
    """Abstraction barrier between the two levels of the proof.  The representation invariant of ParseSource
    and the spec functions over the original text are DEFINED (interpreted) while ParseSource and the element
    parsers are verified; while the document parser is verified they are uninterpreted functions of the
    state of the source (its four fields) and the original text.  The document parser does not look into
    the text: all it uses of a ParseSource are the contracts of its methods, which are proved at the level
    where the definitions are visible.  (Natively they are always the definitions.)"""
    try:
        import z3       # (replays import this module under the repository's interpreter, without z3)
    except ImportError:
        z3 = None
    from pyvc.values import SOpt, SInt, SStr, to_z3, wrap
    import inspect
    ret_str = f.__name__ in ('last_consumed_line',)

    def field_terms(v, sort):
        if isinstance(v, SOpt):
            return [v.is_none, to_z3(v.val)]
        if v is None:
            return [z3.BoolVal(True), z3.StringVal('') if sort == 'str' else z3.IntVal(0)]
        return [z3.BoolVal(False), to_z3(v)]

    def make(interp, args, kwargs):
        names = list(inspect.signature(f).parameters)
        ts = []
        for n, a in zip(names, args):
            if isinstance(a, ParseSource):
                ts += [to_z3(a._column_index), to_z3(a.source_string)]
                ts += field_terms(a._current_line_number, 'int') + field_terms(a._current_line_text, 'str')
            else:
                ts.append(to_z3(a))
        uf = z3.Function('spec.' + f.__name__, *([t.sort() for t in ts] + [z3.StringSort() if ret_str else z3.BoolSort()]))
        return wrap(uf(*ts))

    M.abstract(f, at_document_level, make)
    return f


@element_level_only
def RI(self, orig):
    """Representation invariant.  Either there is *no current line* (everything consumed), or
    source_string is the suffix of orig that starts at the current line, which really is a line of orig
    (it starts at offset 0 or just after a newline), _current_line_text is that line up to the next newline or
    the end, the column is inside it, and the line number is 1 + the number of newlines before it.

    (Written as a sequence of tests rather than one conjunction: each established fact then is a plain
    path fact for the rest, which keeps the string obligations small.)"""
    if self._current_line_number is None:
        return self._current_line_text is None and self.source_string == '' and self._column_index == 0
    if self._current_line_text is None:
        return False
    src = self.source_string
    text = self._current_line_text
    k = len(orig) - len(src)
    if k < 0:
        return False
    if orig[k:] != src:
        return False
    if self._column_index < 0 or self._column_index > len(text):
        return False
    if len(text) > len(src):
        return False
    if src[:len(text)] != text:
        return False
    if NL in text:
        return False
    rest = src[len(text):]
    if rest != '':
        if rest[:1] != NL:
            return False
    return (k == 0 or orig[k - 1:k] == NL) and self._current_line_number == 1 + orig[:k].count(NL)


@element_level_only
def last_consumed_line(orig, source):
    """the text of the line that ends just before the current position (a line start, or the end)"""
    before = orig[:off_of(source, orig) - 1] if has_line(source) else orig
    return before.rpartition(NL)[2]


@element_level_only
def _line_start_at(orig, k):
    """offset k of orig is the start of a line (a conjunct of RI, as a test: the character before becomes a
    piece of orig)"""
    if k != 0:
        if orig[k - 1:k] != NL:
            return False
    return True


NEVER_ASSUMED = lambda fn_name: False      # clauses proved of a function that no caller needs
NOT_IN_DOCUMENT_PARSER = lambda fn_name: not (fn_name.startswith(P_DP + ':') or fn_name in ALSO_ABSTRACT)   # `inline=`: see element_level_only


PARSE_SOURCE = Inst(ParseSource, _column_index=Int, source_string=Str,
                    _current_line_number=Opt(Int), _current_line_text=Opt(Str))

PS_FRAME = dict(_column_index=Int, source_string=Str, _current_line_number=Opt(Int), _current_line_text=Opt(Str))


def snap(self):
    return (self._column_index, self.source_string, self._current_line_number, self._current_line_text)


def unchanged(self, old):
    return self._column_index == old[0] and self.source_string == old[1] \
        and _same_opt(self._current_line_number, old[2]) and _same_opt(self._current_line_text, old[3])


def _same_opt(a, b):
    return (a is None and b is None) or (a is not None and b is not None and a == b)


M.contract(P_PS + ':ParseSource.__init__',
           params=dict(self=Inst(ParseSource), source_string=Str), inline=True,
           ensures={
               'establishes-RI': lambda self, source_string: RI(self, source_string),
               'nothing-consumed': lambda self, source_string:
               off_of(self, source_string) == 0 and has_line(self) and self._current_line_number == 1,
           }, raises_only=())

# ---- observers (inlined at call sites; each is proved to agree with the abstract view)

M.contract(P_PS + ':ParseSource.is_at_eof', params=dict(self=PARSE_SOURCE), ghosts=dict(orig=Str), inline=True,
           requires=lambda self, orig: RI(self, orig),
           ensures={'eof-iff-everything-consumed': lambda self, orig, result:
           iff(result, off_of(self, orig) == len(orig))},
           raises_only=())

M.contract(P_PS + ':ParseSource.has_current_line', params=dict(self=PARSE_SOURCE), inline=True,
           ensures={'def': lambda self, result: iff(result, has_line(self))}, raises_only=())

# (D7) parse_and_compute_source is verified at the document level (RI uninterpreted): there the two observers it
# reads are used through their contracts, everywhere else they are inlined as before
_P_PACS = 'exactly_lib.section_document.element_parsers.section_element_parsers:parse_and_compute_source'
NOT_IN_PARSE_AND_COMPUTE_SOURCE = lambda fn_name: fn_name != _P_PACS

M.contract(P_PS + ':ParseSource.remaining_source', params=dict(self=PARSE_SOURCE), ghosts=dict(orig=Str),
           inline=NOT_IN_PARSE_AND_COMPUTE_SOURCE, returns=Str,
           requires=lambda self, orig: RI(self, orig),
           ensures={'the-offset-is-inside-the-text': lambda self, orig:
                    0 <= off_of(self, orig) and off_of(self, orig) <= len(orig),
                    'is-the-unconsumed-suffix': lambda self, orig, result: result == orig[off_of(self, orig):]},
           raises_only=())

M.contract(P_PS + ':ParseSource.current_line_number', params=dict(self=PARSE_SOURCE), ghosts=dict(orig=Str),
           inline=NOT_IN_PARSE_AND_COMPUTE_SOURCE, returns=Int,
           requires=lambda self, orig: RI(self, orig) and has_line(self),
           ensures={
               'one-plus-newlines-before-the-current-position': lambda self, orig, result:
               result == 1 + orig[:off_of(self, orig)].count(NL),
           }, raises_only=())

M.contract(P_PS + ':ParseSource.current_line_text', params=dict(self=PARSE_SOURCE), ghosts=dict(orig=Str),
           inline=True,
           requires=lambda self, orig: RI(self, orig) and has_line(self),
           ensures={
               'is-the-line-of-orig-around-the-position': lambda self, orig, result:
               NL not in result
               and orig[ls_of(self, orig):ls_of(self, orig) + len(result)] == result
               and (ls_of(self, orig) == 0 or orig[ls_of(self, orig) - 1] == NL)
               and (ls_of(self, orig) + len(result) == len(orig) or orig[ls_of(self, orig) + len(result)] == NL)
               and ls_of(self, orig) <= off_of(self, orig) <= ls_of(self, orig) + len(result),
           }, raises_only=())

M.contract(P_PS + ':ParseSource.remaining_part_of_current_line', params=dict(self=PARSE_SOURCE),
           ghosts=dict(orig=Str), inline=True,
           requires=lambda self, orig: RI(self, orig) and has_line(self),
           ensures={
               'unconsumed-text-up-to-the-next-newline': lambda self, orig, result:
               NL not in result
               and orig[off_of(self, orig):off_of(self, orig) + len(result)] == result
               and (off_of(self, orig) + len(result) == len(orig) or orig[off_of(self, orig) + len(result)] == NL),
           }, raises_only=())

M.contract(P_PS + ':ParseSource.is_at_eol', params=dict(self=PARSE_SOURCE), ghosts=dict(orig=Str), inline=True,
           requires=lambda self, orig: RI(self, orig) and has_line(self),
           ensures={'eol-iff-next-is-newline-or-end': lambda self, orig, result:
           iff(result, off_of(self, orig) == len(orig) or orig[off_of(self, orig)] == NL)},
           raises_only=())

M.contract(P_PS + ':ParseSource.column_index', params=dict(self=PARSE_SOURCE), ghosts=dict(orig=Str), inline=True,
           requires=lambda self, orig: RI(self, orig) and has_line(self),
           ensures={'offset-within-line': lambda self, orig, result: result == off_of(self, orig) - ls_of(self, orig)},
           raises_only=())

M.contract(P_PS + ':ParseSource.current_line', params=dict(self=PARSE_SOURCE), ghosts=dict(orig=Str), inline=True,
           requires=lambda self, orig: RI(self, orig) and has_line(self),
           ensures={'number-and-text': lambda self, result:
           result.line_number == self._current_line_number and result.text == self._current_line_text},
           raises_only=())

# ---- mutators

M.contract(P_PS + ':ParseSource.consume', inline=True,
           params=dict(self=PARSE_SOURCE, number_of_characters=Nat), ghosts=dict(orig=Str),
           requires=lambda self, orig: RI(self, orig),
           old=lambda self, orig: (snap(self), off_of(self, orig)),
           modifies=frame(self=PS_FRAME),
           raises={ValueError: {
               'when': lambda self, orig, number_of_characters: number_of_characters > len(orig) - off_of(self, orig),
               'ensures': lambda self, old: unchanged(self, old[0])}},
           ensures={
               'RI': lambda self, orig: RI(self, orig),
               'advanced-by-n': lambda self, orig, number_of_characters, old:
               off_of(self, orig) == old[1] + number_of_characters,
               'keeps-having-a-current-line': lambda self, old: iff(has_line(self), old[0][2] is not None),
               'line-number-counts-newlines-of-orig': lambda self, orig:
               (not has_line(self)) or self._current_line_number == 1 + orig[:off_of(self, orig)].count(NL),
           }, raises_only=())

M.contract(P_PS + ':ParseSource.consume_current_line', inline=NOT_IN_DOCUMENT_PARSER,
           params=dict(self=PARSE_SOURCE), ghosts=dict(orig=Str),
           requires=lambda self, orig: RI(self, orig),
           old=lambda self, orig: (snap(self), off_of(self, orig), ls_of(self, orig)),
           modifies=frame(self=PS_FRAME),
           raises={ValueError: {
               'when': lambda self: not has_line(self),
               'ensures': lambda self, old: unchanged(self, old[0])}},
           ensures={
               'RI': lambda self, orig: RI(self, orig),
               'to-just-after-the-next-newline-or-no-current-line': (lambda self, orig, old:
               (has_line(self) and off_of(self, orig) == old[1] + orig[old[1]:].find(NL) + 1
                and self._column_index == 0 and self._current_line_number == old[0][2] + 1)
               if NL in orig[old[1]:] else
               ((not has_line(self)) and off_of(self, orig) == len(orig)), NOT_IN_DOCUMENT_PARSER),
               'next-line-number-or-no-current-line-at-the-end': lambda self, orig, old:
               (self._current_line_number == old[0][2] + 1) if has_line(self) else off_of(self, orig) == len(orig),
               'not-moved-back-and-at-a-line-start': lambda self, orig, old:
               off_of(self, orig) >= old[1] and ((not has_line(self)) or self._column_index == 0),
               # (D7: a fact of RI that the document level, where RI is uninterpreted, needs by itself)
               'a-current-line-has-a-text': lambda self: line_fields_coherent(self),
               'the-line-before-the-new-position-is-the-line-consumed': lambda self, orig, old:
               _line_start_at(orig, old[2]) and last_consumed_line(orig, self) == old[0][3],
           }, raises_only=())

M.contract(P_PS + ':ParseSource.consume_part_of_current_line', inline=True,
           params=dict(self=PARSE_SOURCE, num_characters=Nat), ghosts=dict(orig=Str),
           requires=lambda self, orig: RI(self, orig) and has_line(self),
           old=lambda self, orig: (snap(self), off_of(self, orig)),
           modifies=frame(self=dict(_column_index=Int)),
           raises={ValueError: {
               'when': lambda self, num_characters: self._column_index + num_characters > len(self._current_line_text),
               'ensures': lambda self, old: unchanged(self, old[0])}},
           ensures={
               'RI': lambda self, orig: RI(self, orig),
               'advanced-by-n-within-the-line': lambda self, orig, num_characters, old:
               off_of(self, orig) == old[1] + num_characters and has_line(self),
           }, raises_only=())

M.contract(P_PS + ':ParseSource.consume_initial_space_on_current_line',
           params=dict(self=PARSE_SOURCE), ghosts=dict(orig=Str),
           requires=lambda self, orig: RI(self, orig) and has_line(self),
           old=lambda self, orig: (snap(self), off_of(self, orig)),
           modifies=frame(self=dict(_column_index=Int)),
           ensures={
               'RI': lambda self, orig: RI(self, orig),
               'moves-forward-within-the-line': lambda self, orig, old:
               has_line(self) and old[0][0] <= self._column_index and self._column_index <= len(self._current_line_text),
               'stops-at-end-of-line-or-non-space': lambda self:
               self._column_index == len(self._current_line_text)
               or not self._current_line_text[self._column_index].isspace(),
               'skips-only-space': lambda self, old:
               all_space(self._current_line_text[old[0][0]:self._column_index]),
           }, raises_only=())
M.loop(P_PS + ':ParseSource.consume_initial_space_on_current_line', 0,
       invariant=lambda self, orig, old:
       unchanged_but_column(self, old[0])
       and old[0][0] <= self._column_index and self._column_index <= len(self._current_line_text)
       and all_space(self._current_line_text[old[0][0]:self._column_index]),
       modifies={'self._column_index': Int},
       decreases=lambda self: len(self._current_line_text) - self._column_index)


def all_space(s):
    """every character of s is white space (str.isspace); true of the empty string"""
    return s == '' or s.isspace()


def unchanged_but_column(self, old):
    return self.source_string == old[1] \
        and _same_opt(self._current_line_number, old[2]) and _same_opt(self._current_line_text, old[3])


M.contract(P_PS + ':ParseSource.is_at_eol__except_for_space', params=dict(self=PARSE_SOURCE), ghosts=dict(orig=Str),
           inline=True,
           requires=lambda self, orig: RI(self, orig) and has_line(self),
           ensures={'rest-of-line-empty-or-space': lambda self, result:
           iff(result, all_space(self._current_line_text[self._column_index:]))},
           raises_only=())

M.contract(P_PS + ':ParseSource.catch_up_with', inline=True,
           params=dict(self=PARSE_SOURCE, parse_source_that_is_ahead=PARSE_SOURCE), ghosts=dict(orig=Str),
           requires=lambda parse_source_that_is_ahead, orig: RI(parse_source_that_is_ahead, orig),
           modifies=frame(self=PS_FRAME),
           ensures={
               'same-state-as-the-other': lambda self, parse_source_that_is_ahead:
               unchanged(self, snap(parse_source_that_is_ahead)),
               'RI': lambda self, orig: RI(self, orig),
           }, raises_only=())

M.contract(P_PS + ':ParseSource.copy', params=dict(self=PARSE_SOURCE), ghosts=dict(orig=Str), inline=True,
           requires=lambda self, orig: RI(self, orig),
           ensures={
               'independent-object-in-the-same-state': lambda self, result:
               result is not self and unchanged(result, snap(self)),
               'RI': lambda result, orig: RI(result, orig),
           }, raises_only=())

# ============================================================================== element parsers
from pyvc.api import MListOf
from pyvc.interp import PyRaise, ArbitraryException
from pyvc.path import PathAbort
from exactly_lib.section_document import model, syntax
from exactly_lib.section_document.element_parsers import section_element_parsers as sep
from exactly_lib.section_document.section_element_parsing import (
    SectionElementParser, SectionElementError, UnrecognizedSectionElementSourceError,
    RecognizedSectionElementSourceError)
from exactly_lib.section_document.source_location import FileSystemLocationInfo, FileLocationInfo
from exactly_lib.util import line_source

P_SEP = 'exactly_lib.section_document.element_parsers.section_element_parsers'

M.assume('Opaque parsers (instruction parsers, section element parsers of the phases) change the ParseSource they '
         'are given only through its public methods, and only forwards.  Modelled operationally: the effect of a '
         'parser on the source is that of source.consume(n) for an arbitrary n >= 0 that does not exceed what is '
         'left, optionally followed by source.consume_current_line() -- the real code of both is executed.  By the '
         'class contract (every mutator keeps the representation invariant and moves forward) and the lemma '
         '`state is a function of the offset` (proved below) every state that any sequence of public mutator calls '
         'can reach is reached this way.  Otherwise parsers may return anything of their result type or raise '
         'any exception.')


def line_number_at(orig, off):
    """the number of the line of orig that contains offset off (1 + the newlines before it)"""
    return 1 + orig[:off].count(NL)


def without_final_newline(s):
    return s[:len(s) - 1] if s.endswith(NL) else s


LINE_SEQUENCE = Inst(line_source.LineSequence, _first_line_number=Int, _lines=MListOf(Str))


def _forward_abstractly(source, orig, old_off, had_line):
    return RI(source, orig) and off_of(source, orig) >= old_off and (had_line or not has_line(source))


def havoc_source_forward(interp, source):
    """environment step on a ParseSource (see the assumption above): consume(n), then possibly
    consume_current_line(), executed from the real source text of ParseSource.  At the document level
    (element_level_only) the step is taken abstractly: arbitrary new fields for which what the class contract
    guarantees of every such step holds (RI, not moved backwards, no current line once there was none)."""
    st = interp.st
    if at_document_level(interp):
        orig = interp.reg.ghost_env['orig']
        old_off = interp.call(off_of, [source, orig], {})
        had_line = interp.call(has_line, [source], {})
        for attr, ty in PS_FRAME.items():
            interp.setattr(source, attr, ty.make(interp, 'parsed.' + attr))
        assume_pred(interp, _forward_abstractly, source, orig, old_off, had_line)
        return
    n = Nat.make(interp, 'consumed')
    assume_pred(interp, _available, source, n)
    interp.call_real_function(ParseSource.consume, [source, n], {})
    if st.choose(2) == 1:
        # (consume_current_line before the last line gives a state that consume(n) reaches as well)
        assume_pred(interp, _on_last_line, source)
        interp.call_real_function(ParseSource.consume_current_line, [source], {})


# Frames "the source is moved forwards" (loop heads; call sites of verified functions whose postcondition
# includes RI and `not moved backwards`, and which need a current line): the source becomes arbitrary by the
# environment step above.  That this covers every state such a postcondition allows follows from the lemma
# `state is a function of the offset` and the contract of ParseSource.consume (for every n the state at off + n).

FORWARD = HavocBy(havoc_source_forward)


def _on_last_line(source):
    return has_line(source) and NL not in source.source_string


def _available(source, n):
    return n <= len(source.source_string) - source._column_index


class ParserExceptionI(Interface):
    """An exception raised by an opaque parser: of any class (isinstance against the classes the code names
    is decided, by case split, where an `except` clause asks); when it is a SectionElementError it has a source
    and a message."""
    target_class = Exception
    attrs = {'source': LINE_SEQUENCE, 'message': Str}


PARSER_EXCEPTION = Iface(ParserExceptionI)


def _raise_some(interp, o):
    """environment: the parser raises some exception, or none"""
    if interp.st.choose(2) == 1:
        raise PyRaise(PARSER_EXCEPTION.make(interp, 'exc'))


def _instruction_parser_parse(interp, self, args, kwargs):
    fs_location_info, source = args
    havoc_source_forward(interp, source)
    _raise_some(interp, self)
    r = Any_.make(interp, 'instruction')
    interp.st.ghost['parsed-instruction'] = r
    return r


class InstructionParserI(Interface):
    """element_parsers.section_element_parsers.InstructionParser: environment (the instruction set)"""
    target_class = sep.InstructionParser
    methods = {'parse': Method(model=_instruction_parser_parse)}


def _parsed_instruction_for_callers(interp, name, bound):
    """the result at call sites: a ParsedInstruction with arbitrary lines and instruction, the description given"""
    instruction = Any_.make(interp, 'instruction')
    interp.st.ghost['parsed-instruction'] = instruction
    return pse.ParsedInstruction(LINE_SEQUENCE.make(interp, 'parsed.source'),
                                 InstructionInfo(instruction, bound['description']))


# History: proved on the string engine of branch wC, switched off after the merge with main (main's str.split was a
# sequence of unknown strings), contract ASSUMED meanwhile.  Extension D7: proved again and the flag is on --
# (1) with string alignment on, s.split(ch) is a mutable list tied to the join measure and `del xs[-1]` carries the
# measure over (pyvc.mlist.split_all / _joins_without_last); (2) the function is verified at the DOCUMENT level (RI
# uninterpreted, the opaque parser's step abstract, `remaining_source` / `current_line_number` through their
# contracts): 4 paths instead of 60.  The bounded stand-in stays as a labelled cross-check.
_PARSE_AND_COMPUTE_SOURCE_PROOF = True
if not _PARSE_AND_COMPUTE_SOURCE_PROOF:
    M.trust('section_element_parsers.parse_and_compute_source: contract assumed (proof switched off on the merged '
            'engine, see _PARSE_AND_COMPUTE_SOURCE_PROOF); bounded stand-in: all texts of <= 6 characters over '
            '{a, space, line break}, every start offset, every amount consumed by the instruction parser')

M.contract(P_SEP + ':parse_and_compute_source', trusted=not _PARSE_AND_COMPUTE_SOURCE_PROOF,
           event=('parse-and-compute-source', lambda source, orig: off_of(source, orig)),
           returns=Dependent(_parsed_instruction_for_callers),
           params=dict(parser=Iface(InstructionParserI), fs_location_info=Any_, source=PARSE_SOURCE,
                       description=Any_),
           ghosts=dict(orig=Str),
           requires=lambda source, orig: RI(source, orig) and has_line(source),
           old=lambda source, orig: off_of(source, orig),
           modifies=dict(frame(source=PS_FRAME), **INSTRUCTION_GHOST),
           may_raise=(PARSER_EXCEPTION,),
           ensures={
               'source-still-well-formed-and-not-moved-back': lambda source, orig, old:
               RI(source, orig) and off_of(source, orig) >= old,
               'first-line-number-is-that-of-the-first-consumed-character': lambda result, orig, old:
               result.source.first_line_number == line_number_at(orig, old),
               'lines-are-the-consumed-text': lambda result, source, orig, old:
               NL.join(result.source.lines) == without_final_newline(orig[old:off_of(source, orig)]),
               'no-line-contains-a-newline-and-there-is-at-least-one': lambda result:
               len(result.source.lines) >= 1
               and forall_range(0, len(result.source.lines), lambda j: NL not in result.source.lines[j]),
               'instruction-and-description-passed-through': lambda result, description, ghost:
               result.instruction_info.instruction is ghost['parsed-instruction']
               and result.instruction_info.description == description,
           })


@M.bounded('parse_and_compute_source on all small texts')
def _parse_and_compute_source_on_small_texts(ctx):
    from contracts import C07_bounded
    C07_bounded.run_parse_and_compute_source(ctx)


# ---- lemma: the state of a ParseSource is a function of (orig, off, has-current-line)

def lemma_no_newline_inside_the_current_line(s, orig, j):
    """(D7) offset j of orig lies inside the current line of s: the character there is not a newline.  (The step
    of the lemma below that the solvers did not find by themselves, as a lemma of its own.)"""
    k = len(orig) - len(s.source_string)
    inside = s._current_line_text[j - k:j - k + 1]
    return inside != NL and orig[j:j + 1] == inside


M.contract('contracts.C07_document:lemma_no_newline_inside_the_current_line',
           params=dict(s=PARSE_SOURCE, orig=Str, j=Int),
           requires=lambda s, orig, j: RI(s, orig) and has_line(s)
           and ls_of(s, orig) <= j and j < ls_of(s, orig) + len(s._current_line_text),
           returns=Bool,
           ensures={'the-character-is-one-of-the-current-line': lambda result: result,
                    # (stated through `result`: where the lemma is used to refute a case the clause is then not
                    # literally False at the call site, which the engine refuses, but contradicts `result`)
                    'no-newline-inside-the-current-line': lambda result, orig, j: iff(result, orig[j:j + 1] != NL)},
           raises_only=())


def lemma_state_is_a_function_of_the_offset(s1, s2, orig):
    """(D7: proof steps made explicit) two states at the same offset are on the same line -- otherwise the line
    start of the one that starts later would be a newline inside the current line of the other"""
    if has_line(s1) and has_line(s2):
        k1 = len(orig) - len(s1.source_string)
        k2 = len(orig) - len(s2.source_string)
        if k1 < k2:
            lemma_no_newline_inside_the_current_line(s1, orig, k2 - 1)
        if k2 < k1:
            lemma_no_newline_inside_the_current_line(s2, orig, k1 - 1)
    return unchanged(s1, snap(s2))


def _line_start_again(s, orig):
    """The line-start conjunct of RI once more, stated as a test (so that the character before the line
    becomes a piece of orig that the other state's pieces are aligned with).  Implied by RI: same formula."""
    if s._current_line_number is None:
        return True
    k = len(orig) - len(s.source_string)
    if k != 0:
        if orig[k - 1:k] != NL:
            return False
    return True


# History: proved on the string engine of branch wC, beyond the solvers after the merge with main.  Extension D7:
# proved again (flag on) with the missing step as a lemma of its own (`lemma_no_newline_inside_the_current_line`:
# two states at the same offset are on the same line, otherwise the later line start would be a newline inside the
# current line of the other).  The bounded stand-in `states of a ParseSource` stays as a labelled cross-check (it
# also checks what the lemma is used for).
_STATE_LEMMA_PROOF = True
if _STATE_LEMMA_PROOF:
    M.contract('contracts.C07_document:lemma_state_is_a_function_of_the_offset',
               params=dict(s1=PARSE_SOURCE, s2=PARSE_SOURCE, orig=Str),
               requires=lambda s1, s2, orig: RI(s1, orig) and RI(s2, orig) and off_of(s1, orig) == off_of(s2, orig)
               and iff(has_line(s1), has_line(s2)) and _line_start_again(s1, orig) and _line_start_again(s2, orig),
               ensures={'same-offset-same-state': lambda result: result},
               raises_only=())


@M.bounded('states of a ParseSource: a function of the offset; all reached by consume(n) [+ consume_current_line()]')
def _states_of_a_parse_source(ctx):
    from contracts import C07_bounded
    C07_bounded.run_states(ctx)


# ---- comment / empty-line parser


class LinePredicateI(Interface):
    """a predicate on the text of a line (is_empty_line / is_comment_line at the two call sites)"""
    methods = {'__call__': Method(returns=Bool, pure=True)}


def whole_lines_from(orig, ls, source):
    """The text of orig from the line start ls up to the end of the line before the current one; up to the end
    when there is no current line any more.  (In the latter case a text that ends with a newline contributes a
    final empty line: ParseSource has an empty current line after a final newline, and the loop below, unlike
    the document parser, goes on while there is a current line, not while not is_at_eof.)"""
    if has_line(source):
        return orig[ls:off_of(source, orig) - 1]
    return orig[ls:]


P_CEP = P_SEP + ':StandardSyntaxCommentAndEmptyLineParser'

M.contract(P_CEP + '._consume_and_return_current_line',
           params=dict(source=PARSE_SOURCE, line_predicate_for_line_to_consume=Iface(LinePredicateI)),
           ghosts=dict(orig=Str),
           requires=lambda source, orig: RI(source, orig) and has_line(source),
           old=lambda source, orig: (ls_of(source, orig), source._current_line_number, source._current_line_text,
                                     off_of(source, orig)),
           modifies=frame(source=PS_FRAME),
           returns=LINE_SEQUENCE,
           ensures={
               'RI': lambda source, orig: RI(source, orig),
               'moved-forward': lambda source, orig, old: off_of(source, orig) >= old[3],
               'at-a-line-start-or-no-current-line': lambda source: (not has_line(source)) or source._column_index == 0,
               'first-line-is-the-current-line': lambda result, old: len(result.lines) >= 1 and result.lines[0] == old[2],
               'first-line-number-is-that-of-the-current-line': lambda result, old:
               result.first_line_number == old[1],
               'lines-are-the-complete-lines-consumed': lambda result, source, orig, old:
               len(result.lines) >= 1 and NL.join(result.lines) == whole_lines_from(orig, old[0], source),
               'following-lines-satisfy-the-predicate': lambda result, line_predicate_for_line_to_consume:
               forall_range(1, len(result.lines), lambda j: line_predicate_for_line_to_consume(result.lines[j])),
               'stops-at-the-first-line-that-does-not': lambda source, line_predicate_for_line_to_consume:
               (not has_line(source)) or not line_predicate_for_line_to_consume(source._current_line_text),
               'as-many-lines-as-line-numbers-advanced': lambda result, source, old:
               (not has_line(source)) or source._current_line_number == old[1] + len(result.lines),
           }, raises_only=())


def _consumed_lines_inv(source, orig, lines, old, pred):
    if not RI(source, orig):
        return False
    if len(lines) < 1:
        return False
    if lines[0] != old[2]:
        return False
    if off_of(source, orig) < old[3]:
        return False
    if has_line(source):
        if source._column_index != 0:
            return False
        if source._current_line_number != old[1] + len(lines):
            return False
        if NL.join(lines) + NL != orig[old[0]:off_of(source, orig)]:
            return False
    else:
        if NL.join(lines) != orig[old[0]:]:
            return False
    return forall_range(1, len(lines), lambda j: pred(lines[j]))


M.loop(P_CEP + '._consume_and_return_current_line', 0,
       invariant=lambda source, orig, lines, old, line_predicate_for_line_to_consume:
       _consumed_lines_inv(source, orig, lines, old, line_predicate_for_line_to_consume),
       modifies={'source': FORWARD, 'lines': MListOf(Str)})


# ============================================================================== syntax of lines
# Independent definitions (from the reference manual: "a phase header is a line whose first non-blank
# character is [", comments start with #, blank = only space) -- no regular expressions here.  The functions of
# section_document.syntax are proved to agree with them, given the assumed contract of re.Pattern.match
# (pyvc/regex.py: the patterns are read from the compiled pattern objects of the module and transcribed).

P_SYN = 'exactly_lib.section_document.syntax'
BLANKS = ' \t'

M.trust('re.Pattern.match on symbolic subjects: pyvc/regex.py -- match iff a prefix of the subject is in the '
        'language of the pattern (transcribed from the compiled pattern object by Python\'s own regex parser; a '
        'final $ also accepts a final newline); m.end() is the length of SOME matching prefix; \\w is transcribed '
        'as [A-Za-z0-9_] (section names with non-ASCII letters are outside the model).')


try:
    import z3 as _z3
except ImportError:      # replays run under the repository's interpreter, without z3
    _z3 = None
from pyvc.values import SStr as _SStr, SChoice as _SChoice, to_z3 as _to_z3, wrap as _wrap


def _str_term(interp, v):
    if isinstance(v, _SChoice):       # one of finitely many concrete strings: a term, no case split
        alts = [a if isinstance(a, str) else '' for a in v.alts]      # (None: excluded by the context)
        t = _z3.StringVal(alts[-1])
        for i in range(len(alts) - 2, -1, -1):
            t = _z3.If(v.idx == i, _z3.StringVal(alts[i]), t)
        return t
    from pyvc.values import SOpt as _SOpt
    if isinstance(v, _SOpt):          # (None: excluded by the context)
        return _str_term(interp, v.val)
    if v is None:
        return _z3.StringVal('')
    return _to_z3(v)


def defined_in_syntax_only(f):
    """Abstraction barrier.  The definition of the line-syntax predicate `f` is visible (interpreted) only
    while the functions of section_document.syntax are verified -- that is where the program's regular
    expressions are proved to agree with it.  Everywhere else it is an uninterpreted function of its arguments:
    the document parser and the element parsers do not depend on what a header looks like, only on the
    syntax module's functions computing these predicates.  (Natively it is always the definition.)"""

    def outside_syntax(interp):
        return not (interp.fn_name.startswith(P_SYN + ':')
                    or interp.fn_name.endswith(':_Impl.current_line_is_comment_or_empty'))      # (uses the patterns)

    def make(interp, args, kwargs):
        ts = [_str_term(interp, a) for a in args]
        uf = _z3.Function('syntax.' + f.__name__, *([_z3.StringSort()] * len(ts) + [_z3.BoolSort()]))
        return _wrap(uf(*ts))

    M.abstract(f, outside_syntax, make)
    return f


@defined_in_syntax_only
def is_header(line):
    return line.lstrip(BLANKS).startswith('[')


@defined_in_syntax_only
def is_comment(line):
    return line.lstrip(BLANKS).startswith('#')


@defined_in_syntax_only
def is_blank(line):
    """only blanks (a final newline is tolerated: lines never have one)"""
    return line.lstrip(BLANKS) == '' or line.lstrip(BLANKS) == NL


M.contract(P_SYN + ':is_section_header_line', params=dict(line=Str), returns=Bool,
           ensures={'first-non-blank-is-[': lambda line, result: iff(result, is_header(line))}, raises_only=())
M.contract(P_SYN + ':is_comment_line', params=dict(line=Str), returns=Bool,
           ensures={'first-non-blank-is-#': lambda line, result: iff(result, is_comment(line))}, raises_only=())
M.contract(P_SYN + ':is_empty_line', params=dict(line=Str), returns=Bool,
           ensures={'only-blanks': lambda line, result: iff(result, is_blank(line))}, raises_only=())


@defined_in_syntax_only
def is_header_of(line, name):
    """line is a well-formed phase header for the phase `name`:  blanks [ name ] blanks, where the name and
    what follows it are what the module's own patterns for them accept"""
    body = line.lstrip(BLANKS)
    return body.startswith('[') \
        and body[1:1 + len(name)] == name \
        and syntax._SECTION_NAME_RE.fullmatch(name) is not None \
        and syntax._SECTION_NAME_AFTER_RE.match(body[1 + len(name):]) is not None


M.contract(P_SYN + ':extract_section_name_from_section_line', params=dict(line=Str), returns=Str,
           requires=lambda line: is_header(line),
           raises={ValueError: {}},
           ensures={'the-name-of-a-well-formed-header': lambda line, result: is_header_of(line, result)},
           raises_only=())
M.assume('extract_section_name_from_section_line: only "a returned name is the name of a well-formed header; every '
         'other outcome is ValueError" is proved.  That every well-formed header is accepted depends on which match '
         'Python\'s backtracking search reports for \\w[\\w -.]*\\w|\\w (m.end()), which the assumed contract of '
         're.Pattern.match leaves open; it is covered by the bounded stand-in.')


from exactly_lib.section_document import parsed_section_element as pse
from exactly_lib.section_document.model import ElementType, InstructionInfo

NON_INSTRUCTION = Inst(pse.ParsedNonInstructionElement, _source=LINE_SEQUENCE, _element_type=EnumOf(ElementType))

M.contract(P_CEP + '.parse',
           params=dict(self=Inst(sep.StandardSyntaxCommentAndEmptyLineParser), fs_location_info=Any_,
                       source=PARSE_SOURCE),
           ghosts=dict(orig=Str),
           requires=lambda source, orig: RI(source, orig) and has_line(source),
           old=lambda source, orig: (snap(source), ls_of(source, orig), off_of(source, orig)),
           modifies=frame(source=PS_FRAME),
           returns=Opt(NON_INSTRUCTION),
           ensures={
               'RI': lambda source, orig, old: RI(source, orig) and off_of(source, orig) >= old[2],
               'none-iff-neither-blank-nor-comment': lambda result, old:
               iff(result is None, not is_blank(old[0][3]) and not is_comment(old[0][3])),
               'none-consumes-nothing': lambda result, source, old: result is not None or unchanged(source, old[0]),
               'blank-before-comment': lambda result, old:
               result is None or result.element_type is (ElementType.EMPTY if is_blank(old[0][3])
                                                         else ElementType.COMMENT),
               'source-is-the-complete-lines-consumed': lambda result, source, orig, old:
               result is None or (result.source.first_line_number == old[0][2]
                                  and NL.join(result.source.lines) == whole_lines_from(orig, old[1], source)),
               'every-line-is-of-the-kind-of-the-element': lambda result:
               result is None or forall_range(0, len(result.source.lines), lambda j:
                                              is_blank(result.source.lines[j])
                                              if result.element_type is ElementType.EMPTY
                                              else is_comment(result.source.lines[j])),
           }, raises_only=())


# ---- opaque section element parsers; the parser that tries a sequence of parsers

M.assume('A section element parser that returns None or raises UnrecognizedSectionElementSourceError has not consumed '
         'anything (documented at SectionElementParser.parse and UnrecognizedSectionElementSourceError; proved of '
         'StandardSyntaxCommentAndEmptyLineParser.parse; assumed of opaque parsers).')

UNRECOGNIZED = UnrecognizedSectionElementSourceError


class ParsedElementI(Interface):
    """the element an opaque parser returns: some ParsedSectionElement (which subclass is decided where asked)"""
    target_class = pse.ParsedSectionElement
    attrs = {'source': LINE_SEQUENCE}


def _is_unrecognized(interp, e):
    return interp.truth(interp.reg.opaque_isinstance(interp, e, UNRECOGNIZED))


def section_parser_model(make_element):
    def model(interp, self, args, kwargs):
        fs_location_info, source = args[0], args[1]
        st = interp.st
        k = st.choose(4)
        if k == 0:            # not recognized: None, nothing consumed
            return None
        if k == 1:            # not recognized: the exception for that, nothing consumed
            e = PARSER_EXCEPTION.make(interp, 'exc')
            st.assume(_is_unrecognized(interp, e))
            raise PyRaise(e)
        orig = interp.reg.ghost_env['orig']
        started_at = interp.call(off_of, [source, orig], {})
        havoc_source_forward(interp, source)
        if k == 2:            # recognized but erroneous (or any other failure): may have consumed
            e = PARSER_EXCEPTION.make(interp, 'exc')
            st.assume(interp.not_(_is_unrecognized(interp, e)))
            raise PyRaise(e)
        r = make_element(interp)
        st.ghost['parsed-element'] = r
        st.ghost['parsed-from'] = started_at
        st.ghost['parsed-by'] = self
        return r

    return model


class SectionElementParserI(Interface):
    """section_element_parsing.SectionElementParser: environment (the parsers of the phases)"""
    target_class = SectionElementParser
    methods = {'parse': Method(model=section_parser_model(lambda interp: Iface(ParsedElementI).make(interp, 'element')))}


SEQ_PARSER = Inst(sep.ParserFromSequenceOfParsers, _parsers_to_try=ListOf(Iface(SectionElementParserI)))

M.contract(P_SEP + ':ParserFromSequenceOfParsers.parse',
           params=dict(self=SEQ_PARSER, fs_location_info=Any_, source=PARSE_SOURCE), ghosts=dict(orig=Str),
           requires=lambda source, orig: RI(source, orig),
           old=lambda source, orig: (snap(source), off_of(source, orig)),
           modifies=dict(frame(source=PS_FRAME), **PARSED_GHOSTS),
           returns=Opt(Iface(ParsedElementI)),
           raises={PARSER_EXCEPTION: {'ensures': lambda source, orig, old, exc:
                   RI(source, orig) and off_of(source, orig) >= old[1]
                   and ((not isinstance(exc, UNRECOGNIZED)) or unchanged(source, old[0]))}},
           ensures={
               'RI-and-not-moved-back': lambda source, orig, old: RI(source, orig) and off_of(source, orig) >= old[1],
               'none-consumes-nothing': lambda result, source, old: result is not None or unchanged(source, old[0]),
               'an-element-is-what-one-parser-returned-having-started-at-the-original-position':
                   lambda result, ghost, old: result is None or (result is ghost['parsed-element']
                                                                 and ghost['parsed-from'] == old[1]),
           }, raises_only=())
M.loop(P_SEP + ':ParserFromSequenceOfParsers.parse', 0,
       invariant=lambda source, old, last_error:
       unchanged(source, old[0]) and (last_error is None or isinstance(last_error, UNRECOGNIZED)),
       modifies={'last_error': Opt(PARSER_EXCEPTION), 'element': 'local', 'parser': 'local', 'ex': 'local',
                 'source._column_index': Int, 'source.source_string': Str,
                 'source._current_line_number': Opt(Int), 'source._current_line_text': Opt(Str)})


# ============================================================================== the document parser
# Lists of section elements are symbolic lists of objects (by handle); `is_item` compares an element of such a
# list with an object.
from contracts.common import is_item, conj, slot, snapshot_lists, all_keys
from exactly_lib.section_document.impl import document_parser as dp

ELEMENTS = MListOf(Any_)


def snapshot(xs):
    return list(xs)


def same_items(a, b):
    return len(a) == len(b) and forall_range(0, len(b), lambda j: is_item(a[j], b[j]))


def is_concat(a, x, y):
    """a == x ++ y  (y may be a plain list of a few objects)"""
    if type(y) is list:
        return len(a) == len(x) + len(y) \
            and forall_range(0, len(x), lambda j: is_item(a[j], x[j])) \
            and all(is_item(a[len(x) + k], y[k]) for k in range(len(y)))
    return len(a) == len(x) + len(y) \
        and forall_range(0, len(x), lambda j: is_item(a[j], x[j])) \
        and forall_range(0, len(y), lambda j: is_item(a[len(x) + j], y[j]))


# ---- _add_raw_doc: proved for dictionaries over (any subsets of) three keys, in every combination.  The body
# treats the keys of to_add one by one and independently; three keys show every interaction (a key in both, in
# one only, in none; before / after another key).

KEYS3 = ('A', 'B', 'C')


def _mk_raw_doc3(interp, name):
    d = {}
    for k in KEYS3:
        if interp.st.choose(2) == 1:
            d[k] = ELEMENTS.make(interp, '%s[%s]' % (name, k))
    return d


RAW_DOC3 = Custom(_mk_raw_doc3)


def _merged_as_specified(added_to, to_add, old):
    old_added, old_to_add = old
    return conj([implies(k in old_added and k in old_to_add,
                         k in added_to and is_concat(slot(added_to, k), slot(old_added, k), slot(old_to_add, k)))
                 and implies(k in old_added and k not in old_to_add,
                             k in added_to and same_items(slot(added_to, k), slot(old_added, k)))
                 and implies(k not in old_added and k in old_to_add,
                             k in added_to and same_items(slot(added_to, k), slot(old_to_add, k)))
                 and implies(k not in old_added and k not in old_to_add, k not in added_to)
                 for k in all_keys(added_to, to_add, old_added, old_to_add)])


def _havoc_dict_of_lists(interp, d):
    d.havoc(interp, 'post')


M.contract(P_DP + ':_add_raw_doc', params=dict(added_to=RAW_DOC3, to_add=RAW_DOC3), event='add-raw-doc',
           old=lambda added_to, to_add: (snapshot_lists(added_to), snapshot_lists(to_add)),
           modifies={'added_to': HavocBy(_havoc_dict_of_lists)},
           ensures={
               'per-section: old elements followed by the added ones': lambda added_to, to_add, old:
               _merged_as_specified(added_to, to_add, old),
               'sections keep their order, new ones follow in the order of the added document':
                   (lambda added_to, old:
                    list(added_to.keys()) == list(old[0].keys()) + [k for k in old[1].keys() if k not in old[0]],
                    NEVER_ASSUMED),
               'the added document is not changed': lambda to_add, old:
               conj([implies(k in old[1], k in to_add and same_items(slot(to_add, k), slot(old[1], k)))
                     and implies(k not in old[1], k not in to_add) for k in all_keys(to_add, old[1])]),
           }, raises_only=())


# ---- the state of _Impl

from pyvc.api import PDictOf
from pyvc.pdict import PDict
from exactly_lib.test_case import phase_identifier
from exactly_lib.section_document.element_builder import SectionContentElementBuilder
from exactly_lib.util.line_source import Line

# the sections of a test case: the names the program configures (read from the module, never copied)
SECTION_NAMES = tuple(p.section_name for p in phase_identifier.ALL)
SECTION_NAME = OneOf(*SECTION_NAMES)


class PathI(Interface):
    """pathlib.Path: environment.  Equal paths have equal keys (the key stands for the path's value)."""
    attrs = {'key': Int}
    eq_attr = 'key'


PATH = Iface(PathI)

SOURCE_LOCATION_CHAIN = ListOf(Any_)
FILE_LOCATION = Inst(FileLocationInfo,
                     _abs_path_of_dir_containing_root_file_path=Any_,
                     _file_path_rel_referrer=Any_,
                     _file_inclusion_chain=SOURCE_LOCATION_CHAIN)


def phase_parser_element(interp):
    """what a parser of a phase returns: one of the three kinds of parsed elements (closed world: the
    subclasses of ParsedSectionElement)"""
    return PARSED_ELEMENT.make(interp, 'element')


PARSED_INSTRUCTION = Inst(pse.ParsedInstruction, _source=LINE_SEQUENCE,
                          _instruction_info=Inst(InstructionInfo, _tuple=[Any_, Any_]))
PARSED_INCLUSION = Inst(pse.ParsedFileInclusionDirective, _source=LINE_SEQUENCE, _files_to_include=ListOf(PATH))
PARSED_ELEMENT = Union(PARSED_INSTRUCTION, NON_INSTRUCTION, PARSED_INCLUSION)


class PhaseParserI(Interface):
    """the SectionElementParser of a phase (environment)"""
    target_class = SectionElementParser
    methods = {'parse': Method(model=section_parser_model(phase_parser_element))}


def _mk_conf(interp, name):
    conf = object.__new__(dp._SectionsConfigurationInternal)
    conf.section2parser = {n: Iface(PhaseParserI).make(interp, '%s.parser[%s]' % (name, n)) for n in SECTION_NAMES}
    conf._parser_for_default_section = None
    conf.default_section_name = Opt(SECTION_NAME).make(interp, name + '.default_section_name')
    conf.section_element_name_for_error_messages = Str.make(interp, name + '.section_element_name')
    return conf


SECTION_LISTS = PDictOf(SECTION_NAMES, ELEMENTS)


def _mk_impl(interp, name):
    """an _Impl in an arbitrary state (constrained by `impl_ok` in the contracts)"""
    impl = object.__new__(dp._Impl)
    impl.configuration = _mk_conf(interp, name + '.configuration')
    impl._current_file_location = FILE_LOCATION.make(interp, name + '._current_file_location')
    impl._file_reference_relativity_root_dir = PATH.make(interp, name + '._root_dir')
    impl._document_source = PARSE_SOURCE.make(interp, name + '._document_source')
    impl._current_line = Opt(Inst(Line, _tuple=[Int, Str])).make(interp, name + '._current_line')
    impl._section_name_2_element_list = SECTION_LISTS.make(interp, name + '._lists')
    impl._name_of_current_section = None
    impl._parser_for_current_section = None
    impl._elements_for_current_section = []
    impl._element_constructor = dp._SectionElementParseResultHandler(
        SectionContentElementBuilder(impl._current_file_location))
    impl.visited_paths = ListOf(PATH).make(interp, name + '.visited_paths')
    _any_section_state(interp, impl)
    return impl


def _any_section_state(interp, impl):
    """the three fields about the current section: one index selects name, parser and list together (no
    case split here); the last index is `outside any section`.  Coherence is what `section_ok` says."""
    from pyvc.values import SChoice
    from pyvc.mlist import MList
    st = interp.st
    names = list(SECTION_NAMES)
    idx = st.fresh_int('section.idx')
    st.assume(idx >= 0)
    st.assume(idx <= len(names))
    conf = impl.configuration
    d = impl._section_name_2_element_list
    interp.setattr(impl, '_name_of_current_section', SChoice(idx, names + [None]))
    interp.setattr(impl, '_parser_for_current_section', SChoice(idx, [conf.section2parser[k] for k in names] + [None]))
    # (the list used outside any section is one object for the lifetime of the _Impl: a frame that keeps
    # `the same list object` must be able to keep it)
    outside = impl.__dict__.get('_pv_outside')
    if outside is None:
        outside = MList(interp, st.fresh_name('elements.outside'), ('obj',))
        impl.__dict__['_pv_outside'] = outside
    interp.setattr(impl, '_elements_for_current_section', SChoice(idx, [d.values[k] for k in names] + [outside]))


def _enter_section(interp, impl, section_name):
    """inside a section: the three fields about it are coherent (what set_current_section establishes)"""
    section_name = interp.resolve(section_name)
    d = impl._section_name_2_element_list
    interp.st.assume(interp.truth(d.present[section_name]))
    impl._name_of_current_section = section_name
    impl._parser_for_current_section = impl.configuration.section2parser[section_name]
    impl._elements_for_current_section = d.values[section_name]


IMPL = Custom(_mk_impl)


def in_section(self):
    return self._name_of_current_section is not None


def section_ok(self):
    """the current section's parser is the configured one and its element list IS the list in the dictionary"""
    name = self._name_of_current_section
    d = self._section_name_2_element_list
    return (name is None or name in self.configuration.section2parser) \
        and conj([implies(name == k,
                          self._parser_for_current_section is self.configuration.section2parser[k]
                          and k in d and self._elements_for_current_section is slot(d, k))
                  for k in SECTION_NAMES])


def at_eof(s):
    return s._current_line_number is None or s._column_index == len(s.source_string)


def cur_line_ok(self):
    """_current_line caches the current line of the source; None exactly at the end of the document"""
    s = self._document_source
    if at_eof(s):
        return self._current_line is None
    return self._current_line is not None and self._current_line.line_number == s._current_line_number \
        and self._current_line.text == s._current_line_text


def impl_ok(self, orig):
    return RI(self._document_source, orig) and cur_line_ok(self) and section_ok(self)


def lists_snapshot(self):
    return snapshot_lists(self._section_name_2_element_list)


def other_lists_unchanged(self, old_lists, but=None):
    """every section that had a list still has it, with the same elements (except section `but`); no other
    section has got one"""
    d = self._section_name_2_element_list
    return conj([implies(k in old_lists, k in d and same_items(slot(d, k), slot(old_lists, k)))
                 and implies(k in d, k in old_lists)
                 for k in SECTION_NAMES if k != but])


M.contract(P_DP + ':_Impl.set_current_section', inline=True,
           params=dict(self=IMPL, section_name=SECTION_NAME),
           old=lambda self: (lists_snapshot(self), self._document_source, self._current_line),
           modifies=dict(self=dict(_name_of_current_section=Any_, _parser_for_current_section=Any_,
                                   _elements_for_current_section=Any_)),
           ensures={
               'name-parser-and-list-of-the-section': lambda self, section_name:
               self._name_of_current_section == section_name and section_ok(self),
               'an-existing-list-is-kept-a-new-section-starts-empty': lambda self, section_name, old:
               implies(section_name in old[0],
                       same_items(self._elements_for_current_section, slot(old[0], section_name)))
               and implies(section_name not in old[0], len(self._elements_for_current_section) == 0),
               'other-sections-untouched': lambda self, section_name, old:
               other_lists_unchanged(self, old[0], but=section_name),
           }, raises_only=())


# ---- loop frames of _Impl: the whole parsing state becomes arbitrary (the invariant then says what is known)

from pyvc.values import SChoice
from pyvc.mlist import MList
from exactly_lib.section_document.exceptions import FileSourceError, FileAccessError
from exactly_lib.section_document.source_location import SourceLocationInfo, SourceLocationPath, SourceLocation


SOURCE_LOCATION_INFO = Inst(SourceLocationInfo, _abs_path_of_dir_containing_root_file_path=Any_,
                            _source_location_path=Inst(SourceLocationPath, _tuple=[
                                Inst(SourceLocation, _tuple=[LINE_SEQUENCE, Any_]), SOURCE_LOCATION_CHAIN]))
FILE_SOURCE_ERROR = Inst(FileSourceError, _message=Str, _location_path=Any_, _maybe_section_name=Any_,
                         _source_location_info=SOURCE_LOCATION_INFO, _source=LINE_SEQUENCE)


def havoc_impl(interp, impl):
    st = interp.st
    src = impl._document_source
    for attr, ty in PS_FRAME.items():
        interp.setattr(src, attr, ty.make(interp, 'src.' + attr))
    interp.setattr(impl, '_current_line', Opt(Inst(Line, _tuple=[Int, Str])).make(interp, 'current_line'))
    d = impl._section_name_2_element_list
    if isinstance(d, dict) and not d:
        # (the empty dictionary _Impl.__init__ creates: from here on a dictionary with symbolic key presence)
        d = PDict(interp, interp.st.fresh_name('lists'), SECTION_NAMES, ELEMENTS)
        interp.setattr(impl, '_section_name_2_element_list', d)
    d.havoc(interp, 'L')
    _any_section_state(interp, impl)


IMPL_STATE = HavocBy(havoc_impl)
IMPL_FRAME = {'self': IMPL_STATE, 'self._document_source': DECLARED, 'self._section_name_2_element_list': DECLARED,
              '@self._current_line': None}


def lists_grown_by_new_empty_sections_only(self, old_lists):
    d = self._section_name_2_element_list
    return conj([implies(k in old_lists, k in d and same_items(slot(d, k), slot(old_lists, k)))
                 and implies(k in d and k not in old_lists, len(slot(d, k)) == 0)
                 for k in SECTION_NAMES])


def error_is_about_current_line(exc, self):
    """a FileSourceError that carries the number and text of the current line of the source and the location
    of the current file (path and chain of including files)"""
    s = self._document_source
    loc = exc.source_location_info.source_location_path
    return exc.source.first_line_number == s._current_line_number \
        and len(exc.source.lines) == 1 and exc.source.lines[0] == s._current_line_text \
        and loc.location.source.first_line_number == s._current_line_number \
        and len(loc.location.source.lines) == 1 and loc.location.source.lines[0] == s._current_line_text \
        and loc.location.file_path_rel_referrer is self._current_file_location._file_path_rel_referrer \
        and loc.file_inclusion_chain is self._current_file_location._file_inclusion_chain


P_SWITCH = P_DP + ':_Impl.switch_section_according_to_last_section_line_and_consume_section_lines'


def _rest_of_impl(self):
    """the fields of _Impl that are not part of the parsing state (identities)"""
    return (id(self.configuration), id(self._current_file_location), id(self._file_reference_relativity_root_dir),
            id(self._document_source), id(self._section_name_2_element_list), id(self._element_constructor),
            id(self.visited_paths))


def consumed_some_line(source, old_number):
    """the source has left the line it was on (it then had a current line, with number old_number)"""
    return (not has_line(source)) or source._current_line_number > old_number


def _switch_inv(self, orig, old):
    if not impl_ok(self, orig):
        return False
    s = self._document_source
    if off_of(s, orig) < old[1]:
        return False
    if has_line(s):
        if s._current_line_number < old[3]:
            return False
    if not lists_grown_by_new_empty_sections_only(self, old[0]):
        return False
    if consumed_some_line(s, old[3]):
        if not in_section(self):
            return False
        if not is_header_of(last_consumed_line(orig, s), self._name_of_current_section):
            return False
    else:
        if not _same_section(self, old[2]):
            return False
        if self._current_line is None:
            return False
        if self._current_line.text != old[5]:
            return False
    return True


def _same_section(self, old_section):
    return self._name_of_current_section == old_section[0] \
        and self._parser_for_current_section is old_section[1] \
        and self._elements_for_current_section is old_section[2]


M.contract(P_SWITCH, event='switch-section',
           params=dict(self=IMPL), ghosts=dict(orig=Str),
           requires=lambda self, orig: impl_ok(self, orig) and self._current_line is not None,
           old=lambda self, orig: (lists_snapshot(self), off_of(self._document_source, orig),
                                   (self._name_of_current_section, self._parser_for_current_section,
                                    self._elements_for_current_section),
                                   self._document_source._current_line_number, _rest_of_impl(self),
                                   self._current_line.text),
           # (frame: the parsing state; that the rest of the object is untouched is the clause `rest-of-the-...`)
           modifies={'self': IMPL_STATE},
           raises={FileSourceError: {'shape': FILE_SOURCE_ERROR, 'ensures': (lambda self, orig, old, exc:
                   RI(self._document_source, orig) and has_line(self._document_source)
                   and is_header(self._document_source._current_line_text)
                   and error_is_about_current_line(exc, self)
                   and exc.maybe_section_name is None
                   and lists_grown_by_new_empty_sections_only(self, old[0]), NEVER_ASSUMED)}},
           ensures={
               'state-well-formed-lists-only-gained-new-empty-sections-current-section-is-that-of-the-last-header':
                   lambda self, orig, old: _switch_inv(self, orig, old),
               'stops-at-end-or-at-a-line-that-is-not-a-header': lambda self:
               self._current_line is None or not is_header(self._current_line.text),
               'rest-of-the-object-untouched': lambda self, old: _rest_of_impl(self) == old[4],
               'when-the-current-line-is-a-header-it-is-consumed (so a section is entered)': lambda self, old:
               (not is_header(old[5])) or (consumed_some_line(self._document_source, old[3]) and in_section(self)),
           }, raises_only=())
M.loop(P_SWITCH, 0, invariant=lambda self, orig, old: _switch_inv(self, orig, old),
       modifies=dict(IMPL_FRAME, section_line='local', section_name='local', msg='local'))


# ---- one element: parsed by the parser of the current section, built with the location of the current file


P_IMPL = P_DP + ':_Impl'


def same_line_sequence(a, b):
    """the same LineSequence object, or two single lines with the same number and text"""
    return a is b or (a.first_line_number == b.first_line_number
                      and len(a.lines) == 1 and len(b.lines) == 1 and a.lines[0] == b.lines[0])


def located_in_current_file(location_info, self, source):
    """a SourceLocationInfo that carries `source` (the lines), the path of the current file and the chain of
    including files of the current file"""
    path = location_info.source_location_path
    return same_line_sequence(path.location.source, source) \
        and path.location.file_path_rel_referrer is self._current_file_location._file_path_rel_referrer \
        and path.file_inclusion_chain is self._current_file_location._file_inclusion_chain \
        and location_info._abs_path_of_dir_containing_root_file_path \
        is self._current_file_location._abs_path_of_dir_containing_root_file_path


def built_from(result, parsed, self):
    """what parse_element_at_current_line... returns for the element `parsed` that the parser returned"""
    if isinstance(parsed, pse.ParsedFileInclusionDirective):
        return result is parsed
    if not isinstance(result, model.SectionContentElement):
        return False
    if not located_in_current_file(result.source_location_info, self, parsed.source):
        return False
    if result.source_location_info.source_location_path.location.source is not parsed.source:
        return False
    if isinstance(parsed, pse.ParsedInstruction):
        return result.element_type is ElementType.INSTRUCTION \
            and result.instruction_info.instruction is parsed.instruction_info.instruction \
            and result.instruction_info.description is parsed.instruction_info.description
    return result.element_type is parsed.element_type and result.instruction_info is None


def error_at(exc, self, source_lines):
    """a FileSourceError for the lines `source_lines`, located in the current file, naming the current section"""
    return exc.source is source_lines \
        and located_in_current_file(exc.source_location_info, self, source_lines) \
        and exc.maybe_section_name is self._name_of_current_section


def _impl_frame_of_parse(self):
    return (self._name_of_current_section, self._parser_for_current_section, self._elements_for_current_section,
            lists_snapshot(self))


M.contract(P_IMPL + '.parse_element_at_current_line_using_current_section_element_parser', inline=True,
           params=dict(self=IMPL), ghosts=dict(orig=Str),
           requires=lambda self, orig: impl_ok(self, orig) and in_section(self) and self._current_line is not None,
           old=lambda self, orig: (off_of(self._document_source, orig), lists_snapshot(self),
                                   snap(self._document_source)),
           modifies=dict(frame(**{'self._document_source': PS_FRAME}), **PARSED_GHOSTS),
           raises={FileSourceError: {'shape': FILE_SOURCE_ERROR, 'ensures': (lambda self, orig, old, exc:
                   # the parser did not recognise the line: nothing consumed, the error is about the current line
                   unchanged(self._document_source, old[2]) and error_is_about_current_line(exc, self)
                   and exc.maybe_section_name is self._name_of_current_section, NEVER_ASSUMED)},
                   PARSER_EXCEPTION: {'ensures': lambda self, orig, old:
                   RI(self._document_source, orig) and off_of(self._document_source, orig) >= old[0]}},
           ensures={
               'built-from-what-the-parser-returned-with-the-location-of-the-current-file':
                   lambda self, result, ghost: built_from(result, ghost['parsed-element'], self),
               'parsed-by-the-parser-of-the-current-section-at-the-current-position': lambda self, ghost, old:
               ghost['parsed-by'] is self._parser_for_current_section and ghost['parsed-from'] == old[0],
               'source-moved-forward-lists-untouched': lambda self, orig, old:
               RI(self._document_source, orig) and off_of(self._document_source, orig) >= old[0]
               and lists_grown_by_new_empty_sections_only(self, old[1])
               and other_lists_unchanged(self, old[1]),
           }, raises_only=())


# ---- files: reading, cycle check, recursion into included files

from exactly_lib.section_document.impl import file_access

PathI.attrs = {'key': Int, 'parent': Iface(lambda: PathI)}
PathI.methods = {
    '__truediv__': Method(returns=Iface(lambda: PathI), pure=True),
    'resolve': Method(returns=Iface(lambda: PathI), pure=True),
}

CONF = Custom(_mk_conf)
FILE_LOCATION_WITH_PATH = Inst(FileLocationInfo,
                               _abs_path_of_dir_containing_root_file_path=Any_,
                               _file_path_rel_referrer=PATH,
                               _file_inclusion_chain=SOURCE_LOCATION_CHAIN)
VISITED = ListOf(PATH)
CYCLIC_INCLUSION = 'Cyclic inclusion of file'

M.trust('impl.file_access.read_source_file (the file system): returns a ParseSource freshly created from the text '
        'of the file -- the ghost `orig` of parse_file stands for that text -- or raises FileAccessError carrying '
        'the path given for error messages, the inclusion chain and the section name it was given.')
M.contract('exactly_lib.section_document.impl.file_access:read_source_file', trusted=True,
           params=dict(file_path=PATH, file_path_for_error_message=Any_, file_inclusion_chain=Any_, section_name=Any_),
           ghosts=dict(orig=Str),
           returns=PARSE_SOURCE,
           raises={FileAccessError: {'make': lambda file_path_for_error_message, file_inclusion_chain, section_name:
                   FileAccessError(file_path_for_error_message, 'cannot read', file_inclusion_chain, section_name)}},
           ensures={'fresh-source-over-the-text-of-the-file': lambda result, orig:
                    RI(result, orig) and off_of(result, orig) == 0 and has_line(result)})
M.assume('pathlib: `/`, resolve() and .parent are functions of their operands (resolve() does not change between '
         'the calls made while one document is read); paths are compared by value (PathI.key).')


def is_visited(path, visited):
    return exists_range(0, len(visited), lambda j: visited[j] == path)


def _no_parsing_started(trace):
    return not any(e[0] == 'parse-source' for e in trace)


def _havoc_nothing(interp, obj):
    pass


RAW_DOC = PDictOf(SECTION_NAMES, ELEMENTS)

M.contract(P_DP + ':_parse_source', event='parse-source',
           params=dict(conf=CONF, file_location_info=FILE_LOCATION_WITH_PATH, file_reference_relativity_root_dir=PATH,
                       source=PARSE_SOURCE, visited_paths=VISITED),
           ghosts=dict(orig=Str),
           requires=lambda source, orig: RI(source, orig) and off_of(source, orig) == 0 and has_line(source),
           modifies=dict({'source': FORWARD}, **PARSED_GHOSTS),
           returns=RAW_DOC,
           may_raise=(FileSourceError, FileAccessError, PARSER_EXCEPTION),
           # (`_Impl(...)` then `apply()`: that the freshly constructed _Impl is in the state apply requires -- well
           # formed, outside any section, no lists -- is the obligation `requires of _Impl.apply` here)
           ensures={'a-dictionary-of-element-lists': lambda result: len(result) >= 0})

M.contract(P_DP + ':parse_file', event='parse-file',      # (its calls are ghost events: checked in _include_files)
           params=dict(conf=CONF, file_reference_relativity_root_dir=PATH, file_location_info=FILE_LOCATION_WITH_PATH,
                       previously_visited_paths=VISITED),
           ghosts=dict(orig=Str),
           returns=RAW_DOC,
           raises={FileAccessError: {'ensures': lambda conf, file_location_info, previously_visited_paths, trace, exc:
                   (not _no_parsing_started(trace))      # (an error from inside the file: passed on)
                   or (exc.erroneous_path is file_location_info._file_path_rel_referrer
                       and exc.location_path is file_location_info._file_inclusion_chain
                       and exc.maybe_section_name is conf.default_section_name)}},
           may_raise=(FileSourceError, PARSER_EXCEPTION),
           ensures={
               'not-an-already-visited-file (a cycle is an error, raised before anything of the file is parsed)':
                   lambda file_reference_relativity_root_dir, file_location_info, previously_visited_paths:
                   not is_visited((file_reference_relativity_root_dir / file_location_info._file_path_rel_referrer)
                                  .resolve(), previously_visited_paths),
               # (about the events inside parse_file: proved here, nothing a caller can use)
               'parsed-once-with-this-file-added-to-the-visited-paths-relative-to-its-own-directory':
                   (lambda file_reference_relativity_root_dir, file_location_info, previously_visited_paths, conf, trace:
                    _parsed_as_specified(trace, file_reference_relativity_root_dir, file_location_info,
                                         previously_visited_paths, conf), NEVER_ASSUMED),
           })


def _parsed_as_specified(trace, root, file_location_info, previously_visited_paths, conf):
    events = [e for e in trace if e[0] == 'parse-source']
    if len(events) != 1:
        return False
    a = events[0][1]
    path = root / file_location_info._file_path_rel_referrer
    vp = a['visited_paths']
    return a['conf'] is conf and a['file_location_info'] is file_location_info \
        and a['file_reference_relativity_root_dir'] == path.parent \
        and len(vp) == len(previously_visited_paths) + 1 \
        and vp[len(previously_visited_paths)] == path.resolve() \
        and forall_range(0, len(previously_visited_paths), lambda j: vp[j] == previously_visited_paths[j])


# ---- inclusion

P_INCLUDE = P_IMPL + '._include_files'


def lists_extended(self, old_lists):
    """every section that had a list still has it, with the old elements first (in the old order)"""
    d = self._section_name_2_element_list
    return conj([implies(k in old_lists,
                         k in d and len(slot(d, k)) >= len(slot(old_lists, k))
                         and forall_range(0, len(slot(old_lists, k)),
                                          lambda j: is_item(slot(d, k)[j], slot(old_lists, k)[j])))
                 for k in SECTION_NAMES])


def _included_as_specified(e, self, inclusion_directive, file_to_include):
    """one call of parse_file made for an including directive"""
    a = e[1]
    conf = a['conf']
    loc = a['file_location_info']
    chain = loc._file_inclusion_chain
    here = self._current_file_location
    n = len(here._file_inclusion_chain)
    return conf.section2parser is self.configuration.section2parser \
        and conf.default_section_name is self._name_of_current_section \
        and a['file_reference_relativity_root_dir'] is self._file_reference_relativity_root_dir \
        and a['previously_visited_paths'] is self.visited_paths \
        and loc._file_path_rel_referrer is file_to_include \
        and loc._abs_path_of_dir_containing_root_file_path is here._abs_path_of_dir_containing_root_file_path \
        and len(chain) == n + 1 \
        and forall_range(0, n, lambda j: chain[j] == here._file_inclusion_chain[j]) \
        and chain[n].source is inclusion_directive.source \
        and chain[n].file_path_rel_referrer is here._file_path_rel_referrer


def _include_inv(self, old, trace, inclusion_directive, _xs, _i):
    """(the trace of the arbitrary iteration holds the one call of parse_file that iteration makes: for the
    file _xs[_i - 1])"""
    return lists_extended(self, old) \
        and all(_included_as_specified(e, self, inclusion_directive, _xs[_i - 1])
                for e in trace if e[0] == 'parse-file') \
        and _each_parsed_file_is_added(trace, self)


def _each_parsed_file_is_added(trace, self):
    """events: parse_file(..) returned doc, then _add_raw_doc(the dictionary of this parser, doc)"""
    ev = [e for e in trace if e[0] in ('parse-file:returned', 'add-raw-doc')]
    if len(ev) % 2 != 0:
        return False
    for k in range(0, len(ev), 2):
        if ev[k][0] != 'parse-file:returned' or ev[k + 1][0] != 'add-raw-doc':
            return False
        if ev[k + 1][1]['added_to'] is not self._section_name_2_element_list:
            return False
        if ev[k + 1][1]['to_add'] is not ev[k][2]:      # (name:returned, arguments, result)
            return False
    return True


M.contract(P_INCLUDE, event='include-files',
           params=dict(self=IMPL, inclusion_directive=PARSED_INCLUSION), ghosts=dict(orig=Str),
           requires=lambda self: section_ok(self) and in_section(self),
           old=lambda self: lists_snapshot(self),
           # (the monitor variables describe the parser call of the CURRENT activation of the element loop: the
           # activations for included files have their own -- at this call site they are what they were)
           modifies=dict({'self._section_name_2_element_list': HavocBy(_havoc_dict_of_lists)},
                         **{k: Dependent(lambda interp, name, env, k=k: interp.st.ghost[k[6:]]) for k in PARSED_GHOSTS}),
           may_raise=(FileAccessError, FileSourceError, PARSER_EXCEPTION),
           ensures={
               'every-list-keeps-its-elements-in-front (included elements are added at the end)':
                   lambda self, old: lists_extended(self, old),
           })
M.loop(P_INCLUDE, 0,
       invariant=lambda self, old, trace, inclusion_directive, _xs, _i: _include_inv(
           self, old, trace, inclusion_directive, _xs, _i),
       modifies={'self._section_name_2_element_list': SECTION_LISTS, 'file_to_include': 'local',
                 'included_doc': 'local'})


# ---- the loop over the elements of a section

P_READ = P_IMPL + '.read_section_elements_until_next_section_or_eof'


def _section_triple(self):
    return (self._name_of_current_section, self._parser_for_current_section, self._elements_for_current_section)


def _read_inv(self, orig, old):
    """old = (lists, section triple, offset) at the call"""
    return impl_ok(self, orig) and in_section(self) and _same_section(self, old[1]) \
        and lists_extended(self, old[0]) and off_of(self._document_source, orig) >= old[2]


def _one_element_step(self, orig, pre, parsed_element, ghost, trace):
    """One iteration: ONE element is parsed -- by the parser of the current section, at the position the
    source was at -- and built with the location of the current file; it is appended to the list of the
    current section and nothing else changes; or it is an including directive, and then its files are included
    (the lists only grow at their ends)."""
    if not (ghost['parsed-by'] is self._parser_for_current_section and ghost['parsed-from'] == pre[1]):
        return False
    if not built_from(parsed_element, ghost['parsed-element'], self):
        return False
    if isinstance(parsed_element, model.SectionContentElement):
        name = self._name_of_current_section
        d = self._section_name_2_element_list
        return is_concat(self._elements_for_current_section, slot(pre[0], name), [parsed_element]) \
            and other_lists_unchanged(self, pre[0], but=name) \
            and not any(e[0] == 'include-files' for e in trace)
    included = [e for e in trace if e[0] == 'include-files']
    return len(included) == 1 and included[0][1]['self'] is self \
        and included[0][1]['inclusion_directive'] is parsed_element and lists_extended(self, pre[0])


def _kept(attr):
    return Dependent(lambda interp, name, env: getattr(env['self'], attr))


M.contract(P_READ,
           params=dict(self=IMPL), ghosts=dict(orig=Str),
           requires=lambda self, orig: impl_ok(self, orig) and in_section(self),
           old=lambda self, orig: (lists_snapshot(self), _section_triple(self), off_of(self._document_source, orig)),
           # (the three fields of the current section are re-bound by the havoc of the loop head -- to values the
           # invariant says are the old ones: at call sites they stay what they are)
           modifies=dict(frame(**{'self': dict(_current_line=Opt(Inst(Line, _tuple=[Int, Str])),
                                               _name_of_current_section=_kept('_name_of_current_section'),
                                               _parser_for_current_section=_kept('_parser_for_current_section'),
                                               _elements_for_current_section=_kept('_elements_for_current_section')),
                                  'self._document_source': PS_FRAME,
                                  'self._section_name_2_element_list': HavocBy(_havoc_dict_of_lists)}),
                         **PARSED_GHOSTS),
           raises={FileSourceError: {'shape': FILE_SOURCE_ERROR, 'ensures': (lambda self, exc, trace:
                   # from an included file, or: about lines of this file, naming the current section
                   any(e[0] == 'include-files' for e in trace)
                   or (located_in_current_file(exc.source_location_info, self, exc.source)
                       and exc.maybe_section_name is self._name_of_current_section), NEVER_ASSUMED)}},
           may_raise=(FileAccessError, PARSER_EXCEPTION),
           ensures={
               'well-formed-same-section-lists-only-extended': lambda self, orig, old: _read_inv(self, orig, old),
               'stops-at-end-or-at-a-header': lambda self:
               self._current_line is None or is_header(self._current_line.text),
           })
M.loop(P_READ, 0,
       invariant=lambda self, orig, old: _read_inv(self, orig, old),
       pre=lambda self, orig: (lists_snapshot(self), off_of(self._document_source, orig)),
       step=lambda self, orig, pre, parsed_element, ghost, trace:
       _one_element_step(self, orig, pre, parsed_element, ghost, trace),
       modifies=dict(IMPL_FRAME, parsed_element='local', ex='local'))


# ---- the rest of a document; the beginning of a document

P_REST = P_IMPL + '.read_rest_of_document_from_inside_section_or_at_eof'


def _rest_inv(self, orig, old):
    """old = (lists, offset, rest of the object)"""
    return impl_ok(self, orig) and in_section(self) and lists_extended(self, old[0]) \
        and off_of(self._document_source, orig) >= old[1] and _rest_of_impl(self) == old[2]


M.contract(P_REST, event=('read-rest', lambda self: self._name_of_current_section),
           params=dict(self=IMPL), ghosts=dict(orig=Str),
           requires=lambda self, orig: impl_ok(self, orig) and in_section(self),
           old=lambda self, orig: (lists_snapshot(self), off_of(self._document_source, orig), _rest_of_impl(self)),
           modifies=dict({'self': IMPL_STATE}, **PARSED_GHOSTS),
           may_raise=(FileSourceError, FileAccessError, PARSER_EXCEPTION),
           ensures={
               'well-formed-lists-only-extended': lambda self, orig, old: _rest_inv(self, orig, old),
               'the-whole-document-is-read': lambda self: self._current_line is None,
           })
M.loop(P_REST, 0, invariant=lambda self, orig, old: _rest_inv(self, orig, old), modifies=dict(IMPL_FRAME))

M.contract(P_IMPL + '.current_line_is_comment_or_empty', params=dict(self=IMPL), returns=Opt(Any_),
           requires=lambda self: self._current_line is not None,
           ensures={'blank-or-comment (a match object or None)': lambda self, result:
                    iff(result is not None, is_blank(self._current_line.text) or is_comment(self._current_line.text))},
           raises_only=())

P_SKIP = P_IMPL + '.skip_standard_comment_and_empty_lines'


def _skip_inv(self, orig, old):
    return impl_ok(self, orig) and _same_section(self, old[0]) and other_lists_unchanged(self, old[1]) \
        and off_of(self._document_source, orig) >= old[2] and _rest_of_impl(self) == old[3]


M.contract(P_SKIP, params=dict(self=IMPL), ghosts=dict(orig=Str),
           requires=lambda self, orig: impl_ok(self, orig),
           old=lambda self, orig: (_section_triple(self), lists_snapshot(self), off_of(self._document_source, orig),
                                   _rest_of_impl(self)),
           modifies={'self': IMPL_STATE},
           ensures={
               'only-the-source-moved': lambda self, orig, old: _skip_inv(self, orig, old),
               'stops-at-end-or-at-a-line-that-is-neither-blank-nor-comment': lambda self:
               self._current_line is None
               or not (is_blank(self._current_line.text) or is_comment(self._current_line.text)),
           }, raises_only=())
M.loop(P_SKIP, 0, invariant=lambda self, orig, old: _skip_inv(self, orig, old), modifies=dict(IMPL_FRAME))


def initial(self):
    """the state _Impl.__init__ leaves: outside any section, no lists yet"""
    d = self._section_name_2_element_list
    return self._name_of_current_section is None and self._parser_for_current_section is None \
        and conj([k not in d for k in SECTION_NAMES])


def _calls(trace):
    return [(e[0], e[2] if len(e) > 2 else None) for e in trace if e[0] in ('switch-section', 'read-rest')]


M.contract(P_IMPL + '.apply', params=dict(self=IMPL), ghosts=dict(orig=Str),
           requires=lambda self, orig: impl_ok(self, orig) and initial(self),
           old=lambda self: (self._current_line is None,
                             self._current_line is not None and is_header(self._current_line.text),
                             self.configuration.default_section_name, _rest_of_impl(self)),
           modifies=dict({'self': IMPL_STATE}, **PARSED_GHOSTS),
           returns=Dependent(lambda interp, name, bound: bound['self']._section_name_2_element_list),
           raises={FileSourceError: {'shape': FILE_SOURCE_ERROR, 'ensures': (lambda self, orig, old, exc, trace:
                   # an error from further down; or: no header first, no default section, and after the comments
                   # and blank lines there is something that is not a header
                   _calls(trace) != []
                   or (old[2] is None and not old[1] and has_line(self._document_source)
                       and not is_header(self._document_source._current_line_text)
                       and error_is_about_current_line(exc, self) and exc.maybe_section_name is None), NEVER_ASSUMED)}},
           may_raise=(FileAccessError, PARSER_EXCEPTION),
           ensures={
               'an-empty-document-has-no-sections': lambda result, old: (not old[0]) or len(result) == 0,
               'otherwise-the-lists-built-by-reading-the-whole-document': lambda self, result, old:
               old[0] or (result is self._section_name_2_element_list
                          and (self._current_line is None)),
               'header-first: switch to it; else the default section; else skip to the first header':
                   lambda self, old, trace:
                   old[0]
                   or ([c[0] for c in _calls(trace)] == ['switch-section', 'read-rest']
                       if old[1] else
                       (_calls(trace) == [('read-rest', old[2])] if old[2] is not None else
                        [c[0] for c in _calls(trace)] in ([], ['switch-section', 'read-rest']))),
           })


# ============================================================================== bounded stand-in (DESIGN 2.6)

@M.bounded('assembled document parser on all small documents')
def _assembled_parser_on_small_documents(ctx):
    from contracts import C07_bounded
    C07_bounded.run(ctx)


# ============================================================================== the act phase parser

from exactly_lib.processing.parse import act_phase_source_parser as aps

P_ACT = 'exactly_lib.processing.parse.act_phase_source_parser'
BS = '\\'


def un_escaped_at_beginning(s):
    """\\[ -> [ and \\\\ -> \\ at the very beginning, nothing else"""
    if s[:2] == BS + '[':
        return '[' + s[2:]
    if s[:2] == BS + BS:
        return BS + s[2:]
    return s


M.contract(P_ACT + ':_un_escape_at_beginning_of_line', params=dict(s=Str), returns=Str, inline=True,
           ensures={'as-specified': lambda s, result: result == un_escaped_at_beginning(s)}, raises_only=())

M.contract(P_ACT + ':_split_space', params=dict(s=Str),
           returns=FixedList(Str, Str, as_tuple=True),
           ensures={
               'a-split': lambda s, result: result[0] + result[1] == s,
               'leading-white-space-all-of-it': lambda result:
               all_space(result[0]) and (result[1] == '' or not result[1][:1].isspace()),
               'remember-the-split (ghost)': (lambda result, ghost: _remember(ghost, 'space-split', result), 'effect'),
           }, raises_only=())
M.loop(P_ACT + ':_split_space', 0,
       invariant=lambda s, non_space_char_idx:
       0 <= non_space_char_idx and non_space_char_idx <= len(s) and all_space(s[:non_space_char_idx]),
       modifies=dict(non_space_char_idx=Int),
       decreases=lambda s, non_space_char_idx: len(s) - non_space_char_idx)


def _remember(ghost, key, value):
    ghost[key] = value
    return True


def _un_escape_as_specified(s, result, ghost):
    """un-escaping happens after the leading white space only (ghost: the split _split_space returned)"""
    if s == '':
        return result == ''
    if not s[:1].isspace():
        return result == un_escaped_at_beginning(s)
    space, rest = ghost['space-split']
    return space + rest == s and all_space(space) and (rest == '' or not rest[:1].isspace()) \
        and result == space + un_escaped_at_beginning(rest)


M.contract(P_ACT + ':_un_escape', params=dict(s=Str), returns=Str, pure_result=True,
           ensures={
               'leading-space-kept-then-un-escaped-at-the-beginning': (lambda s, result, ghost:
                                                                       _un_escape_as_specified(s, result, ghost),
                                                                       NEVER_ASSUMED),
               'no-newline-appears': lambda s, result: (NL in s) or (NL not in result),
           }, raises_only=())



# ---- the document object; _parse_source

M.contract(P_DP + ':build_document', params=dict(raw_doc=RAW_DOC3),
           ensures={
               'same-sections-in-the-same-order': lambda raw_doc, result:
               list(result.section_2_elements.keys()) == list(raw_doc.keys()),
               'same-elements-in-the-same-order': lambda raw_doc, result:
               all(same_items(result.section_2_elements[k].elements, raw_doc[k]) for k in raw_doc.keys()),
           }, raises_only=())


# ---- the configuration of the test-case parser (finite facts, read from the program)

@M.check('configuration of the test-case parser')
def _test_case_parser_configuration(ctx):
    from exactly_lib.processing.parse import test_case_parser, file_inclusion_directive_parser
    from exactly_lib.processing.instruction_setup import TestCaseParsingSetup, InstructionsSetup
    from exactly_lib.section_document.element_parsers import optional_description_and_instruction_parser as odi

    act_parser = object()
    setup = TestCaseParsingSetup(lambda s: s, InstructionsSetup(), act_parser)
    parser = test_case_parser.new_parser(setup)
    conf = parser._Parser__section_document_parser._configuration
    ctx.obligation('the sections are the phases, in phase order',
                   tuple(conf.section2parser.keys()) == SECTION_NAMES, 'enumeration',
                   detail={'sections': list(conf.section2parser.keys())})
    ctx.obligation('before any header: the act phase',
                   phase_identifier.DEFAULT_PHASE is phase_identifier.ACT
                   and conf.default_section_name == phase_identifier.ACT.section_name, 'enumeration',
                   detail={'default': conf.default_section_name})
    ctx.obligation('the act phase is read by the act phase parser of the setup',
                   conf.section2parser[phase_identifier.ACT.section_name] is act_parser, 'enumeration')
    for name in SECTION_NAMES:
        if name == phase_identifier.ACT.section_name:
            continue
        p = conf.section2parser[name]
        kinds = [type(x) for x in getattr(p, '_parsers_to_try', [])]
        ctx.obligation('phase %s: comments/blank lines, then including directives, then instructions (with optional '
                       'description)' % name,
                       isinstance(p, sep.ParserFromSequenceOfParsers)
                       and kinds == [sep.StandardSyntaxCommentAndEmptyLineParser,
                                     file_inclusion_directive_parser.FileInclusionDirectiveParser,
                                     odi.InstructionWithOptionalDescriptionParser], 'enumeration',
                       detail={'parsers': [k.__name__ for k in kinds]})


# ============================================================================== nothing may follow the program of [act]
# impls/actors/program/parse.py: after the PROGRAM of the act phase has been parsed, `_syntax_error_if_not_at_eof`
# accepts the rest of the source only if it is white space (blank lines); anything else is a ParseException
# ("Superfluous arguments").  Stated over the ghost view of the ParseSource.  (Seeded change C03-s3 removes the
# recursive call: superfluous lines after a blank rest of line are then accepted -- `returns-only-if-...` fails.)

from exactly_lib.test_case.phases.act.actor import ParseException

P_EOF = 'exactly_lib.impls.actors.program.parse:_syntax_error_if_not_at_eof'


def rest_of(source, orig):
    """the text that has not been consumed"""
    return orig[off_of(source, orig):]


M.contract(P_EOF, event=('syntax-error-if-not-at-eof', lambda source, orig: len(rest_of(source, orig))),
           params=dict(source=PARSE_SOURCE), ghosts=dict(orig=Str),
           requires=lambda source, orig: RI(source, orig),
           old=lambda source, orig: (off_of(source, orig), len(rest_of(source, orig))),
           modifies=frame(source=PS_FRAME),
           raises={ParseException: {'when': lambda source, orig: not all_space(rest_of(source, orig))}},
           ensures={
               'returns-only-if-nothing-but-white-space-remained (blank lines)': lambda source, orig, old:
               all_space(orig[old[0]:]),
               'everything-is-consumed': lambda source, orig: RI(source, orig) and rest_of(source, orig) == '',
               # termination: the recursive call (a ghost event of this contract, with the length of what remains
               # at the call) is made on a strictly shorter rest
               'terminates: every recursive call is on a strictly shorter rest': lambda old, trace:
               all(e[2] < old[1] for e in trace if e[0] == 'syntax-error-if-not-at-eof'),
           }, raises_only=())


# ============================================================================== instructions with optional description

from exactly_lib.section_document.element_parsers import optional_description_and_instruction_parser as odi

P_ODI = 'exactly_lib.section_document.element_parsers.optional_description_and_instruction_parser'

DESCRIPTION_EXTRACTOR = Inst(odi._DescriptionExtractor, source=PARSE_SOURCE, remaining_source=Str)


@element_level_only
def _extractor_ok(source, remaining_source, orig):
    """an extractor whose remaining_source is the unconsumed text of its source (possibly none: the rest of the
    last line was white space, and the file does not end with a line break)"""
    return RI(source, orig) and has_line(source) and remaining_source == orig[off_of(source, orig):]


M.contract(P_ODI + ':_DescriptionExtractor.__init__', inline=NOT_IN_DOCUMENT_PARSER,
           params=dict(self=Inst(odi._DescriptionExtractor), source=PARSE_SOURCE), ghosts=dict(orig=Str),
           # (nothing is required of the rest of the current line: the parsers that come before this one in a phase
           # only take lines of spaces and tabs, so a line of OTHER white space -- form feed, vertical tab, no-break
           # space -- arrives here; see notes/C07.md, defect 1, and the refuted raises_only of `apply` below)
           requires=lambda source, orig: RI(source, orig) and has_line(source)
           and source._current_line_text is not None,
           old=lambda source, orig: (off_of(source, orig), snap(source)),
           modifies={'source._column_index': Int, 'self.source': Dependent(lambda interp, name, env: env['source']),
                     'self.remaining_source': Str},
           ensures={'extractor-over-the-source-after-its-initial-space': lambda self, source, orig, old:
                    self.source is source and _extractor_ok(source, self.remaining_source, orig)
                    and off_of(source, orig) >= old[0] and unchanged_but_column(source, old[1])},
           raises_only=())

M.contract(P_ODI + ':_DescriptionExtractor.apply', event='extract-description',
           params=dict(self=DESCRIPTION_EXTRACTOR), ghosts=dict(orig=Str),
           requires=lambda self, orig: _extractor_ok(self.source, self.remaining_source, orig),
           old=lambda self, orig: off_of(self.source, orig),
           modifies=frame(**{'self.source': PS_FRAME}),
           returns=Opt(Str),
           raises={RecognizedSectionElementSourceError: {'ensures': lambda self, orig, old:
                   RI(self.source, orig) and off_of(self.source, orig) >= old}},
           ensures={'source-well-formed-moved-forward-with-a-current-line': lambda self, orig, old:
                    RI(self.source, orig) and off_of(self.source, orig) >= old and has_line(self.source),
                    'the-current-line-has-a-text': lambda self: line_fields_coherent(self.source)},
           raises_only=())

P_ODI_P = P_ODI + ':InstructionWithOptionalDescriptionParser'
LINE = Inst(Line, _tuple=[Int, Str])

# History: proved on the string engine of branch wC; after the merge with main `loop#0 invariant[preserved]` timed
# out and the contract was ASSUMED.  Extension D7: proved again (flag on) at the DOCUMENT level -- the function only
# calls ParseSource methods and the line-syntax predicates, so RI stays uninterpreted and consume_current_line /
# consume_initial_space_on_current_line are used through their contracts (8 paths, 2 s); the facts of RI that the code
# needs by themselves (a current line has a text, the column is inside it) are the predicate `line_fields_coherent`,
# a postcondition of consume_current_line and of _DescriptionExtractor.apply.  Bounded stand-in kept as cross-check.
_CONSUME_SPACE_AND_COMMENT_LINES_PROOF = True
if not _CONSUME_SPACE_AND_COMMENT_LINES_PROOF:
    M.trust('InstructionWithOptionalDescriptionParser._consume_space_and_comment_lines: contract assumed (proof '
            'switched off on the merged engine, see _CONSUME_SPACE_AND_COMMENT_LINES_PROOF); bounded stand-in: all '
            'texts of <= 6 characters over {a, space, #, line break}, every start offset with a current line')


@M.bounded('_consume_space_and_comment_lines on all small texts')
def _consume_space_and_comment_lines_on_small_texts(ctx):
    from contracts import C07_bounded
    C07_bounded.run_consume_space_and_comment_lines(ctx)


M.contract(P_ODI_P + '._consume_space_and_comment_lines', trusted=not _CONSUME_SPACE_AND_COMMENT_LINES_PROOF,
           params=dict(source=PARSE_SOURCE, first_line=LINE), ghosts=dict(orig=Str),
           requires=lambda source, orig: RI(source, orig) and has_line(source) and line_fields_coherent(source),
           old=lambda source, orig: (off_of(source, orig), source._current_line_number),
           modifies=frame(source=PS_FRAME),
           raises={UNRECOGNIZED: {'ensures': lambda source, orig, old:
                   RI(source, orig) and off_of(source, orig) >= old[0]}},
           ensures={'source-well-formed-moved-forward-with-a-current-line': lambda source, orig, old:
                    RI(source, orig) and off_of(source, orig) >= old[0] and has_line(source),
                    'the-current-line-has-a-text': lambda source: line_fields_coherent(source),
                    # (D7) "comments and blank lines between elements are ignored": it stops on the line it was on
                    # (something is left on it) or on a line that is neither blank nor a comment, after its space
                    'stops-on-the-first-line-or-on-a-line-that-is-neither-blank-nor-comment': lambda source, old:
                    source._current_line_number == old[1]
                    or not (is_blank(source._current_line_text) or is_comment(source._current_line_text)),
                    'initial-space-of-that-line-is-skipped': lambda source:
                    source._column_index == len(source._current_line_text)
                    or not source._current_line_text[source._column_index].isspace()},
           raises_only=())
if _CONSUME_SPACE_AND_COMMENT_LINES_PROOF:
    M.loop(P_ODI_P + '._consume_space_and_comment_lines', 0,
           invariant=lambda source, orig, old: RI(source, orig) and off_of(source, orig) >= old[0]
           and line_fields_coherent(source),
           modifies={'source._column_index': Int, 'source.source_string': Str,
                     'source._current_line_number': Opt(Int), 'source._current_line_text': Opt(Str),
                     'line_in_error_message': LINE})

ODI_PARSER = Inst(odi.InstructionWithOptionalDescriptionParser, instruction_parser=Iface(InstructionParserI))

M.contract(P_ODI_P + '.parse',
           params=dict(self=ODI_PARSER, fs_location_info=Any_, source=PARSE_SOURCE), ghosts=dict(orig=Str),
           # (called on a line that the comment / blank-line parser did not take: not only spaces and tabs; it may
           # still be white space only -- the case in which _DescriptionExtractor.apply fails, defect 1)
           requires=lambda source, orig: RI(source, orig) and has_line(source)
           and source._current_line_text is not None,
           old=lambda source, orig: (snap(source), off_of(source, orig)),
           modifies=dict(frame(source=PS_FRAME), **INSTRUCTION_GHOST),
           # works on a copy: whatever goes wrong, the source itself is untouched (what the sequence of parsers
           # relies on for UnrecognizedSectionElementSourceError; here: for every exception)
           raises={PARSER_EXCEPTION: {'ensures': lambda source, old: unchanged(source, old[0])},
                   SectionElementError: {'ensures': lambda source, old: unchanged(source, old[0])}},
           ensures={
               'source-well-formed-and-moved-forward': lambda source, orig, old:
               RI(source, orig) and off_of(source, orig) >= old[1],
               'the-lines-of-the-element-are-the-text-the-instruction-parser-consumed (after the description)':
                   lambda result, source, orig, old, trace: _element_is_instruction_text(result, source, orig, old[1], trace),
               'the-instruction-is-what-the-instruction-parser-returned': lambda result, ghost:
               result.instruction_info.instruction is ghost['parsed-instruction'],
               'the-description-is-what-the-description-extractor-returned': lambda result, trace:
               [_same_opt(result.instruction_info.description, e[2]) for e in trace
                if e[0] == 'extract-description:returned'] == [True],
           }, raises_only=())


def _element_is_instruction_text(result, source, orig, old_off, trace):
    """start: the offset at which parse_and_compute_source was called (ghost event) -- after the description,
    comments and space; the element's lines are the text from there to where the source is now, its first line
    number is that of `start`"""
    starts = [e[2] for e in trace if e[0] == 'parse-and-compute-source']
    if len(starts) != 1:
        return False
    start = starts[0]
    return start >= old_off and len(result.source.lines) >= 1 \
        and NL.join(result.source.lines) == without_final_newline(orig[start:off_of(source, orig)]) \
        and result.source.first_line_number == line_number_at(orig, start)
