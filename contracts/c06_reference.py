"""Reference definition of the expression language (C06), independent of the real parser.

Used by the bounded stand-in of contracts/C06_expression.py.  Written from the documented syntax
(built-in help: syntax of type expressions; test-case file syntax "expressions inside parentheses may
span several lines"), not from impls/types/expression/parser.py:

  EXPR    ::= AND-EXPR ( `||` AND-EXPR )*         lowest precedence       (matchers)
  AND-EXPR::= PRIM ( `&&` PRIM )*
  EXPR    ::= PRIM ( `|` PRIM )*                                           (transformers)
  PRIM    ::= `(` EXPR `)`  |  `!` PRIM (matchers)  |  PRIMITIVE
  SIMPLE  ::= PRIM                                 ("simple" contexts: no infix operator outside parentheses)

Tokens are separated by white space; operators and parentheses are tokens of their own and must not be
quoted.  Layout: inside parentheses line breaks may appear between any two tokens; outside parentheses an
infix operator must stand on the line where its left operand ends, the operand that follows an (infix or
prefix) operator may start on a later line.  Reading an expression stops in front of the first token that
cannot continue it (the caller decides what the rest is); a token that cannot start a mandatory operand,
or a missing `)`, is a syntax error.

Evaluation: `!` negates; `&&` / `||` evaluate their operands from left to right and stop at the first
False / True; `|` applies the transformers from left to right.
"""
import itertools

OR, AND, NOT, SEQ = '||', '&&', '!', '|'


class Malformed(Exception):
    pass


class Tok:
    __slots__ = ('text', 'line', 'quoted')

    def __init__(self, text, line, quoted):
        self.text, self.line, self.quoted = text, line, quoted

    def is_(self, s):
        return (not self.quoted) and self.text == s


def tokenize(source):
    """white-space separated words with their line; a word in double quotes is a quoted token"""
    toks = []
    for ln, line in enumerate(source.split('\n')):
        for w in line.split():
            if len(w) >= 2 and w[0] == '"' and w[-1] == '"':
                toks.append(Tok(w[1:-1], ln, True))
            else:
                toks.append(Tok(w, ln, False))
    return toks


class Language:
    """levels: infix operators in order of increasing precedence (one operator per level);
    leaves: the primitives that may occur, as token tuples"""

    def __init__(self, levels, prefix, leaves):
        self.levels = list(levels)
        self.prefix = prefix
        self.leaves = sorted({tuple(l.split()) for l in leaves}, key=len, reverse=True)


def read(lang, toks, simple=False):
    """-> (tree, number of tokens read).  tree: ('leaf', text) | ('not', t) | (operator, [t, ...])"""

    def at(i, s):
        return i < len(toks) and toks[i].is_(s)

    def infix_here(i, op, inside):
        # outside parentheses the operator must be on the line where the left operand ended
        return at(i, op) and (inside or toks[i].line == toks[i - 1].line)

    def level(i, k, inside):
        if k == len(lang.levels):
            return prim(i)
        op = lang.levels[k]
        first, i = level(i, k + 1, inside)
        operands = [first]
        while infix_here(i, op, inside):
            nxt, i = level(i + 1, k + 1, inside)
            operands.append(nxt)
        return (first if len(operands) == 1 else (op, operands)), i

    def prim(i):
        if i >= len(toks):
            raise Malformed('missing operand')
        if at(i, '('):
            e, i = level(i + 1, 0, True)
            if not at(i, ')'):
                raise Malformed('missing )')
            return e, i + 1
        if lang.prefix is not None and at(i, lang.prefix):
            e, i = prim(i + 1)
            return ('not', e), i
        for leaf in lang.leaves:
            n = len(leaf)
            if i + n <= len(toks) and all(toks[i + j].is_(leaf[j]) for j in range(n)) \
                    and all(toks[i + j].line == toks[i].line for j in range(n)):
                return ('leaf', ' '.join(leaf)), i + n
        raise Malformed('not a primitive: %r' % toks[i].text)

    return prim(0) if simple else level(0, 0, False)


def evaluate(tree, leaf_value):
    """lazy left-to-right: -> (value, [leaf texts in the order evaluated])"""
    kind = tree[0]
    if kind == 'leaf':
        return leaf_value[tree[1]], [tree[1]]
    if kind == 'not':
        v, seen = evaluate(tree[1], leaf_value)
        return (not v), seen
    seen = []
    for t in tree[1]:
        v, s = evaluate(t, leaf_value)
        seen += s
        if kind == AND and not v:
            return False, seen
        if kind == OR and v:
            return True, seen
    return kind == AND, seen


def leaves_in_order(tree):
    if tree[0] == 'leaf':
        return [tree[1]]
    if tree[0] == 'not':
        return leaves_in_order(tree[1])
    return [x for t in tree[1] for x in leaves_in_order(t)]


# ------------------------------------------------------------------------------ generation

def shapes(depth, width, operators, with_not):
    """every tree shape of the given depth/width; leaves are ('leaf', None)"""
    if depth == 0:
        return [('leaf', None)]
    sub = shapes(depth - 1, width, operators, with_not)
    out = [('leaf', None)]
    if with_not:
        out += [('not', s) for s in sub]
    for op in operators:
        for k in range(2, width + 1):
            out += [(op, list(c)) for c in itertools.product(sub, repeat=k)]
    # drop duplicates (a shape of smaller depth is also generated at this depth through `sub`)
    seen, uniq = set(), []
    for s in out:
        r = repr(s)
        if r not in seen:
            seen.add(r)
            uniq.append(s)
    return uniq


def count_leaves(shape):
    return len(leaves_in_order(shape))


def with_leaves(shape, texts):
    it = iter(texts)

    def go(s):
        if s[0] == 'leaf':
            return ('leaf', next(it))
        if s[0] == 'not':
            return ('not', go(s[1]))
        return (s[0], [go(c) for c in s[1]])

    return go(shape)


def nodes(tree, path=()):
    yield path
    if tree[0] == 'not':
        yield from nodes(tree[1], path + (0,))
    elif tree[0] != 'leaf':
        for i, c in enumerate(tree[1]):
            yield from nodes(c, path + (i,))


_PREC = {OR: 1, SEQ: 1, AND: 2, 'not': 3, 'leaf': 4}


def unparse(tree, extra_parens=()):
    """-> list of (token text, leaf-internal?) ; parentheses where the precedences demand them and
    around every node whose path is in extra_parens (once per occurrence in that sequence)"""
    extra = list(extra_parens)

    def go(t, path, min_prec):
        if t[0] == 'leaf':
            ws = t[1].split()
            toks = [(w, j > 0) for j, w in enumerate(ws)]
        elif t[0] == 'not':
            toks = [(NOT, False)] + go(t[1], path + (0,), 3)
        else:
            toks = []
            for i, c in enumerate(t[1]):
                if i:
                    toks.append((t[0], False))
                # a same-operator child needs no parentheses (reads as one flat sequence: same value)
                toks += go(c, path + (i,), _PREC[t[0]])
        n = extra.count(path) + (1 if _PREC[t[0]] < min_prec else 0)
        for _ in range(n):
            toks = [('(', False)] + toks + [(')', False)]
        return toks

    return go(tree, (), 0)


def gap_kinds(toks, infix_ops):
    """for each gap between toks[j] and toks[j+1]: 'leaf' (inside a primitive: never broken),
    'free' (a line break is permitted) or 'ends' (outside parentheses in front of an infix operator:
    a line break there ends the expression)"""
    kinds = []
    depth = 0
    for j in range(len(toks) - 1):
        w, _ = toks[j]
        if w == '(':
            depth += 1
        elif w == ')':
            depth -= 1
        nxt, nxt_internal = toks[j + 1]
        if nxt_internal:
            kinds.append('leaf')
        elif depth == 0 and nxt in infix_ops:
            kinds.append('ends')
        else:
            kinds.append('free')
    return kinds


def render(toks, gaps):
    out = []
    for j, (w, _) in enumerate(toks):
        out.append(w)
        if j < len(toks) - 1:
            out.append(gaps[j])
    return ''.join(out)


def layouts(toks, infix_ops, pairs=False):
    """(name, source text) for: single spaces; each gap doubled; a line break at each single position where
    one is permitted; at all of them; (pairs: at every two of them); and at each position where it is NOT
    permitted (outside parentheses, before an infix operator)"""
    kinds = gap_kinds(toks, infix_ops)
    base = [' '] * len(kinds)
    yield 'plain', render(toks, base)
    free = [j for j, k in enumerate(kinds) if k == 'free']
    ends = [j for j, k in enumerate(kinds) if k == 'ends']
    for j in range(len(kinds)):
        if kinds[j] != 'leaf':
            g = list(base)
            g[j] = '  '
            yield 'double-space@%d' % j, render(toks, g)
    for j in free:
        g = list(base)
        g[j] = '\n'
        yield 'line-break@%d' % j, render(toks, g)
        g[j] = ' \n  '
        yield 'line-break-with-spaces@%d' % j, render(toks, g)
    if len(free) > 1:
        g = list(base)
        for j in free:
            g[j] = '\n'
        yield 'line-break@all', render(toks, g)
    if pairs:
        for a, b in itertools.combinations(free, 2):
            g = list(base)
            g[a] = g[b] = '\n'
            yield 'line-break@%d,%d' % (a, b), render(toks, g)
    for j in ends:
        g = list(base)
        g[j] = '\n'
        yield 'not-permitted-line-break@%d' % j, render(toks, g)


def units_of(toks):
    """expression-level units: an operator, a parenthesis, or a whole primitive"""
    units = []
    for w, internal in toks:
        if internal:
            units[-1] = units[-1] + ' ' + w
        else:
            units.append(w)
    return units


def malformed_variants(toks, operators):
    """damage, at the level of operators / parentheses / whole primitives, to a well-formed single-line
    expression (what the result must be is decided by `read`: a syntax error, or an expression that ends
    early -- never another reading)"""
    units = units_of(toks)
    n = len(units)
    special = set(operators) | {'(', ')'}
    for j in range(n):
        yield 'delete@%d' % j, ' '.join(units[:j] + units[j + 1:])
    for j in range(n + 1):
        for op in list(operators) + ['(', ')']:
            yield 'insert %s@%d' % (op, j), ' '.join(units[:j] + [op] + units[j:])
    for j in range(n):
        if units[j] in special:
            yield 'quote@%d' % j, ' '.join(units[:j] + ['"%s"' % units[j]] + units[j + 1:])
    for j in range(n):
        if units[j] not in special:
            # the name of a primitive must not be quoted either
            first, _, rest = units[j].partition(' ')
            yield 'quote primitive@%d' % j, ' '.join(units[:j] + [('"%s" %s' % (first, rest)).strip()] + units[j + 1:])
    for j in range(n - 1):
        if units[j] != units[j + 1]:
            yield 'swap@%d' % j, ' '.join(units[:j] + [units[j + 1], units[j]] + units[j + 2:])
