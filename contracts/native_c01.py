"""Native fault injection for C01 / C03 (bounded cross-check and replay harness; DESIGN 3/C01 "Replay").

Stub instructions (subclasses of SetupPhaseInstruction, ...), a stub Actor / ActionToCheck, passed through the
public test_case_doc.TestCase to the real exactly_lib.execution.full_execution.execution.execute, in a real
temporary sandbox.  Every stub method records a call; one *fault* (or a fault plus a failing cleanup
instruction) is injected; the clauses of the property are evaluated on the recorded calls and the result.

Runs natively (no pyvc import): usable from a replay script under /venv/bin/python.
"""
import itertools
import os
import pathlib
import shutil
import tempfile

from exactly_lib.execution import phase_step as S
from exactly_lib.execution.configuration import ExecutionConfiguration
from exactly_lib.execution.full_execution import execution as full_execution
from exactly_lib.execution.full_execution.result import FullExeResultStatus
from exactly_lib.impls.os_services import os_services_access
from exactly_lib.section_document import model
from exactly_lib.section_document.source_location import SourceLocationInfo, SourceLocationPath, SourceLocation
from exactly_lib.symbol.sdv_structure import SymbolReference
from exactly_lib.test_case import test_case_doc
from exactly_lib.test_case.hard_error import HardErrorException
from exactly_lib.test_case.phases.act.actor import Actor, ActionToCheck, ParseException
from exactly_lib.test_case.phases.act.instruction import ActPhaseInstruction
from exactly_lib.test_case.phases.assert_ import AssertPhaseInstruction
from exactly_lib.test_case.phases.before_assert import BeforeAssertPhaseInstruction
from exactly_lib.test_case.phases.cleanup import CleanupPhaseInstruction, PreviousPhase
from exactly_lib.test_case.phases.configuration import ConfigurationPhaseInstruction, ConfigurationBuilder
from exactly_lib.test_case.phases.setup.instruction import SetupPhaseInstruction
from exactly_lib.test_case.result import svh, sh, pfh, eh
from exactly_lib.test_case.test_case_status import TestCaseStatus
from exactly_lib.common.report_rendering import text_docs
from exactly_lib.util.line_source import LineSequence
from exactly_lib.util.name_and_value import NameAndValue

MSG = text_docs.single_pre_formatted_line_object('injected')

# kinds of failure and the status each must be reported with
VALIDATION_ERROR, HARD_ERROR_RETURNED, HARD_ERROR_RAISED, FAIL, EXCEPTION, PARSE_EXCEPTION, UNDEFINED_SYMBOL = \
    'validation error', 'hard error returned', 'hard error raised', 'assertion failure', 'arbitrary exception', \
    'parse exception', 'undefined symbol'
STATUS_OF_KIND = {VALIDATION_ERROR: 'VALIDATION_ERROR', HARD_ERROR_RETURNED: 'HARD_ERROR',
                  HARD_ERROR_RAISED: 'HARD_ERROR', FAIL: 'FAIL', EXCEPTION: 'INTERNAL_ERROR',
                  PARSE_EXCEPTION: 'SYNTAX_ERROR', UNDEFINED_SYMBOL: 'VALIDATION_ERROR'}

CANONICAL = [
    S.ACT__PARSE,
    S.SETUP__VALIDATE_SYMBOLS, S.ACT__VALIDATE_SYMBOLS, S.BEFORE_ASSERT__VALIDATE_SYMBOLS,
    S.ASSERT__VALIDATE_SYMBOLS, S.CLEANUP__VALIDATE_SYMBOLS,
    S.SETUP__VALIDATE_PRE_SDS, S.ACT__VALIDATE_PRE_SDS, S.BEFORE_ASSERT__VALIDATE_PRE_SDS,
    S.ASSERT__VALIDATE_PRE_SDS, S.CLEANUP__VALIDATE_PRE_SDS,
    S.SETUP__MAIN,
    S.SETUP__VALIDATE_POST_SETUP, S.ACT__VALIDATE_POST_SETUP, S.BEFORE_ASSERT__VALIDATE_POST_SETUP,
    S.ASSERT__VALIDATE_POST_SETUP,
    S.ACT__PREPARE, S.ACT__EXECUTE,
    S.BEFORE_ASSERT__MAIN, S.ASSERT__MAIN,
]
FIRST_POST_SDS = CANONICAL.index(S.SETUP__MAIN)
INSTRUCTION_STEPS = [s for s in CANONICAL if s.phase.identifier != 'act']
ATC_STEPS = [s for s in CANONICAL if s.phase.identifier == 'act']


class Fault:
    def __init__(self, step, position, kind):
        self.step, self.position, self.kind = step, position, kind

    def __repr__(self):
        return 'Fault(%s, %r, %r)' % (self.step, self.position, self.kind)


class Run:
    """one execution: the faults to inject and what is observed"""

    def __init__(self, faults):
        self.faults = faults
        self.calls = []      # (step, position, extra)
        self.fired = []

    def call(self, step, position, success, extra=None):
        """records the call; returns the injected failure value or raises it, or returns `success`"""
        self.calls.append((step, position, extra))
        for f in self.faults:
            if f.step is step and f.position == position:
                self.fired.append(f)
                if f.kind == HARD_ERROR_RAISED:
                    raise HardErrorException(MSG)
                if f.kind == EXCEPTION:
                    raise ValueError('injected')
                if f.kind == PARSE_EXCEPTION:
                    raise ParseException(MSG)
                if f.kind == VALIDATION_ERROR:
                    return svh.new_svh_validation_error(MSG)
                if f.kind == FAIL:
                    return pfh.new_pfh_fail(MSG)
                if f.kind == UNDEFINED_SYMBOL:
                    return [SymbolReference('undefined_symbol', None)]
                if f.kind == HARD_ERROR_RETURNED:
                    if step.step == S.STEP__ACT__EXECUTE:
                        from exactly_lib.test_case.result.failure_details import FailureDetails
                        return eh.new_eh_hard_error(FailureDetails.new_message(MSG))
                    if step.step == S.STEP__MAIN and step is not S.CONFIGURATION__MAIN:
                        return pfh.new_pfh_hard_error(MSG) if step is S.ASSERT__MAIN else sh.new_sh_hard_error(MSG)
                    if step is S.ACT__PREPARE:
                        return sh.new_sh_hard_error(MSG)
                    return svh.new_svh_hard_error(MSG)
        return success


def _steps(phase):
    return {s.step: s for s in vars(S).values() if isinstance(s, S.PhaseStep) and s.phase.identifier == phase}


class _Base:
    PHASE = None

    def __init__(self, run, position):
        self.run, self.position = run, position
        self.steps = _steps(self.PHASE)

    def symbol_usages(self):
        return self.run.call(self.steps[S.STEP__VALIDATE_SYMBOLS], self.position, [])

    def validate_pre_sds(self, environment):
        return self.run.call(self.steps[S.STEP__VALIDATE_PRE_SDS], self.position, svh.new_svh_success())

    def validate_post_setup(self, environment):
        return self.run.call(self.steps[S.STEP__VALIDATE_POST_SETUP], self.position, svh.new_svh_success())


class SetupI(_Base, SetupPhaseInstruction):
    PHASE = 'setup'

    def main(self, environment, settings, os_services, settings_builder):
        return self.run.call(S.SETUP__MAIN, self.position, sh.new_sh_success())


class BeforeAssertI(_Base, BeforeAssertPhaseInstruction):
    PHASE = 'before-assert'

    def main(self, environment, settings, os_services):
        return self.run.call(S.BEFORE_ASSERT__MAIN, self.position, sh.new_sh_success())


class AssertI(_Base, AssertPhaseInstruction):
    PHASE = 'assert'

    def main(self, environment, settings, os_services):
        return self.run.call(S.ASSERT__MAIN, self.position, pfh.new_pfh_pass())


class CleanupI(_Base, CleanupPhaseInstruction):
    PHASE = 'cleanup'

    def main(self, environment, settings, os_services, previous_phase):
        return self.run.call(S.CLEANUP__MAIN, self.position, sh.new_sh_success(), previous_phase)


class ConfI(ConfigurationPhaseInstruction):
    def __init__(self, run, position, status):
        self.run, self.position, self.status = run, position, status

    def main(self, configuration_builder):
        configuration_builder.set_test_case_status(self.status)
        return self.run.call(S.CONFIGURATION__MAIN, self.position, svh.new_svh_success())


class ActI(ActPhaseInstruction):
    def source_code(self):
        return LineSequence(1, ['act'])


class TheAtc(ActionToCheck):
    def __init__(self, run):
        self.run = run

    def symbol_usages(self):
        return self.run.call(S.ACT__VALIDATE_SYMBOLS, None, [])

    def validate_pre_sds(self, environment):
        return self.run.call(S.ACT__VALIDATE_PRE_SDS, None, svh.new_svh_success())

    def validate_post_setup(self, environment):
        return self.run.call(S.ACT__VALIDATE_POST_SETUP, None, svh.new_svh_success())

    def prepare(self, environment, os_services):
        return self.run.call(S.ACT__PREPARE, None, sh.new_sh_success())

    def execute(self, environment, os_services, atc_input, output_files):
        return self.run.call(S.ACT__EXECUTE, None, eh.new_eh_exit_code(7))


class TheActor(Actor):
    def __init__(self, run):
        self.run = run

    def parse(self, instructions):
        return self.run.call(S.ACT__PARSE, None, TheAtc(self.run))


def _element(instruction):
    loc = SourceLocationInfo(pathlib.Path('/'), SourceLocationPath(SourceLocation(LineSequence(1, ['line']), None), ()))
    return model.SectionContentElement(model.ElementType.INSTRUCTION, model.InstructionInfo(instruction), loc)


def _comment():
    loc = SourceLocationInfo(pathlib.Path('/'), SourceLocationPath(SourceLocation(LineSequence(1, ['#']), None), ()))
    return model.SectionContentElement(model.ElementType.COMMENT, None, loc)


def _contents(instructions):
    elements = [_comment()]
    for i in instructions:
        elements += [_element(i), _comment()]
    return model.SectionContents(tuple(elements))


def execute(faults, n, status=TestCaseStatus.PASS, skip_assertions=False):
    """Runs the real full execution of a test case with n instructions per phase; -> (Run, FullExeResult)"""
    run = Run(faults)
    tc = test_case_doc.TestCase(
        _contents([ConfI(run, i, status) for i in range(n)]),
        _contents([SetupI(run, i) for i in range(n)]),
        _contents([ActI()]),
        _contents([BeforeAssertI(run, i) for i in range(n)]),
        _contents([AssertI(run, i) for i in range(n)]),
        _contents([CleanupI(run, i) for i in range(n)]))
    root = tempfile.mkdtemp(prefix='c01-native-')
    cwd = os.getcwd()
    try:
        null = open(os.devnull, 'w')
        from exactly_lib.util.file_utils.std import StdOutputFiles
        conf = ExecutionConfiguration(dict, None, None, os_services_access.new_for_current_os(),
                                      lambda: tempfile.mkdtemp(prefix='sds-', dir=root), 1024,
                                      exe_atc_and_skip_assertions=StdOutputFiles(null, null) if skip_assertions else None)
        builder = ConfigurationBuilder(pathlib.Path(root), pathlib.Path(root), NameAndValue('stub actor', TheActor(run)))
        result = full_execution.execute(conf, builder, False, tc)
        run.sandboxes_left = os.listdir(root)
        null.close()
        return run, result
    finally:
        os.chdir(cwd)
        shutil.rmtree(root, ignore_errors=True)


# ------------------------------------------------------------------------------------ the clauses, natively

def check(run, result, n, status, skip_assertions=False):
    """-> list of violated clauses (empty: the execution satisfies the property)"""
    bad = []
    calls = run.calls
    conf_calls = [c for c in calls if c[0] is S.CONFIGURATION__MAIN]
    rest = [c for c in calls if c[0] is not S.CONFIGURATION__MAIN]
    conf_failed = any(f.step is S.CONFIGURATION__MAIN for f in run.fired)
    # conf/main first
    if calls[:len(conf_calls)] != conf_calls:
        bad.append('conf/main first')
    if conf_failed or status is TestCaseStatus.SKIP:
        if rest:
            bad.append('conf failure / SKIP end the execution')
        if status is TestCaseStatus.SKIP and not conf_failed and result.status is not FullExeResultStatus.SKIPPED:
            bad.append('SKIP -> SKIPPED')
    forward = [c for c in rest if c[0] is not S.CLEANUP__MAIN]
    cleanup = [c for c in rest if c[0] is S.CLEANUP__MAIN]
    # order: steps in the documented order, within a step the instructions in file order, each once
    seq = [(c[0], c[1]) for c in forward]
    expected = []
    canonical = CANONICAL[:CANONICAL.index(S.ACT__EXECUTE) + 1] if skip_assertions else CANONICAL
    for s in canonical:
        expected += [(s, None)] if s in ATC_STEPS else [(s, i) for i in range(n)]
    if seq != expected[:len(seq)]:
        bad.append('order')
    # halt: nothing after the first failing forward step; progress: everything unless a step fails
    fired_forward = [f for f in run.fired if f.step not in (S.CLEANUP__MAIN, S.CONFIGURATION__MAIN)]
    if fired_forward:
        if seq and seq[-1] != (fired_forward[0].step, fired_forward[0].position):
            bad.append('halt')
    elif not conf_failed and status is not TestCaseStatus.SKIP and seq != expected:
        bad.append('progress')
    # cleanup: exactly once (all its instructions in order, up to the first failing) iff the sandbox exists
    sandbox_exists = any(c[0] in CANONICAL[FIRST_POST_SDS:] for c in forward)
    fired_cleanup = [f for f in run.fired if f.step is S.CLEANUP__MAIN]
    if sandbox_exists:
        stop = fired_cleanup[0].position + 1 if fired_cleanup else n
        if [c[1] for c in cleanup] != list(range(stop)) or rest[-len(cleanup):] != cleanup:
            bad.append('cleanup exactly once, last')
        last = forward[-1][0]
        told = (PreviousPhase.ASSERT if last is S.ASSERT__MAIN else PreviousPhase.BEFORE_ASSERT
                if last is S.BEFORE_ASSERT__MAIN else PreviousPhase.ACT if last is S.ACT__EXECUTE
                else PreviousPhase.SETUP)
        if any(c[2] is not told for c in cleanup):
            bad.append('cleanup told the phase that ran last')
    elif cleanup:
        bad.append('no cleanup without sandbox')
    if result.has_sds != sandbox_exists:
        bad.append('has_sds iff sandbox')
    if run.sandboxes_left:
        bad.append('sandbox removed')
    # outcome
    fired = run.fired
    if not fired:
        want = {TestCaseStatus.PASS: 'PASS', TestCaseStatus.FAIL: 'XPASS', TestCaseStatus.SKIP: 'SKIPPED'}[status]
        if result.status.name != want or result.failure_info is not None:
            bad.append('outcome: success')
    else:
        candidates = [fired[0]] + fired_cleanup[:1]
        ok = False
        for f in candidates:
            name = STATUS_OF_KIND[f.kind]
            if name == 'FAIL' and status is TestCaseStatus.FAIL:
                name = 'XFAIL'
            if result.status.name == name and result.failure_info is not None \
                    and result.failure_info.phase_step is f.step:
                ok = True
        if not ok:
            bad.append('outcome: earliest failure or cleanup failure, with its kind')
        if result.status in (FullExeResultStatus.PASS, FullExeResultStatus.XPASS):
            bad.append('never success when a step failed')
    executed = [c for c in forward if c[0] is S.ACT__EXECUTE] and not any(f.step is S.ACT__EXECUTE for f in fired)
    if bool(executed) != (result.action_to_check_outcome is not None):
        bad.append('atc outcome iff executed')
    # C03: a failure before the sandbox: nothing but parse / validation has run
    if fired_forward and fired_forward[0].step in CANONICAL[:FIRST_POST_SDS]:
        if sandbox_exists or any(c[0] not in CANONICAL[:FIRST_POST_SDS] for c in rest) \
                or result.status.name not in ('SYNTAX_ERROR', 'VALIDATION_ERROR', 'HARD_ERROR', 'INTERNAL_ERROR'):
            bad.append('C03: invalid case has no effects')
    return bad


def kinds_for(step):
    if step is S.ACT__PARSE:
        return [PARSE_EXCEPTION, HARD_ERROR_RAISED, EXCEPTION]
    if step.step == S.STEP__VALIDATE_SYMBOLS:
        return [UNDEFINED_SYMBOL, HARD_ERROR_RAISED, EXCEPTION]
    if step.step in (S.STEP__VALIDATE_PRE_SDS, S.STEP__VALIDATE_POST_SETUP) or step is S.CONFIGURATION__MAIN:
        return [VALIDATION_ERROR, HARD_ERROR_RETURNED, HARD_ERROR_RAISED, EXCEPTION]
    if step is S.ASSERT__MAIN:
        return [FAIL, HARD_ERROR_RETURNED, HARD_ERROR_RAISED, EXCEPTION]
    return [HARD_ERROR_RETURNED, HARD_ERROR_RAISED, EXCEPTION]


def all_faults(n):
    for step in [S.CONFIGURATION__MAIN] + CANONICAL + [S.CLEANUP__MAIN]:
        positions = [None] if step in ATC_STEPS else range(n)
        for p in positions:
            for k in kinds_for(step):
                yield Fault(step, p, k)


def enumerate_runs(max_n=2):
    """(faults, n, status, skip): no fault; every single fault; every post-sandbox fault x failing cleanup"""
    for n in range(1, max_n + 1):
        for status in (TestCaseStatus.PASS, TestCaseStatus.FAIL):
            yield [], n, status, False
            yield [], n, status, True
            for f in all_faults(n):
                yield [f], n, status, False
                if f.step in CANONICAL[FIRST_POST_SDS:]:
                    for p in range(n):
                        for k in kinds_for(S.CLEANUP__MAIN):
                            yield [f, Fault(S.CLEANUP__MAIN, p, k)], n, status, False
        yield [], n, TestCaseStatus.SKIP, False
    for f in all_faults(1):
        if f.step in CANONICAL[:CANONICAL.index(S.ACT__EXECUTE) + 1] or f.step is S.CLEANUP__MAIN:
            yield [f], 1, TestCaseStatus.PASS, True


def main(max_n=2):
    failures = []
    cases = 0
    for faults, n, status, skip in enumerate_runs(max_n):
        cases += 1
        run, result = execute(faults, n, status, skip)
        bad = check(run, result, n, status, skip)
        if bad:
            failures.append((faults, n, status, skip, bad, result.status))
    return cases, failures


if __name__ == '__main__':
    import sys
    cases, failures = main(int(sys.argv[1]) if len(sys.argv) > 1 else 2)
    print('%d cases, %d failures' % (cases, len(failures)))
    for f in failures[:20]:
        print(f)
    sys.exit(1 if failures else 0)
