"""C18 (extension I7) -- the instruction framework and the most used instructions: what escapes from the steps of an
instruction is what the phase-step wrappers translate.

The contracts are those of contracts/C03b_instructions.py (one statement per function: frame, result AND
`raises_only`); they carry C18 as well, so the check of C18 re-proves them on the current tree:
  * validate_pre_sds / validate_post_setup of every adapter: `raises_only()` beyond what the validator of the parts
    itself raises (ArbitraryException = the environment); an error TEXT of a validator is a VALIDATION_ERROR result,
    never an exception;
  * main of the adapters: HardErrorException (=> HARD_ERROR by execute_element) or what the opaque main / validator
    raised; `MainStepExecutorFromMainStepExecutorEmbryo` and `instruction_of_matcher.Instruction` let no
    HardErrorException escape (HARD_ERROR result); `AssertionPart.check_and_return_pfh` turns PfhException into the
    result it stands for.
See notes/C18.md, section "Extension I7"."""
from pyvc.api import Module
from contracts.common import share_contracts

M = Module('C18')


def _share_instruction_contracts():
    names = share_contracts('C18', 'contracts.C03b_instructions', lambda q: True)
    assert len(names) >= 30, names


M.after_load = _share_instruction_contracts
