"""C07 (extension D7) -- error reports: the chain of including files with file names and line numbers.
`common.report_rendering.parts.source_location:file_inclusion_chain` and the functions it prints with.

Property statement: "every error report carries the line number and text of the source lines it actually came from,
together with the chain of including files".  The file named for link k of the chain is written relative to the
directory of the file that contains link k: dir_0 = the given referrer location, dir_{k+1} = (dir_k / file_k).parent
when link k names a file (else dir_k); the line printed for link k is  normpath(str(dir_k / file_k)) + ', line ' + n_k
(just 'line n_k' when the link names no file), n_k = first line number of the link's source; the second component of
the result is dir_n; the result has two elements per link (location line, source lines), in chain order.

pathlib is the abstract pathlib of contracts/pathspec.py (uninterpreted join / parent / str on path denotations);
os.path.normpath is an uninterpreted function of the string."""
import os

from pyvc.api import (Module, Interface, Method, Iface, Inst, Int, Nat, Bool, Str, Opt, ListOf, FixedList, Any_, Custom)
from contracts.common import implies, iff, forall_range, prefix_fold
from contracts import pathspec
from contracts.pathspec import den, join, parent_of, pstr, PATH

from exactly_lib.common.report_rendering.parts import source_location as sl
from exactly_lib.section_document.source_location import SourceLocation
from exactly_lib.util import line_source
from exactly_lib.util.simple_textstruct import structure

M = Module('C07')
pathspec.install(M)

P_SL = 'exactly_lib.common.report_rendering.parts.source_location'


def normpath_of(s):
    return os.path.normpath(s)


def _normpath_uf(interp, args, kwargs):
    import z3
    from pyvc.values import to_z3, wrap
    return wrap(z3.Function('os.path.normpath', z3.StringSort(), z3.StringSort())(to_z3(args[0])))


M.model(os.path.normpath, _normpath_uf)
M.model(normpath_of, _normpath_uf)
M.trust('os.path.normpath: an uninterpreted function of its argument (the file names of error reports are stated '
        'as normpath(str(directory / file)))')

LINES = Inst(line_source.LineSequence, _first_line_number=Int, _lines=Any_)
LINK = Inst(SourceLocation, _tuple=[LINES, Opt(PATH)])
CHAIN = ListOf(LINK)


def next_dir(d, link):
    """the directory that the files named by the NEXT link are relative to (path denotations)"""
    if link.file_path_rel_referrer is None:
        return d
    return parent_of(join(d, den(link.file_path_rel_referrer)))


def dir_after(d0, chain, k):
    """dir_k"""
    return prefix_fold(next_dir, d0, chain, k)


def printed_location(d, source_file, n):
    """the text of the line that locates line n of `source_file` (relative to directory d)"""
    if source_file is None:
        return 'line ' + str(n)
    return normpath_of(pstr(join(d, den(source_file)))) + ', ' + 'line ' + str(n)


M.contract(P_SL + ':_line_in_optional_file', inline=True,
           params=dict(referrer_location=PATH, source_file=Opt(PATH), first_line_number=Int),
           ensures={
               'file-name-relative-to-the-referrer-location-and-line-number': lambda referrer_location, source_file,
               first_line_number, result:
               isinstance(result.line_object, structure.StringLineObject)
               and result.line_object.string == printed_location(den(referrer_location), source_file,
                                                                 first_line_number),
           }, raises_only=())

M.contract(P_SL + ':_file_inclusion_location', event='file-inclusion-location',
           params=dict(referrer_location=PATH, location=LINK),
           returns=FixedList(Any_, Any_),
           ensures={
               'location-line-then-source-lines': (lambda referrer_location, location, result:
               len(result) == 2
               and result[0].line_object.string == printed_location(den(referrer_location),
                                                                    location.file_path_rel_referrer,
                                                                    location.source.first_line_number)
               and isinstance(result[1].line_object, structure.StringLinesObject)
               and result[1].line_object.strings is location.source.lines, 'check-only'),
           }, raises_only=())

P_FIC = P_SL + ':file_inclusion_chain'


def _calls(trace):
    return [e for e in trace if e[0] == 'file-inclusion-location']


def _fic_inv(referrer_location, chain, elements, old, trace, _i):
    """old = denotation of the referrer location given.  (The trace of the arbitrary iteration holds the one call
    of _file_inclusion_location that iteration makes: for link _i - 1, relative to dir_{_i - 1}.)"""
    return den(referrer_location) == dir_after(old, chain, _i) \
        and len(elements) == 2 * _i \
        and all(den(e[1]['referrer_location']) == dir_after(old, chain, _i - 1) and e[1]['location'] is chain[_i - 1]
                for e in _calls(trace))


M.contract(P_FIC,
           params=dict(referrer_location=PATH, chain=CHAIN),
           returns=FixedList(ListOf(Any_), PATH, as_tuple=True),
           old=lambda referrer_location: den(referrer_location),
           ensures={
               'second-component-is-the-directory-after-the-whole-chain': lambda chain, result, old:
               den(result[1]) == dir_after(old, chain, len(chain)),
               'two-elements-per-link': lambda chain, result: len(result[0]) == 2 * len(chain),
           }, raises_only=())
M.loop(P_FIC, 0,
       invariant=lambda referrer_location, chain, elements, old, trace, _i:
       _fic_inv(referrer_location, chain, elements, old, trace, _i),
       pre=lambda elements: len(elements),
       step=lambda elements, pre, trace: len(elements) == pre + 2 and len(_calls(trace)) == 1,
       modifies=dict(referrer_location=PATH, elements=ListOf(Any_), link='local'))


# ---- the location block: the chain, then the final location relative to the directory the chain leads to

M.contract(P_SL + ':_files_and_source_path_leading_to_final_source',
           params=dict(referrer_location=PATH, the_file_inclusion_chain=CHAIN, final_source_line_number=Opt(Int),
                       final_file_path_rel_referrer=Opt(PATH)),
           old=lambda referrer_location: den(referrer_location),
           ensures={
               'two-elements-per-link-and-one-for-the-final-location': lambda the_file_inclusion_chain, result,
               final_source_line_number:
               len(result.parts) == 2 * len(the_file_inclusion_chain) + (0 if final_source_line_number is None else 1),
               'the-final-location-is-relative-to-the-directory-the-chain-leads-to': lambda the_file_inclusion_chain,
               result, final_source_line_number, final_file_path_rel_referrer, old:
               final_source_line_number is None
               or result.parts[len(result.parts) - 1].line_object.string
               == printed_location(dir_after(old, the_file_inclusion_chain, len(the_file_inclusion_chain)),
                                   final_file_path_rel_referrer, final_source_line_number),
           }, raises_only=())
