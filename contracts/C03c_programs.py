"""C03: "every validator of every argument is run before anything is executed" for PROGRAM values: the validators of a
resolved program (ProgramDdv) are those of its command, of every stdin part and of every transformation -- none is
dropped (seeded change C03-s7: the stdin string sources' validators lost by a copy/paste slip => a missing home file
given as stdin of a program is detected only when the program is run)."""
from pyvc.api import Module, Interface, Method, Iface, Inst, ListOf, Any_
from contracts.common import forall_range, exists_range

from exactly_lib.type_val_deps.types.program.ddv.program import ProgramDdv

M = Module('C03')


class ValidatorI(Interface):
    """a DdvValidator (opaque; compared by identity)"""
    by_id = True


class HasValidatorI(Interface):
    """a StringSourceDdv / StringTransformerDdv: has a validator"""
    by_id = True
    attrs = {'validator': Iface(ValidatorI)}


class CommandDdvI(Interface):
    by_id = True
    attrs = {'validators': ListOf(Iface(ValidatorI))}


def _contains(xs, v):
    return exists_range(0, len(xs), lambda k: xs[k] is v)


M.contract('exactly_lib.type_val_deps.types.program.ddv.program:ProgramDdv.__init__',
           params=dict(self=Inst(ProgramDdv), command=Iface(CommandDdvI), stdin=ListOf(Iface(HasValidatorI)),
                       transformations=ListOf(Iface(HasValidatorI))),
           ensures={
               'the validators of the command are validators of the program': lambda self, command:
               forall_range(0, len(command.validators), lambda i: _contains(self._validators, command.validators[i])),
               'the validator of every stdin part is a validator of the program': lambda self, stdin:
               forall_range(0, len(stdin), lambda i: _contains(self._validators, stdin[i].validator)),
               'the validator of every transformation is a validator of the program': lambda self, transformations:
               forall_range(0, len(transformations),
                            lambda i: _contains(self._validators, transformations[i].validator)),
               'nothing else': lambda self, command, stdin, transformations:
               len(self._validators) == len(command.validators) + len(stdin) + len(transformations),
               'parts stored': lambda self, command, stdin, transformations:
               self._command is command and self._stdin is stdin and self._transformations is transformations,
           },
           raises_only=())


# C03 rests on the standalone processor building its executor without effects (contract in C02_outcome.py)
def _share():
    from contracts.common import share_contracts
    share_contracts('C03', 'contracts.C02_outcome', lambda q: q.endswith(':Processor._executor'))


M.after_load = _share
