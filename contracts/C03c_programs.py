"""C03: "every validator of every argument is run before anything is executed" for PROGRAM values: the validators of a
resolved program (ProgramDdv) are those of its command, of every stdin part and of every transformation -- none is
dropped (seeded change C03-s7: the stdin string sources' validators lost by a copy/paste slip => a missing home file
given as stdin of a program is detected only when the program is run)."""
from pyvc.api import Module, Interface, Method, Iface, Inst, ListOf, Any_, Int
from contracts.common import forall_range, exists_range

from exactly_lib.type_val_deps.types.program.ddv.program import ProgramDdv

M = Module('C03')


class ValidatorI(Interface):
    """a DdvValidator (opaque; compared by identity)"""
    by_id = True


class HasValidatorI(Interface):
    """a StringSourceDdv / StringTransformerDdv: has a validator"""
    by_id = True
    attrs = {'validator': Iface(ValidatorI)}


class CommandDdvI(Interface):
    by_id = True
    attrs = {'validators': ListOf(Iface(ValidatorI))}


def _contains(xs, v):
    return exists_range(0, len(xs), lambda k: xs[k] is v)


M.contract('exactly_lib.type_val_deps.types.program.ddv.program:ProgramDdv.__init__',
           params=dict(self=Inst(ProgramDdv), command=Iface(CommandDdvI), stdin=ListOf(Iface(HasValidatorI)),
                       transformations=ListOf(Iface(HasValidatorI))),
           ghosts=dict(j=Int),       # (an arbitrary index: the clauses hold for every j)
           # Stated with explicit positions (quantifier free: the existential form is decided by the solvers only when
           # the machine is idle): the validators of the command come first, then those of the stdin parts and of the
           # transformations as two blocks, in either order.
           ensures={
               'the validators of the command are validators of the program': lambda self, command, j:
               (not (0 <= j < len(command.validators))) or self._validators[j] is command.validators[j],
               'the validator of every stdin part is a validator of the program':
                   lambda self, command, stdin, transformations, j:
                   (not (0 <= j < len(stdin)))
                   or self._validators[len(command.validators) + len(transformations) + j] is stdin[j].validator
                   or self._validators[len(command.validators) + j] is stdin[j].validator,
               'the validator of every transformation is a validator of the program':
                   lambda self, command, stdin, transformations, j:
                   (not (0 <= j < len(transformations)))
                   or self._validators[len(command.validators) + j] is transformations[j].validator
                   or self._validators[len(command.validators) + len(stdin) + j] is transformations[j].validator,
               'nothing else': lambda self, command, stdin, transformations:
               len(self._validators) == len(command.validators) + len(stdin) + len(transformations),
               'parts stored': lambda self, command, stdin, transformations:
               self._command is command and self._stdin is stdin and self._transformations is transformations,
           },
           raises_only=())


# ------------------------------------------------------------------------------ symbol usages of the action to check
# "Symbols are validated before anything is executed" needs every actor to REPORT the references of everything it
# resolves when the action is run (the file-interpreter actor: contracts/C10_process.py `_Actor.parse`, seeded change
# C03-s8).  The other actors build their ActionToCheck from parts:
from pyvc.api import Str, Bool  # noqa: E402
from exactly_lib.impls.actors.util.actor_from_parts import parts as actor_parts  # noqa: E402
from exactly_lib.impls.actors.source_interpreter import parser as src_interpreter_parser  # noqa: E402
from exactly_lib.impls.actors.program import executable_object  # noqa: E402


class HasReferencesI(Interface):
    """a CommandSdv / StringSdv / ProgramSdv: its symbol references"""
    by_id = True
    attrs = {'references': ListOf(Any_)}


class SymbolUserI(Interface):
    """the object to execute of an actor built from parts"""
    methods = {'symbol_usages': Method(returns=ListOf(Any_), event='object-to-execute.symbol_usages')}


def _concat2(xs, a, b, j):
    return len(xs) == len(a) + len(b) \
        and ((not (0 <= j < len(a))) or xs[j] is a[j]) \
        and ((not (0 <= j < len(b))) or xs[len(a) + j] is b[j])


M.contract('exactly_lib.impls.actors.source_interpreter.parser:InterpreterAndSourceInfo.__init__',
           params=dict(self=Inst(src_interpreter_parser.InterpreterAndSourceInfo), interpreter=Iface(HasReferencesI),
                       source=Iface(HasReferencesI)),
           ghosts=dict(j=Int),
           ensures={'symbol usages: the references of the interpreter and of the source': lambda self, interpreter, source, j:
                    _concat2(self._symbol_usages, interpreter.references, source.references, j)
                    and self.interpreter is interpreter and self.source is source},
           raises_only=())

M.contract('exactly_lib.impls.actors.source_interpreter.parser:InterpreterAndSourceInfo.symbol_usages',
           params=dict(self=Inst(src_interpreter_parser.InterpreterAndSourceInfo, interpreter=Any_, source=Any_,
                                 _symbol_usages=ListOf(Any_))),
           returns=ListOf(Any_), inline=True,
           ensures={'what the constructor collected': lambda self, result: result is self._symbol_usages},
           raises_only=())

M.contract('exactly_lib.impls.actors.program.executable_object:ProgramToExecute.symbol_usages',
           params=dict(self=Inst(executable_object.ProgramToExecute, _program=Iface(HasReferencesI))),
           returns=ListOf(Any_), inline=True,
           ensures={'the references of the program': lambda self, result: result is self._program.references},
           raises_only=())

M.contract('exactly_lib.impls.actors.util.actor_from_parts.parts:ActionToCheckFromParts.__init__',
           params=dict(self=Inst(actor_parts.ActionToCheckFromParts), object_to_execute=Iface(SymbolUserI),
                       validator_constructor=Any_, executor_constructor=Any_),
           ensures={'the symbol usages of the action are those of the object to execute': lambda self, trace:
                    len([e for e in trace if e[0] == 'object-to-execute.symbol_usages']) == 1
                    and self._ActionToCheckFromParts__symbol_usages
                    is [e for e in trace if e[0] == 'object-to-execute.symbol_usages:returned'][0][2]},
           raises_only=())

M.contract('exactly_lib.impls.actors.util.actor_from_parts.parts:ActionToCheckFromParts.symbol_usages',
           params=dict(self=Inst(actor_parts.ActionToCheckFromParts, object_to_execute=Any_, validator_constructor=Any_,
                                 executor_constructor=Any_, _ActionToCheckFromParts__validator=Any_,
                                 _ActionToCheckFromParts__executor=Any_,
                                 _ActionToCheckFromParts__symbol_usages=ListOf(Any_))),
           returns=ListOf(Any_), inline=True,
           ensures={'what the constructor collected': lambda self, result:
                    result is self._ActionToCheckFromParts__symbol_usages},
           raises_only=())


# C03 rests on the standalone processor building its executor without effects (contract in C02_outcome.py)
def _share():
    from contracts.common import share_contracts
    share_contracts('C03', 'contracts.C02_outcome', lambda q: q.endswith(':Processor._executor'))


M.after_load = _share
