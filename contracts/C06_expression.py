"""C06 -- expression grammar: precedence, associativity, parentheses and layout; lazy left-to-right
evaluation.  See DESIGN.md section 3 / C06.

Parts (DESIGN "### C06"):
 (b) evaluation order and laziness of the three combinators            -- proof (shared with C05)
 (c) order preservation through the sdv -> ddv -> adv -> primitive layers -- proof
 (a) grammar tables of the six host types, Grammar.__init__             -- proof + finite obligations
 (d) the non-recursive helpers of expression/parser._Parser             -- proof against a TokenParser interface
 (e) the mutually recursive descent itself                              -- bounded stand-in; proof by induction: C06c_descent.py
"""
from pyvc.api import (Module, Interface, Method, Iface, Inst, Int, Nat, Bool, Str, Opt, OneOf, Const, Union,
                      ListOf, FixedList, Any_, EnumOf, Custom, new_opaque, assume_pred)
from pyvc.values import OpaqueVal, wrap, to_z3
from contracts.common import implies, iff, forall_range, exists_range, is_opaque

from exactly_lib.impls.types.matcher.impls import combinator_matchers
from exactly_lib.type_val_prims.matcher.matcher_base_class import MatcherWTrace
from exactly_lib.type_val_prims.matcher.matching_result import MatchingResult

M = Module('C06')

# thorough tier: the contracts as run-time monitors while these suites of the repository's own tests run
M.conformance_suites = ['exactly_lib_test.impls.types.expression.z_package_suite',
                        'exactly_lib_test.impls.types.matcher.z_package_suite',
                        'exactly_lib_test.impls.types.integer_matcher.z_package_suite',
                        'exactly_lib_test.impls.types.line_matcher.z_package_suite',
                        'exactly_lib_test.impls.types.string_transformer.z_package_suite']

P_COMBI = 'exactly_lib.impls.types.matcher.impls.combinator_matchers'

# ============================================================================== (b) evaluation order, laziness
# The operands are opaque matchers.  `D()` is the ghost denotation of an operand: the value its
# matches_w_trace gives on the (frozen) model of this application of the combinator (every operand is
# applied at most once per application of the combinator -- that is part of what is proved -- so a
# function of the operand is all that is needed).
#
# Ghost monitor (interp.st.ghost):
#   last_applied_index : index of the operand applied last (-1: none yet)
#   operand_model      : the object every operand has to be applied to (None: not yet known -- the
#                        model freezer has not been called)
# Each application of an operand  (i) must be of operand last_applied_index + 1  -- so the operands are
# applied in the order given, none twice, none skipped --  and (ii) must be to `operand_model`.  Both are
# obligations raised at the application.  The postconditions then say how far the applications went.

_LAST = 'last_applied_index'
_OPERAND_MODEL = 'operand_model'
_FREEZER_CALLS = 'freezer_calls'


def _apply_operand(interp, self, args, kwargs):
    st = interp.st
    fn = interp.current_function_name()
    model = args[0] if args else kwargs['model']
    idx = self._pv_index[0] if self._pv_index else 0
    last = st.ghost[_LAST]
    st.oblige('%s : operands are applied in the order given, none twice, none skipped' % fn,
              wrap(to_z3(last) + 1 == idx), {'kind': 'ghost-monitor'})
    st.oblige('%s : every operand is applied to the (frozen) model' % fn,
              model is st.ghost[_OPERAND_MODEL], {'kind': 'ghost-monitor'})
    st.ghost[_LAST] = idx if isinstance(idx, int) else wrap(idx)
    r = object.__new__(MatchingResult)
    r._value = interp.call(interp.getattr(self, 'D'), [], {})
    r._trace = OpaqueVal(st.fresh_name('trace-of-operand'))
    return r


class OperandI(Interface):
    """Any matcher: applying it gives a MatchingResult whose value is the operand's denotation."""
    target_class = MatcherWTrace
    methods = {
        'D': Method(returns=Bool, pure=True),
        'matches_w_trace': Method(model=_apply_operand),
    }


def _freeze(interp, self, args, kwargs):
    st = interp.st
    st.ghost[_FREEZER_CALLS] = st.ghost[_FREEZER_CALLS] + [args[0]]
    frozen = OpaqueVal(st.fresh_name('frozen-model'))
    st.ghost[_OPERAND_MODEL] = frozen
    return frozen


class FreezerI(Interface):
    """The model freezer of a host type: any callable (no_op_freezer is one of them)."""
    methods = {'__call__': Method(model=_freeze)}


def _monitor(with_freezer):
    def setup(interp, args, ghosts):
        interp.st.ghost[_LAST] = -1
        interp.st.ghost[_FREEZER_CALLS] = []
        interp.st.ghost[_OPERAND_MODEL] = None if with_freezer else args['model']
        return None

    return setup


OPERANDS = ListOf(Iface(OperandI))

NEGATION = Inst(combinator_matchers.Negation, _negated=Iface(OperandI), _structure_renderer=Any_)
CONJUNCTION = Inst(combinator_matchers.Conjunction, _operands=OPERANDS, _model_freezer=Iface(FreezerI),
                   _structure_renderer=Any_)
DISJUNCTION = Inst(combinator_matchers.Disjunction, _operands=OPERANDS, _model_freezer=Iface(FreezerI),
                   _structure_renderer=Any_)

_REPLAY_COMBINATORS = '''\
# Native search: the real combinators over scripted operands, every vector of operand values up to length 4.
import itertools, warnings; warnings.simplefilter('ignore')
from exactly_lib.impls.types.matcher.impls import combinator_matchers as cm
from exactly_lib.impls.types.matcher.impls.constant import MatcherWithConstantResult
from exactly_lib.type_val_prims.description.trace_building import TraceBuilder

class Operand(MatcherWithConstantResult):
    def __init__(self, idx, value, log):
        super().__init__(value)
        self.idx, self.value, self.log = idx, value, log
    def matches_w_trace(self, model):
        self.log.append((self.idx, model))
        return TraceBuilder('operand').build_result(self.value)

bad = []
FROZEN = object()
for n in range(0, 5):
    for values in itertools.product((True, False), repeat=n):
        for cls, expected, stop_at in ((cm.Conjunction, all(values), False), (cm.Disjunction, any(values), True)):
            log, frozen = [], []
            def freezer(m):
                frozen.append(m)
                return FROZEN
            r = cls([Operand(i, v, log) for i, v in enumerate(values)], freezer).matches_w_trace('model')
            upto = values.index(stop_at) + 1 if stop_at in values else n
            if r.value != expected or log != [(i, FROZEN) for i in range(upto)] or frozen != ['model']:
                bad.append((cls.__name__, values, r.value, log, frozen))
for v in (True, False):
    log = []
    r = cm.Negation(Operand(0, v, log)).matches_w_trace('model')
    if r.value != (not v) or log != [(0, 'model')]:
        bad.append(('Negation', v, r.value, log))
print('deviations from not/all/any with lazy left-to-right application to the frozen model:', bad[:5])
sys.exit(1 if bad else 0)
'''

M.contract(P_COMBI + ':Negation.matches_w_trace', props=('C06', 'C05'), replay=lambda model, rf: _REPLAY_COMBINATORS,
           params=dict(self=NEGATION, model=Any_), setup=_monitor(with_freezer=False),
           ensures={
               'value-is-not-of-the-operand': lambda self, result: result.value == (not self._negated.D()),
               'the-operand-is-applied-exactly-once': lambda ghost: ghost['last_applied_index'] == 0,
           }, raises_only=())

M.contract(P_COMBI + ':Conjunction.matches_w_trace', props=('C06', 'C05'),
           replay=lambda model, rf: _REPLAY_COMBINATORS,
           params=dict(self=CONJUNCTION, model=Any_), setup=_monitor(with_freezer=True),
           ensures={
               'value-is-all-of-the-operands': lambda self, result:
               result.value == forall_range(0, len(self._operands), lambda j: self._operands[j].D()),
               # k = index of the last operand applied; operands 0..k were applied, in that order (monitor)
               'lazy: applied exactly up to the first operand that is False (all, if none is)':
                   lambda self, ghost:
                   -1 <= ghost['last_applied_index'] < len(self._operands)
                   and forall_range(0, ghost['last_applied_index'], lambda j: self._operands[j].D())
                   and (ghost['last_applied_index'] == len(self._operands) - 1
                        or not self._operands[ghost['last_applied_index']].D()),
               'the-model-is-frozen-exactly-once': lambda model, ghost:
               len(ghost['freezer_calls']) == 1 and ghost['freezer_calls'][0] is model,
           }, raises_only=())

M.loop(P_COMBI + ':Conjunction.matches_w_trace', 0,
       invariant=lambda _i, self, ghost:
       ghost['last_applied_index'] == _i - 1 and forall_range(0, _i, lambda j: self._operands[j].D()),
       modifies={'operand': 'local', 'result': 'local', 'ghost:last_applied_index': Int})

M.contract(P_COMBI + ':Disjunction.matches_w_trace', props=('C06', 'C05'),
           replay=lambda model, rf: _REPLAY_COMBINATORS,
           params=dict(self=DISJUNCTION, model=Any_), setup=_monitor(with_freezer=True),
           ensures={
               'value-is-any-of-the-operands': lambda self, result:
               result.value == exists_range(0, len(self._operands), lambda j: self._operands[j].D()),
               'lazy: applied exactly up to the first operand that is True (all, if none is)':
                   lambda self, ghost:
                   -1 <= ghost['last_applied_index'] < len(self._operands)
                   and forall_range(0, ghost['last_applied_index'], lambda j: not self._operands[j].D())
                   and (ghost['last_applied_index'] == len(self._operands) - 1
                        or self._operands[ghost['last_applied_index']].D()),
               'the-model-is-frozen-exactly-once': lambda model, ghost:
               len(ghost['freezer_calls']) == 1 and ghost['freezer_calls'][0] is model,
           }, raises_only=())

M.loop(P_COMBI + ':Disjunction.matches_w_trace', 0,
       invariant=lambda _i, self, ghost:
       ghost['last_applied_index'] == _i - 1 and forall_range(0, _i, lambda j: not self._operands[j].D()),
       modifies={'operand': 'local', 'result': 'local', 'ghost:last_applied_index': Int})

# ============================================================================== (c) order through the layers
# sdv --resolve--> ddv --value_of_any_dependency--> adv --primitive--> matcher.
# Every object of a layer carries a ghost tag `origin` (which operand of the source expression it
# stems from); the step to the next layer yields an object with the same origin (that is what "the
# image of operand j" means).  The contracts say: the operand list of the result has the same length
# and, position by position, the origin of the operand it was made from; the model freezer is passed on.

from exactly_lib.impls.types.matcher.impls import combinator_sdvs
from exactly_lib.type_val_deps.types.matcher import MatcherSdv
from exactly_lib.type_val_deps.dep_variants.ddv.matcher import MatcherDdv
from exactly_lib.type_val_deps.dep_variants.adv.matcher import MatcherAdv

P_SDVS = 'exactly_lib.impls.types.matcher.impls.combinator_sdvs'


def _same_origin(a, b):
    return a.origin == b.origin


def _image(next_layer, label):
    """Model of the step to the next layer: a new object of the next layer, indexed like its source
    (so the image of operand j is a function of j), with the origin of its source."""

    def model(interp, self, args, kwargs):
        r = new_opaque(interp, next_layer(), self._pv_uid + label, index=self._pv_index)
        assume_pred(interp, _same_origin, self, r)
        return r

    return model


class MatcherSdvI(Interface):
    target_class = MatcherSdv
    attrs = {'origin': Int, 'references': Any_}
    methods = {'resolve': Method(model=_image(lambda: MatcherDdvI, '.resolve()'))}


class MatcherDdvI(Interface):
    target_class = MatcherDdv
    attrs = {'origin': Int, 'validator': Any_}
    methods = {'value_of_any_dependency': Method(model=_image(lambda: MatcherAdvI, '.value_of_any_dependency()'))}


class MatcherAdvI(Interface):
    target_class = MatcherAdv
    attrs = {'origin': Int}
    methods = {'primitive': Method(model=_image(lambda: MatcherI, '.primitive()'))}


class MatcherI(Interface):
    target_class = MatcherWTrace
    attrs = {'origin': Int}


def image_in_order(result_operands, source_operands):
    """same length and, position by position, the image of the source operand"""
    return len(result_operands) == len(source_operands) and \
        forall_range(0, len(source_operands), lambda j: result_operands[j].origin == source_operands[j].origin)


# --- sdv -> ddv

M.contract(P_SDVS + ':Negation.resolve',
           params=dict(self=Inst(combinator_sdvs.Negation, _operand=Iface(MatcherSdvI)), symbols=Any_),
           ensures={
               'negation-of-the-image-of-the-operand': lambda self, result:
               type(result) is combinator_matchers.NegationDdv and result._operand.origin == self._operand.origin,
           }, raises_only=())

for _name, _ddv in (('Conjunction', combinator_matchers.ConjunctionDdv),
                    ('Disjunction', combinator_matchers.DisjunctionDdv)):
    M.contract('%s:%s.resolve' % (P_SDVS, _name),
               params=dict(self=Inst(getattr(combinator_sdvs, _name), _operands=ListOf(Iface(MatcherSdvI)),
                                     _model_freezer=Any_, _references=Any_),
                           symbols=Any_),
               ghosts=dict(ddv_class=Const(_ddv)),
               ensures={
                   'same-operator': lambda result, ddv_class: type(result) is ddv_class,
                   'operands: same length, same order, each the image of its source': lambda self, result:
                   image_in_order(result._operands, self._operands),
                   'model-freezer-passed-on': lambda self, result: result._model_freezer is self._model_freezer,
               }, raises_only=())

# --- ddv -> adv

M.contract(P_COMBI + ':NegationDdv.value_of_any_dependency',
           params=dict(self=Inst(combinator_matchers.NegationDdv, _operand=Iface(MatcherDdvI)), tcds=Any_),
           ensures={
               'negation-of-the-image-of-the-operand': lambda self, result:
               type(result) is combinator_matchers._NegationAdv and result._operand.origin == self._operand.origin,
           }, raises_only=())

for _name, _prim in (('ConjunctionDdv', combinator_matchers.Conjunction),
                     ('DisjunctionDdv', combinator_matchers.Disjunction)):
    M.contract('%s:%s.value_of_any_dependency' % (P_COMBI, _name),
               params=dict(self=Inst(getattr(combinator_matchers, _name), _operands=ListOf(Iface(MatcherDdvI)),
                                     _model_freezer=Any_, _validator=Any_),
                           tcds=Any_),
               ghosts=dict(matcher_class=Const(_prim)),
               ensures={
                   'same-operator': lambda result, matcher_class:
                   type(result) is combinator_matchers._SequenceOfOperandsAdv
                   and result._make_matcher is matcher_class,
                   'operands: same length, same order, each the image of its source': lambda self, result:
                   image_in_order(result._operands, self._operands),
                   'model-freezer-passed-on': lambda self, result: result._model_freezer is self._model_freezer,
               }, raises_only=())

M.contract(P_COMBI + ':_SequenceOfOperandsAdv.of',
           params=dict(make_matcher=OneOf(combinator_matchers.Conjunction, combinator_matchers.Disjunction),
                       operands=ListOf(Iface(MatcherDdvI)), model_freezer=Any_, tcds=Any_),
           inline=True,
           ensures={
               'same-operator': lambda make_matcher, result: result._make_matcher is make_matcher,
               'operands: same length, same order, each the image of its source': lambda operands, result:
               image_in_order(result._operands, operands),
               'model-freezer-passed-on': lambda model_freezer, result: result._model_freezer is model_freezer,
           }, raises_only=())

# --- adv -> primitive

M.contract(P_COMBI + ':_NegationAdv.primitive',
           params=dict(self=Inst(combinator_matchers._NegationAdv, _operand=Iface(MatcherAdvI)), environment=Any_),
           ensures={
               'negation-of-the-image-of-the-operand': lambda self, result:
               type(result) is combinator_matchers.Negation and result._negated.origin == self._operand.origin,
           }, raises_only=())

M.contract(P_COMBI + ':_SequenceOfOperandsAdv.primitive',
           params=dict(self=Inst(combinator_matchers._SequenceOfOperandsAdv,
                                 _make_matcher=OneOf(combinator_matchers.Conjunction, combinator_matchers.Disjunction),
                                 _operands=ListOf(Iface(MatcherAdvI)), _model_freezer=Any_),
                       environment=Any_),
           ensures={
               'same-operator': lambda self, result: type(result) is self._make_matcher,
               'operands: same length, same order, each the image of its source': lambda self, result:
               image_in_order(result._operands, self._operands),
               'model-freezer-passed-on': lambda self, result: result._model_freezer is self._model_freezer,
           }, raises_only=())

# --- `|`: the sequence of string transformers through the same layers, and its application

from exactly_lib.impls.types.string_transformer.impl import sequence as st_sequence, sequence_sdv as st_sequence_sdv
from exactly_lib.impls.types.string_transformer.impl.identity import IdentityStringTransformer
from exactly_lib.type_val_deps.types.string_transformer.sdv import StringTransformerSdv
from exactly_lib.type_val_deps.types.string_transformer.ddv import StringTransformerDdv
from exactly_lib.type_val_deps.types.string_transformer.ddvs import StringTransformerConstantDdv
from exactly_lib.type_val_deps.dep_variants.adv.app_env_dep_val import ApplicationEnvironmentDependentValue
from exactly_lib.type_val_prims.string_transformer import StringTransformer

P_SEQ = 'exactly_lib.impls.types.string_transformer.impl.sequence'


class TransformerSdvI(Interface):
    target_class = StringTransformerSdv
    attrs = {'origin': Int, 'references': Any_}
    methods = {'resolve': Method(model=_image(lambda: TransformerDdvI, '.resolve()'))}


class TransformerDdvI(Interface):
    target_class = StringTransformerDdv
    attrs = {'origin': Int, 'validator': Any_}
    methods = {'value_of_any_dependency': Method(model=_image(lambda: TransformerAdvI, '.value_of_any_dependency()'))}


class TransformerAdvI(Interface):
    target_class = ApplicationEnvironmentDependentValue
    attrs = {'origin': Int}
    methods = {'primitive': Method(model=_image(lambda: TransformerI, '.primitive()'))}


def _apply_transformation(interp, self, args, kwargs):
    """Ghost stamps say how a text came about: the text given to the sequence has stamp 0; applying the
    transformation of operand number j to a text with stamp j gives a text with stamp j + 1, applying it
    to any other text gives a text with stamp -1 (which no application turns into a valid one again).
    So `stamp == n` means: made by applying operands 0 .. n-1, each to the result of the one before."""
    r = new_opaque(interp, TextI, 'transformed-text')
    assume_pred(interp, _stamped, self, args[0], r)
    return r


def _stamped(fn, text, result):
    return result.stamp == (fn.step + 1 if text.stamp == fn.step else -1)


class TextI(Interface):
    attrs = {'stamp': Int}


class TransformationI(Interface):
    """the bound method `transform` of a string transformer; `step`: its number among the transformations
    that are applied (ghost), `origin`: the operand it belongs to"""
    attrs = {'origin': Int, 'step': Int}
    methods = {'__call__': Method(model=_apply_transformation)}


class TransformerI(Interface):
    target_class = StringTransformer
    attrs = {'origin': Int, 'is_identity_transformer': Bool, 'transform': Iface(TransformationI)}
    # the transformation of an operand is that operand's
    invariant = staticmethod(lambda self: self.transform.origin == self.origin)


M.contract('exactly_lib.impls.types.string_transformer.impl.sequence_sdv:StringTransformerSequenceSdv.resolve',
           params=dict(self=Inst(st_sequence_sdv.StringTransformerSequenceSdv,
                                 transformers=ListOf(Iface(TransformerSdvI)), _references=Any_), symbols=Any_),
           ensures={
               'no operand: the identity': lambda self, result:
               len(self.transformers) != 0
               or (type(result) is StringTransformerConstantDdv and type(result._value) is IdentityStringTransformer),
               'one operand: its image': lambda self, result:
               len(self.transformers) != 1 or result.origin == self.transformers[0].origin,
               'operands: same length, same order, each the image of its source': lambda self, result:
               len(self.transformers) < 2
               or (type(result) is st_sequence.StringTransformerSequenceDdv
                   and image_in_order(result._transformers, self.transformers)),
           }, raises_only=())

M.contract(P_SEQ + ':StringTransformerSequenceDdv.value_of_any_dependency',
           params=dict(self=Inst(st_sequence.StringTransformerSequenceDdv,
                                 _transformers=ListOf(Iface(TransformerDdvI)), _validator=Any_), tcds=Any_),
           ensures={
               'operands: same length, same order, each the image of its source': lambda self, result:
               type(result) is st_sequence._StringTransformerSequenceAdv
               and image_in_order(result._transformers, self._transformers),
           }, raises_only=())

M.contract(P_SEQ + ':_StringTransformerSequenceAdv.primitive',
           params=dict(self=Inst(st_sequence._StringTransformerSequenceAdv,
                                 _transformers=ListOf(Iface(TransformerAdvI))), environment=Any_),
           ensures={
               'operands: same length, same order, each the image of its source': lambda self, result:
               type(result) is st_sequence.SequenceStringTransformer
               and image_in_order(result._transformers, self._transformers),
           }, raises_only=())

M.contract(P_SEQ + ':SequenceStringTransformer.__init__',
           params=dict(self=Inst(st_sequence.SequenceStringTransformer), transformers=ListOf(Iface(TransformerI))),
           # ghost labelling: operand number j has origin j
           requires=lambda transformers: forall_range(0, len(transformers), lambda j: transformers[j].origin == j),
           inline=True,
           ensures={
               'keeps the operands in order': lambda self, transformers:
               image_in_order(self._transformers, transformers),
               'the transformations to apply: not more than operands': lambda self, transformers:
               len(self._non_identity_transformer_functions) <= len(transformers),
               'the transformations to apply are transformations of non-identity operands': lambda self, transformers:
               forall_range(0, len(self._non_identity_transformer_functions), lambda k:
               self._non_identity_transformer_functions[k].origin >= 0
               and self._non_identity_transformer_functions[k].origin < len(transformers)
               and not transformers[self._non_identity_transformer_functions[k].origin].is_identity_transformer),
               '... in the order of the operands': lambda self:
               forall_range(0, len(self._non_identity_transformer_functions) - 1, lambda k:
               self._non_identity_transformer_functions[k].origin
               < self._non_identity_transformer_functions[k + 1].origin),
               '... every non-identity operand among them': lambda self, transformers:
               forall_range(0, len(transformers), lambda j:
               transformers[j].is_identity_transformer
               or exists_range(0, len(self._non_identity_transformer_functions), lambda k:
               self._non_identity_transformer_functions[k].origin == j)),
               'identity iff nothing to apply': lambda self:
               self._is_identity == (len(self._non_identity_transformer_functions) == 0),
           }, raises_only=())

M.contract(P_SEQ + ':SequenceStringTransformer.transform',
           params=dict(self=Inst(st_sequence.SequenceStringTransformer, _transformers=Any_, _is_identity=Bool,
                                 _non_identity_transformer_functions=ListOf(Iface(TransformationI)),
                                 _structure_renderer=Any_),
                       model=Iface(TextI)),
           # ghost labelling: the given text has stamp 0, the k-th transformation to apply is step k
           requires=lambda self, model: model.stamp == 0 and forall_range(
               0, len(self._non_identity_transformer_functions),
               lambda k: self._non_identity_transformer_functions[k].step == k),
           ensures={
               'left to right: every transformation applied, in order, each to the result of the one before':
                   lambda self, result: result.stamp == len(self._non_identity_transformer_functions),
           }, raises_only=())

M.loop(P_SEQ + ':SequenceStringTransformer.transform', 0,
       invariant=lambda _i, model: model.stamp == _i,
       modifies=dict(model=Iface(TextI), transformer='local'))

# ============================================================================== (a) grammar tables
# The operator tokens, their precedence order and what they build are read from the REAL grammar
# objects of the six host types (the objects the parsers are made from) and compared with the
# documented table of the property statement, which is written out here (not read from the code):

OR, AND, NOT, SEQUENCE = '||', '&&', '!', '|'

from exactly_lib.impls.types.expression import grammar as expression_grammar
from exactly_lib.util.name_and_value import NameAndValue

P_GRAMMAR = 'exactly_lib.impls.types.expression.grammar'


def _nav(name):
    return Inst(NameAndValue, _tuple=[Const(name), Any_])


def _levels_shapes():
    """0..3 precedence levels of 1..2 operators each, distinct concrete names, arbitrary values"""
    shapes = []
    for n_levels in range(4):
        per_level = [[]]
        for lv in range(n_levels):
            per_level = [p + [w] for p in per_level for w in (1, 2)]
        for widths in per_level:
            shapes.append(FixedList(*[FixedList(*[_nav('op%d%s' % (lv, 'ab'[k])) for k in range(w)], as_tuple=True)
                                      for lv, w in enumerate(widths)], as_tuple=True))
    return Union(*shapes)


def _navs_shapes(prefix, max_len):
    return Union(*[FixedList(*[_nav('%s%d' % (prefix, k)) for k in range(n)], as_tuple=True)
                   for n in range(max_len + 1)])


def dict_in_order(d, navs):
    """d maps exactly the names of navs, in their order, to their values"""
    return list(d.keys()) == [nav.name for nav in navs] and all([d[nav.name] is nav.value for nav in navs])


M.contract(P_GRAMMAR + ':Grammar.__init__',
           params=dict(self=Inst(expression_grammar.Grammar), concept=Any_, mk_reference=Any_,
                       primitives=_navs_shapes('prim', 3), prefix_operators=_navs_shapes('pre', 2),
                       infix_operators_in_order_of_increasing_precedence=_levels_shapes(),
                       description=Any_, custom_reserved_words=Any_),
           ensures={
               'the given sequences are kept as given': lambda self, primitives, prefix_operators,
                                                               infix_operators_in_order_of_increasing_precedence:
               self.primitives__seq is primitives and self.prefix_operators__seq is prefix_operators
               and self.infix_ops_inc_precedence__seq is infix_operators_in_order_of_increasing_precedence,
               'one dict per precedence level, in the order given': lambda self,
                                                                            infix_operators_in_order_of_increasing_precedence:
               len(self.infix_ops_inc_precedence) == len(infix_operators_in_order_of_increasing_precedence)
               and all([dict_in_order(self.infix_ops_inc_precedence[i],
                                      infix_operators_in_order_of_increasing_precedence[i])
                        for i in range(len(infix_operators_in_order_of_increasing_precedence))]),
               'primitives and prefix operators by name': lambda self, primitives, prefix_operators:
               dict_in_order(self.primitives, primitives) and dict_in_order(self.prefix_operators, prefix_operators),
               'rest stored': lambda self, concept, mk_reference, custom_reserved_words:
               self.concept is concept and self.mk_reference is mk_reference
               and self.custom_reserved_words is custom_reserved_words,
           }, raises_only=())


def _finite(ctx, check, name, ok, detail=None, backend='enumeration'):
    """A finite obligation on the real objects; `ok` may be a thunk (an exception in it refutes).  The
    replay re-evaluates the same check natively under the repository's interpreter."""
    detail = {k: repr(v) for k, v in (detail or {}).items()}
    if callable(ok):
        try:
            ok = ok()
        except Exception as e:
            detail['error'] = repr(e)
            ok = False
    ctx.obligation(name, bool(ok), backend, detail=detail,
                   replay='from contracts import C06_expression as m\nsys.exit(m.replay_finite(%r, OBLIGATION))\n' % check)


class _ReplayCtx:
    tier = 'quick'

    def __init__(self):
        self.results = {}

    def obligation(self, name, ok, backend, detail=None, replay=None, undecided=False):
        self.results[name] = (ok, detail)


def replay_finite(check, obligation):
    """exit status for a replay script: 1 iff the named finite obligation fails natively"""
    ctx = _ReplayCtx()
    for name, fn in M.checks:
        if name == check:
            fn(ctx)
    ok, detail = ctx.results.get(obligation, (True, 'obligation not generated'))
    print(obligation, '->', 'holds' if ok else 'FAILS', detail)
    return 0 if ok else 1


class _Marker:
    """operand stand-in for calling the real mk_expression functions"""
    references = ()

    def __init__(self, name):
        self.name = name

    def __repr__(self):
        return '<operand %s>' % self.name


def _grammar_modules():
    from exactly_lib.impls.types.integer_matcher import parse_integer_matcher
    from exactly_lib.impls.types.line_matcher import parse_line_matcher
    from exactly_lib.impls.types.string_matcher import parse_string_matcher
    from exactly_lib.impls.types.file_matcher import parse_file_matcher
    from exactly_lib.impls.types.files_matcher import parse_files_matcher
    from exactly_lib.impls.types.string_transformer import parse_string_transformer
    matchers = {'integer-matcher': parse_integer_matcher, 'line-matcher': parse_line_matcher,
                'string-matcher': parse_string_matcher, 'file-matcher': parse_file_matcher,
                'files-matcher': parse_files_matcher}
    return matchers, {'string-transformer': parse_string_transformer}


@M.check('grammar-tables')
def _grammar_tables(ctx):
    """Finite obligations on the real GRAMMAR constants (read from the imported current tree)."""
    from exactly_lib.impls.types.string_transformer.impl import sequence_sdv
    matchers, transformers = _grammar_modules()

    def ob(host, what, ok, **detail):
        _finite(ctx, 'grammar-tables', '%s: %s' % (host, what), ok, detail)

    def common(host, mod, g, levels, prefix):
        ob(host, 'infix operators in order of increasing precedence are %r' % (levels,),
           lambda: [list(d.keys()) for d in g.infix_ops_inc_precedence] == levels
           and [[nav.name for nav in level] for level in g.infix_ops_inc_precedence__seq] == levels,
           derived=g.infix_ops_inc_precedence, seq=g.infix_ops_inc_precedence__seq)
        ob(host, 'per-level dicts hold the operator objects of the given sequence',
           lambda: all(d[nav.name] is nav.value for d, level in zip(g.infix_ops_inc_precedence,
                                                                    g.infix_ops_inc_precedence__seq)
                       for nav in level))
        ob(host, 'prefix operators are %r' % (prefix,),
           lambda: list(g.prefix_operators.keys()) == prefix
           and [nav.name for nav in g.prefix_operators__seq] == prefix
           and all(g.prefix_operators[nav.name] is nav.value for nav in g.prefix_operators__seq),
           derived=g.prefix_operators)
        ob(host, 'every primitive name maps to its own parser (no name twice)',
           lambda: len({nav.name for nav in g.primitives__seq}) == len(g.primitives__seq)
           and list(g.primitives.keys()) == [nav.name for nav in g.primitives__seq]
           and all(g.primitives[nav.name] is nav.value for nav in g.primitives__seq))
        ob(host, 'no primitive is named like an operator or a parenthesis',
           lambda: not ({nav.name for nav in g.primitives__seq} | set(g.primitives))
                       & {OR, AND, NOT, SEQUENCE, '(', ')'})
        ob(host, 'an operator or parenthesis in operand position is not a symbol name or reference (so: a syntax error)',
           lambda: all((not symbol_syntax.is_symbol_name(t)) and symbol_syntax.parse_symbol_reference__from_str(t) is None
                       for t in [OR, AND, NOT, SEQUENCE, '(', ')']))
        for b in (False, True):
            def inner(b=b):
                ps = mod.parsers(b)
                return [p._with_non_empty_current_line if b else p for p in (ps.simple, ps.full)]

            ob(host, 'parsers(%s) are the simple and the full parser of this grammar' % b,
               lambda: type(inner()[0]).__name__ == '_SimpleParserOnAnyLineParser' and inner()[0]._grammar is g
               and type(inner()[1]).__name__ == '_FullParserOnAnyLineParser' and inner()[1]._grammar is g)

    def same(xs, ys):
        return len(xs) == len(ys) and all(x is y for x, y in zip(xs, ys))

    for host, mod in matchers.items():
        g = mod.GRAMMAR
        common(host, mod, g, [[OR], [AND]], [NOT])
        ms = [_Marker('a'), _Marker('b'), _Marker('c')]

        def build(name, g=g, ms=ms):
            if name == NOT:
                return g.prefix_operators[NOT].mk_expression(ms[0])
            level = [d for d in g.infix_ops_inc_precedence if name in d][0]
            return level[name].mk_expression(list(ms))

        ob(host, '|| builds a Disjunction of the operands in the order given',
           lambda: type(build(OR)) is combinator_sdvs.Disjunction and same(build(OR)._operands, ms))
        ob(host, '&& builds a Conjunction of the operands in the order given',
           lambda: type(build(AND)) is combinator_sdvs.Conjunction and same(build(AND)._operands, ms))
        ob(host, '! builds the Negation of its operand',
           lambda: type(build(NOT)) is combinator_sdvs.Negation and build(NOT)._operand is ms[0])
        ob(host, '|| and && use the same model freezer',
           lambda: build(OR)._model_freezer is build(AND)._model_freezer)
    for host, mod in transformers.items():
        g = mod.GRAMMAR
        common(host, mod, g, [[SEQUENCE]], [])
        ms = [_Marker('a'), _Marker('b'), _Marker('c')]
        ob(host, '| builds a sequence of the operands in the order given',
           lambda: type(g.infix_ops_inc_precedence[0][SEQUENCE].mk_expression(list(ms)))
           is sequence_sdv.StringTransformerSequenceSdv
           and same(g.infix_ops_inc_precedence[0][SEQUENCE].mk_expression(list(ms)).transformers, ms))


@M.check('grammar-users')
def _grammar_users(ctx):
    """Syntactic frame: which modules of the current tree construct an expression grammar."""
    import ast
    import os
    import exactly_lib
    root = os.path.dirname(exactly_lib.__file__)
    users = set()
    for dp, dns, fns in os.walk(root):
        for fn in fns:
            if not fn.endswith('.py'):
                continue
            path = os.path.join(dp, fn)
            rel = os.path.relpath(path, root)
            if rel == os.path.join('impls', 'types', 'expression', 'grammar.py'):
                continue
            try:
                tree = ast.parse(open(path, encoding='utf-8').read())
            except SyntaxError:
                continue
            for n in ast.walk(tree):
                if isinstance(n, ast.Call):
                    f = n.func
                    name = f.attr if isinstance(f, ast.Attribute) else (f.id if isinstance(f, ast.Name) else None)
                    if name in ('Grammar', 'new_grammar'):
                        users.add(rel)
    t = os.path.join('impls', 'types')
    with_operators = {os.path.join(t, d, f) for d, f in (
        ('integer_matcher', 'parse_integer_matcher.py'), ('line_matcher', 'parse_line_matcher.py'),
        ('string_matcher', 'parse_string_matcher.py'), ('file_matcher', 'parse_file_matcher.py'),
        ('files_matcher', 'parse_files_matcher.py'), ('string_transformer', 'parse_string_transformer.py'))}
    plumbing = {os.path.join(t, 'matcher', 'standard_expression_grammar.py')}
    without_operators = {os.path.join(t, 'files_condition', 'parse.py'), os.path.join(t, 'files_source', 'parse.py')}
    _finite(ctx, 'grammar-users', 'the grammars of the program are those of the six host types (+ two without operators)',
            users == with_operators | plumbing | without_operators, {'users': sorted(users)}, backend='scan')
    from exactly_lib.impls.types.files_condition import parse as fc_parse
    from exactly_lib.impls.types.files_source import parse as fs_parse
    # (files-source: the parser of nested expressions is only stored by _grammar)
    for host, mk in (('files-condition', lambda: fc_parse.GRAMMAR), ('files-source', lambda: fs_parse._grammar(None))):
        _finite(ctx, 'grammar-users', '%s: grammar has no operators' % host,
                lambda: list(mk().infix_ops_inc_precedence) == [] and list(mk().infix_ops_inc_precedence__seq) == []
                and dict(mk().prefix_operators) == {})

# ============================================================================== (d) the parser's helpers
# TokenStream (C09: shlex) is the environment: an opaque stream with a one-token look-ahead.  After
# `consume()` the look-ahead is a new, arbitrary one.  Ghost event ('consume', stream, token) per
# consumed token.  The methods of the real TokenParser that the expression parser uses are proved
# against this interface (they are the "interface contract of TokenParser" of DESIGN C06), and the
# helper methods of _Parser are proved with a real TokenParser over such a stream.

from pyvc.interp import PyRaise
from exactly_lib.impls.types.expression import parser as expression_parser
from exactly_lib.section_document.element_parsers import token_stream_parser
from exactly_lib.section_document.element_parsers.instruction_parser_exceptions import \
    SingleInstructionInvalidArgumentException as SIIAE
from exactly_lib.section_document.element_parsers.token_stream import TokenStream, LookAheadState
from exactly_lib.section_document.element_parsers.token_stream_parser import TokenParser
from exactly_lib.symbol import symbol_syntax
from exactly_lib.util.parse.token import Token, TokenType

P_TP = 'exactly_lib.section_document.element_parsers.token_stream_parser'
P_PARSER = 'exactly_lib.impls.types.expression.parser'

_LOOK_AHEAD_ATTRS = ('is_null', 'head', 'look_ahead_state', 'remaining_part_of_current_line', 'remaining_source',
                     'head_syntax_error_description', 'is_at_end')


def _look_ahead_ok(ts):
    """TokenStream: head is None iff is_null; look_ahead_state is HAS_TOKEN iff there is a head token"""
    return iff(ts.head is None, ts.is_null) and iff(ts.look_ahead_state is LookAheadState.HAS_TOKEN, not ts.is_null)


def _ts_consume(interp, self, args, kwargs):
    st = interp.st
    st.oblige('%s : TokenStream.consume is called only when there is a head token' % interp.current_function_name(),
              interp.not_(interp.getattr(self, 'is_null')), {'kind': 'callee-pre'})
    head = interp.getattr(self, 'head')
    st.emit('consume', self, head)
    for a in _LOOK_AHEAD_ATTRS:
        self._pv_attrs.pop(a, None)
    assume_pred(interp, _look_ahead_ok, self)
    return head


class TokenStreamI(Interface):
    target_class = TokenStream
    attrs = {'is_null': Bool, 'head': Opt(Inst(Token, _tuple=[EnumOf(TokenType), Str, Str])),
             'look_ahead_state': EnumOf(LookAheadState), 'remaining_part_of_current_line': Str,
             'remaining_source': Str, 'head_syntax_error_description': Str, 'is_at_end': Bool}
    methods = {'consume': Method(model=_ts_consume)}
    invariant = staticmethod(_look_ahead_ok)


TOKEN_PARSER = Inst(TokenParser, _token_stream=Iface(TokenStreamI), error_message_format_map=Const({}),
                    _first_line_number=Int)


def head_is_unquoted_and_in(old, constants):
    """there is a head token, it is not quoted, and its string is one of the constants"""
    return (not old[0]) and old[1].is_plain and old[1].string in constants


def consumed(trace, stream):
    return [e[2] for e in trace if e[0] == 'consume' and e[1] is stream]


_LOOK_AHEAD = lambda self: (self._token_stream.is_null, self._token_stream.head)

# --- the interface contract of TokenParser, proved of the real methods

_CONSTANTS = Union(FixedList(Const('(')), FixedList(Const('k1'), Const('k2')), FixedList())

M.contract(P_TP + ':TokenParser.consume_optional_constant_string_that_must_be_unquoted_and_equal',
           params=dict(self=TOKEN_PARSER, expected_constants=_CONSTANTS, must_be_on_current_line=Bool),
           old=_LOOK_AHEAD, inline=True,
           ensures={
               'matches only an unquoted head token that equals one of the constants': lambda expected_constants,
                                                                                              old, result:
               result is None or (head_is_unquoted_and_in(old, expected_constants) and result == old[1].string),
               'a line break hides the token only if it must be on the current line':
                   lambda self, expected_constants, must_be_on_current_line, old, result:
                   implies(head_is_unquoted_and_in(old, expected_constants) and not must_be_on_current_line,
                           result is not None),
               'consumes the token iff it matched': lambda self, old, result, trace:
               consumed(trace, self._token_stream) == ([] if result is None else [old[1]]),
           }, raises_only=())

M.contract(P_TP + ':TokenParser.consume_mandatory_constant_string_that_must_be_unquoted_and_equal',
           params=dict(self=TOKEN_PARSER, expected_constants=_CONSTANTS, constant_2_ret_val=Const(lambda x: None),
                       error_message_header_template=Const('header')),
           old=_LOOK_AHEAD, inline=True,
           raises={SIIAE: {'when': lambda expected_constants, old: not head_is_unquoted_and_in(old, expected_constants),
                           'ensures': lambda self, trace: consumed(trace, self._token_stream) == []}},
           ensures={
               'consumes exactly the matched token': lambda self, old, trace:
               consumed(trace, self._token_stream) == [old[1]],
           }, raises_only=())

M.contract(P_TP + ':TokenParser.consume_mandatory_unquoted_string',
           params=dict(self=TOKEN_PARSER, syntax_element_name=Str, must_be_on_current_line=Bool, error_message=Any_),
           old=_LOOK_AHEAD, inline=True,
           # `return self.error('Invalid syntax of ...')` is dead under the look-ahead invariant of TokenStream
           # (a syntax error in the look-ahead means head is None, i.e. is_null: the branch before it returns)
           cover=('Invalid syntax of',),
           raises={SIIAE: {'ensures': lambda self, must_be_on_current_line, old, trace:
           consumed(trace, self._token_stream) == []
           and (old[0] or old[1].is_quoted or must_be_on_current_line)}},
           ensures={
               'the unquoted head token': lambda self, old, result, trace:
               (not old[0]) and old[1].is_plain and result == old[1].string
               and consumed(trace, self._token_stream) == [old[1]],
           }, raises_only=())

# --- the helper methods of the expression parser
# The grammar is arbitrary: its tables are opaque mappings (any names, any operators).  Symbol syntax
# (C08) is abstracted: is_symbol_name / parse_symbol_reference__from_str are pure functions of the token.

try:
    import z3 as _z3     # only used by the models below
except ImportError:      # replays run under the repository's interpreter, without z3
    _z3 = None

M.assume('TokenStream (C09, shlex): head is None iff is_null; look_ahead_state is HAS_TOKEN iff there is a head token; '
         'after consume() the look-ahead is a new arbitrary one (interface TokenStreamI)')
M.assume('operands of the combinators, the objects of the sdv/ddv/adv/primitive layers and the transformations are '
         'arbitrary objects of their interfaces (the environment the property quantifies over); D / origin / stamp '
         'are ghost labellings')
M.assume("operator names of a grammar are not empty: precondition of _Parser.consume_optional_prefix_operator, "
         "discharged for the six real grammars by the finite obligations 'prefix operators are [...]'")
M.trust('symbol_syntax.is_symbol_name and parse_symbol_reference__from_str are pure functions of the token string '
        '(their meaning is C08\'s; here only: same token, same answer)')


def _m_is_symbol_name(interp, args, kwargs):
    f = _z3.Function('is_symbol_name', _z3.StringSort(), _z3.BoolSort())
    return wrap(f(to_z3(args[0])))


def _m_parse_symbol_reference(interp, args, kwargs):
    t = to_z3(args[0])
    raises = _z3.Function('symref.illegal_name', _z3.StringSort(), _z3.BoolSort())
    is_ref = _z3.Function('symref.is_reference', _z3.StringSort(), _z3.BoolSort())
    name = _z3.Function('symref.name', _z3.StringSort(), _z3.StringSort())
    if interp.st.fork(wrap(raises(t))):
        raise PyRaise(SIIAE('Illegal symbol name'))
    if interp.st.fork(wrap(is_ref(t))):
        return wrap(name(t))
    return None


M.model(symbol_syntax.is_symbol_name, _m_is_symbol_name)
M.model(symbol_syntax.parse_symbol_reference__from_str, _m_parse_symbol_reference)


def _mapping_getitem(interp, self, args, kwargs):
    key = args[0]
    if not interp.branch(interp.contains(self, key)):
        raise PyRaise(KeyError('<key>'))
    return interp.call(interp.getattr(self, 'value_of'), [key], {})


def _mapping_keys(interp, self, args, kwargs):
    return new_opaque(interp, KeysI, self._pv_uid + '.keys()', preset={'mapping': self})


def _keys_contains(interp, self, args, kwargs):
    return interp.contains(self._pv_attrs['mapping'], args[0])


def _syntax_error(interp, o):
    return SIIAE('syntax error reported by the parser of a primitive')


class ExprMakerI(Interface):
    """mk_reference / mk_expression / parse_arguments of a grammar element: any function; the ghost
    events ('make', f, args) / ('make:returned', f, result) say what was made from what"""
    methods = {'__call__': Method(returns=Any_, event='make', may_raise=(_syntax_error,))}


class ElementI(Interface):
    """a Primitive / PrefixOperator / InfixOperator of the grammar"""
    attrs = {'parse_arguments': Iface(ExprMakerI), 'mk_expression': Iface(ExprMakerI)}


class MappingI(Interface):
    """a dict from names to grammar elements (contents arbitrary)"""
    methods = {'__contains__': Method(returns=Bool, pure=True),
               'value_of': Method(returns=Iface(ElementI), pure=True),       # ghost: the value at a key
               '__getitem__': Method(model=_mapping_getitem),
               'keys': Method(model=_mapping_keys)}


class KeysI(Interface):
    methods = {'__contains__': Method(model=_keys_contains)}


class WordsI(Interface):
    """custom_reserved_words: any collection of strings"""
    methods = {'__contains__': Method(returns=Bool, pure=True)}


class ErrMsgI(Interface):
    """_ErrorMessageRenderer: rendering of messages is outside the property"""
    methods = {'missing_element': Method(returns=Str), 'unknown_primitive': Method(returns=Str),
               'plain_symbol_name_is_reserved_word': Method(returns=Str)}


def _mk_parser(levels):
    def mk(interp, name):
        g = object.__new__(expression_grammar.Grammar)
        g.primitives = new_opaque(interp, MappingI, name + '.grammar.primitives')
        g.prefix_operators = new_opaque(interp, MappingI, name + '.grammar.prefix_operators')
        g.custom_reserved_words = new_opaque(interp, WordsI, name + '.grammar.custom_reserved_words')
        g.mk_reference = new_opaque(interp, ExprMakerI, name + '.grammar.mk_reference')
        g.infix_ops_inc_precedence__seq = levels.make(interp, name + '.grammar.infix_ops_inc_precedence__seq')
        p = object.__new__(expression_parser._Parser)
        p.grammar = g
        p.parser = TOKEN_PARSER.make(interp, name + '.parser')
        p.prefix_operator_names = _mapping_keys(interp, g.prefix_operators, (), {})
        p._err_msg_renderer = new_opaque(interp, ErrMsgI, name + '._err_msg_renderer')
        return p

    return Custom(mk)


PARSER = _mk_parser(Const(()))
_STREAM_HEAD = lambda self: (self.parser._token_stream.is_null, self.parser._token_stream.head)


def made(trace, maker, args, result):
    """the ghost trace is exactly: `maker` was called with `args` and returned `result`"""
    return len(trace) == 2 and trace[0] == ('make', maker, args) and trace[1] == ('make:returned', maker, result)


def denotation_of_primitive_token(self, primitive_name, result, trace):
    """what a token in primitive position denotes (documented order: symbol reference syntax, primitive
    of the grammar, plain symbol name that is not reserved); anything else must not return normally"""
    ref = symbol_syntax.parse_symbol_reference__from_str(primitive_name)
    if ref is not None:
        return made(trace, self.grammar.mk_reference, (ref,), result)
    if primitive_name in self.grammar.primitives:
        return made(trace, self.grammar.primitives.value_of(primitive_name).parse_arguments, (self.parser,), result)
    return symbol_syntax.is_symbol_name(primitive_name) \
        and primitive_name not in self.grammar.custom_reserved_words \
        and made(trace, self.grammar.mk_reference, (primitive_name,), result)


def _in_descent(function_under_verification):
    """(extension P6) while a function of the recursive descent is verified (contracts/C06c_descent.py, over a token
    SEQUENCE) the four helpers below -- whose contracts speak about the look-ahead only -- are interpreted from
    their real source"""
    return function_under_verification in tuple(P_PARSER + ':_Parser.' + n for n in (
        'parse', 'parse_w_maybe_infix_ops', 'parse_w_infix_ops', 'infix_op_sequence_for_single_op',
        'parse_mandatory_primitive')) + (
        P_PARSER + ':_SimpleParserOnAnyLineParser.parse_from_token_parser',
        P_PARSER + ':_FullParserOnAnyLineParser.parse_from_token_parser')


M.contract(P_PARSER + ':_Parser.parse_primitive', inline=_in_descent,
           params=dict(self=PARSER, primitive_name=Str),
           raises={SIIAE: {'ensures': lambda self, trace: consumed(trace, self.parser._token_stream) == []}},
           ensures={
               'the token is read as what it denotes, never as something else': denotation_of_primitive_token,
               'unknown primitive or reserved word is never accepted': lambda self, primitive_name:
               symbol_syntax.parse_symbol_reference__from_str(primitive_name) is not None
               or primitive_name in self.grammar.primitives
               or (symbol_syntax.is_symbol_name(primitive_name)
                   and primitive_name not in self.grammar.custom_reserved_words),
           }, raises_only=())

M.contract(P_PARSER + ':_Parser.consume_optional_prefix_operator', inline=_in_descent,
           params=dict(self=PARSER), old=_STREAM_HEAD,
           # operator names are not empty (the code tests the matched name for truth, not for None): holds for
           # every grammar of the program -- finite obligations 'prefix operators are [...]' of 'grammar-tables'
           requires=lambda self: '' not in self.grammar.prefix_operators,
           ensures={
               'an unquoted head token that names a prefix operator (on any line) gives its mk_expression':
                   lambda self, old, result:
                   (result is self.grammar.prefix_operators.value_of(old[1].string).mk_expression)
                   if head_is_unquoted_and_in(old, self.grammar.prefix_operators) else (result is None),
               'consumes the operator token iff there is one': lambda self, old, result, trace:
               trace == ([] if result is None else [('consume', self.parser._token_stream, old[1])]),
           }, raises_only=())

M.contract(P_PARSER + ':_Parser.consume_optional_start_parentheses', inline=_in_descent,
           params=dict(self=PARSER), old=_STREAM_HEAD,
           ensures={
               'true iff the head token is an unquoted ( (on any line)': lambda old, result:
               result is head_is_unquoted_and_in(old, ('(',)),
               'consumes the parenthesis iff there is one': lambda self, old, result, trace:
               trace == ([('consume', self.parser._token_stream, old[1])] if result else []),
           }, raises_only=())

PARSER_W_LEVELS = _mk_parser(_levels_shapes())

def names_of_levels(levels):
    return [nav.name for level in levels for nav in level]


M.contract(P_PARSER + ':_Parser._infix_op_names',
           params=dict(self=PARSER_W_LEVELS), inline=True,
           ensures={'the names of all infix operators, level by level': lambda self, result:
           result == names_of_levels(self.grammar.infix_ops_inc_precedence__seq)},
           raises_only=())

M.contract(P_PARSER + ':_Parser.consume_mandatory_end_parentheses', inline=_in_descent,
           params=dict(self=PARSER_W_LEVELS), old=_STREAM_HEAD,
           raises={SIIAE: {'ensures': lambda self, trace: trace == []}},
           ensures={
               'consumes exactly one token, which is not quoted': lambda self, old, trace:
               (not old[0]) and old[1].is_plain and trace == [('consume', self.parser._token_stream, old[1])],
               # What the method does, exactly.  It accepts an infix operator name as well as `)`: an earlier
               # version of this module demanded "only a ) closes a parenthesis" here, which the code refutes
               # but which is MORE than the property needs: whether an operator can be the head
               # token at this point is decided by the callers (the loops of parse_w_infix_ops have consumed
               # every operator that may follow) -- before fix 35f7247 it could (finding C06-1), since then the
               # bounded stand-in monitors every call of this method and finds none (`_END_PAREN_PROBE`).
               'the token is ) or the name of an infix operator of the grammar': lambda self, old:
               (not old[0]) and (old[1].string == ')'
                                 or old[1].string in names_of_levels(self.grammar.infix_ops_inc_precedence__seq)),
           }, raises_only=())

def is_keys_of(keys, mapping):
    """`keys` is the key view of `mapping` (in proofs the mapping is opaque and its key view remembers it)"""
    if is_opaque(keys):
        return keys.mapping is mapping
    return keys == mapping.keys()


M.contract(P_PARSER + ':_Parser.__init__', inline=_in_descent,
           params=dict(self=Inst(expression_parser._Parser),
                       grammar=Custom(lambda interp, name: PARSER.make(interp, name).grammar), parser=TOKEN_PARSER),
           ensures={
               'stores its arguments': lambda self, grammar, parser: self.grammar is grammar and self.parser is parser,
               'the prefix operator names are the keys of the prefix operator table': lambda self, grammar:
               is_keys_of(self.prefix_operator_names, grammar.prefix_operators),
           }, raises_only=())

# ============================================================================== (e) the recursive descent: BOUNDED
# _Parser.{parse, parse_w_maybe_infix_ops, parse_w_infix_ops, infix_op_sequence_for_single_op,
# parse_mandatory_primitive} are mutually recursive over the token cursor; they are NOT proved.  Stand-in
# (DESIGN 2.6): every expression tree up to a depth/width bound, with redundant parentheses, every single
# permitted line break / doubled space, in each of the six host types, through the REAL parsers
# (`parsers(b).full` / `.simple`), evaluated through the real sdv -> ddv -> adv -> primitive chain, compared
# with the reference reading and lazy evaluation of contracts/c06_reference.py; damaged variants must give
# what the reference gives (a syntax error, or an expression that ends early), never another reading.

from contracts import c06_reference as ref

# witness classes of the known findings (decided on the INPUT alone, see notes/C06.md)
KNOWN_CLASS_1 = 'C06-1 (inside parentheses: line break in front of an && that follows an || of the same group)'
KNOWN_CLASS_2 = 'C06-2 (outside parentheses: line break in front of an && that no || precedes)'


def _classify(source, simple):
    """the witness class of an input, from its text alone: which known finding (if any) it is an instance of"""
    toks = ref.tokenize(source)
    depth = 0
    or_seen = {0: False}          # per open group: has an || been seen at that level
    for i, t in enumerate(toks):
        if t.is_('('):
            depth += 1
            or_seen[depth] = False
        elif t.is_(')'):
            depth = max(0, depth - 1)
        elif t.is_(OR):
            or_seen[depth] = True
        elif t.is_(AND) and i > 0 and toks[i - 1].line != t.line:
            if depth > 0 and or_seen[depth]:
                return KNOWN_CLASS_1
            if depth == 0 and not or_seen[0] and not simple:
                return KNOWN_CLASS_2
    return None


def _dump_obj(o, depth=0):
    import re
    if isinstance(o, (str, int, bool, type(None))):
        return o
    if isinstance(o, (list, tuple)):
        return tuple(_dump_obj(x, depth + 1) for x in o)
    if hasattr(o, '__dict__') and depth < 8:
        return (type(o).__name__,) + tuple((k, _dump_obj(v, depth + 1)) for k, v in sorted(vars(o).items()))
    return re.sub(r' at 0x[0-9a-f]+', '', str(o))


def _dump_node(n):
    return (n.header, n.data, _dump_obj(list(n.details)), tuple(_dump_node(c) for c in n.children))


def _leaf_nodes(n, combinators, out):
    if n.header in combinators:
        for c in n.children:
            _leaf_nodes(c, combinators, out)
    else:
        out.append(_dump_node(n))
    return out


def _flatten(t):
    """same-operator nesting flattened (redundant parentheses around a same-operator operand)"""
    if t[0] == 'leaf':
        return 'L'
    if t[0] == 'not':
        return ('not', _flatten(t[1]))
    out = []
    for c in t[1]:
        f = _flatten(c)
        if isinstance(f, tuple) and f[0] == t[0]:
            out += f[1]
        else:
            out.append(f)
    return (t[0], out)


_END_PAREN_PROBE = []     # (token) for every call of the real consume_mandatory_end_parentheses whose head is an operator


def _install_end_paren_probe():
    """run-time monitor around the REAL _Parser.consume_mandatory_end_parentheses (in this process only):
    records when it is reached with an unquoted infix operator as head token (which it would accept)"""
    cls = expression_parser._Parser
    real = cls.consume_mandatory_end_parentheses
    if getattr(real, '_c06_probe', False):
        return

    def monitored(self):
        ts = self.parser.token_stream
        if (not ts.is_null) and ts.head.is_plain and ts.head.string in self._infix_op_names():
            _END_PAREN_PROBE.append(ts.head.string)
        return real(self)

    monitored._c06_probe = True
    cls.consume_mandatory_end_parentheses = monitored


class _Host:
    """one host type: its real parsers, a model, primitives that are true / false on the model"""

    def __init__(self, name, module, model, true_pool, false_pool, is_transformer=False):
        self.name, self.module, self.mk_model = name, module, model
        self.pools = {True: true_pool, False: false_pool}
        self.is_transformer = is_transformer
        self.operators = [SEQUENCE] if is_transformer else [OR, AND]
        self.lang = ref.Language(self.operators, None if is_transformer else NOT,
                                 list(true_pool) + list(false_pool))
        self._leaf_cache = {}

    # ---- the real code
    def parse(self, source, simple, must_be_on_current_line):
        """-> ('ok', sdv, remaining token texts) | ('syntax-error', message)   (anything else propagates)"""
        from exactly_lib.section_document.parse_source import ParseSource
        ps = ParseSource(source)
        parsers = self.module.parsers(must_be_on_current_line)
        del _END_PAREN_PROBE[:]
        _install_end_paren_probe()
        try:
            sdv = (parsers.simple if simple else parsers.full).parse(ps)
        except SIIAE as e:
            return ('syntax-error', str(e.error_message))
        return ('ok', sdv, ps.remaining_source.split() if not ps.is_at_eof else [])

    def skeleton(self, sdv):
        from exactly_lib.impls.types.string_transformer.impl import sequence_sdv
        if type(sdv) is combinator_sdvs.Conjunction:
            return ('leafless', AND, [self.skeleton(o) for o in sdv._operands])
        if type(sdv) is combinator_sdvs.Disjunction:
            return ('leafless', OR, [self.skeleton(o) for o in sdv._operands])
        if type(sdv) is combinator_sdvs.Negation:
            return ('not', self.skeleton(sdv._operand))
        if type(sdv) is sequence_sdv.StringTransformerSequenceSdv:
            return ('leafless', SEQUENCE, [self.skeleton(o) for o in sdv.transformers])
        return ('leaf', None)

    def primitive_of(self, sdv):
        from exactly_lib.util.symbol_table import empty_symbol_table
        return sdv.resolve(empty_symbol_table()).value_of_any_dependency(None).primitive(_fixture()['env'])

    def run(self, sdv):
        """-> (value, [dumps of the primitives' nodes, in order])"""
        prim = self.primitive_of(sdv)
        if self.is_transformer:
            out = prim.transform(self.mk_model()).contents().as_str
            return out, _leaf_nodes(prim.structure().render(), (SEQUENCE,), [])
        r = prim.matches_w_trace(self.mk_model())
        return r.value, _leaf_nodes(r.trace.render(), (OR, AND, NOT), [])

    def leaf(self, text):
        """a primitive on its own, through the real parser: (value / transformer, node dump)"""
        if text not in self._leaf_cache:
            got = self.parse(text, True, True)
            assert got[0] == 'ok' and got[2] == [], (self.name, text, got)
            if self.is_transformer:
                prim = self.primitive_of(got[1])
                self._leaf_cache[text] = (prim, _leaf_nodes(prim.structure().render(), (SEQUENCE,), []))
            else:
                self._leaf_cache[text] = self.run(got[1])
        return self._leaf_cache[text]

    # ---- the reference
    def expected_run(self, tree):
        from exactly_lib.impls.types.string_source import constant_str
        if self.is_transformer:
            s = self.mk_model().contents().as_str
            nodes = []
            for text in ref.leaves_in_order(tree):
                prim, dump = self.leaf(text)
                s = prim.transform(constant_str.string_source(s, None)).contents().as_str
                nodes += dump
            return s, nodes
        value, seen = ref.evaluate(tree, {t: self.leaf(t)[0] for t in ref.leaves_in_order(tree)})
        return value, [d for t in seen for d in self.leaf(t)[1]]


def _skeleton_of_tree(t):
    if t[0] == 'leaf':
        return ('leaf', None)
    if t[0] == 'not':
        return ('not', _skeleton_of_tree(t[1]))
    return ('leafless', t[0], [_skeleton_of_tree(c) for c in t[1]])


def _flat_skeleton(s):
    if s[0] == 'leaf':
        return 'L'
    if s[0] == 'not':
        return ('not', _flat_skeleton(s[1]))
    out = []
    for c in s[2]:
        f = _flat_skeleton(c)
        if isinstance(f, tuple) and f[0] == s[1]:
            out += f[1]
        else:
            out.append(f)
    return (s[1], out)


_FIXTURE = {}


def _fixture():
    """A directory (f1: regular file; s1: directory with one file x; s2: empty directory) as model of the
    file / files matchers, and a minimal application environment (space for temporary files only); made once
    per process, removed at exit."""
    if not _FIXTURE:
        import atexit
        import pathlib
        import shutil
        import tempfile
        from exactly_lib.test_case.app_env import ApplicationEnvironment
        from exactly_lib.util.file_utils.dir_file_spaces import DirFileSpaceThatDoNotCreateFiles
        root = pathlib.Path(tempfile.mkdtemp(prefix='c06-'))
        atexit.register(shutil.rmtree, str(root), True)
        d = root / 'c06-dir'
        (d / 's1').mkdir(parents=True)
        (d / 's2').mkdir()
        (d / 'f1').write_text('x')
        (d / 's1' / 'x').write_text('')
        _FIXTURE['dir'] = d
        _FIXTURE['env'] = ApplicationEnvironment(None, None, DirFileSpaceThatDoNotCreateFiles(root / 'tmp'), 2 ** 10)
    return _FIXTURE


def _drop_fixture():
    """(worker processes of the check do not run atexit handlers)"""
    import shutil
    if _FIXTURE:
        shutil.rmtree(str(_FIXTURE['dir'].parent), True)
        _FIXTURE.clear()


def _hosts():
    """Primitives that are true / false on the model.  Those with a component that is itself an expression
    (which the documented grammar restricts to a SIMPLE expression) come first: every shape of the stand-in
    puts them in front of && / || / | of the host type, in every layout."""
    from exactly_lib.impls.types.string_source import constant_str
    from exactly_lib.impls.types.file_matcher.file_matcher_models import FileMatcherModelForDescribedPath
    from exactly_lib.impls.types.files_matcher import models as files_matcher_models
    from exactly_lib.type_val_deps.types.path import path_ddvs
    matchers, transformers = _grammar_modules()
    ints_t = ['== 5', '>= 5', '<= 5', '!= 4', '> 4', '< 6', '>= 4', '<= 6', '!= 6', 'constant true']
    ints_f = ['!= 5', '> 5', '< 5', '== 4', '>= 6', '<= 4', '== 6', '> 6', '< 4', 'constant false']
    text = lambda: constant_str.string_source('abcABC\nab\n', None)
    the_dir = lambda: path_ddvs.absolute_path(_fixture()['dir']).value_when_no_dir_dependencies__d()
    return [
        _Host('integer-matcher', matchers['integer-matcher'], lambda: 5, ints_t, ints_f),
        _Host('line-matcher', matchers['line-matcher'], lambda: (5, 'abc'),
              ['line-num == 5', 'contents num-lines == 1', 'line-num ( == 4 || == 5 )', 'contents ! is-empty']
              + ['line-num ' + x for x in ints_t[1:-1]] + ['constant true'],
              ['line-num != 5', 'contents is-empty', 'line-num ! == 5', 'contents num-lines == 2']
              + ['line-num ' + x for x in ints_f[1:-1]] + ['constant false']),
        _Host('string-matcher', matchers['string-matcher'], text,
              ['num-lines == 2', 'every line : line-num >= 1', '-transformed-by char-case -to-upper num-lines == 2',
               'any line : line-num == 2']
              + ['num-lines ' + x.replace('5', '2').replace('4', '1').replace('6', '3') for x in ints_t[1:-1]]
              + ['constant true'],
              ['is-empty', 'any line : constant false', '-transformed-by identity is-empty',
               'every line : line-num == 1']
              + ['num-lines ' + x.replace('5', '2').replace('4', '1').replace('6', '3') for x in ints_f[:-1]]
              + ['constant false']),
        _Host('file-matcher', matchers['file-matcher'], lambda: FileMatcherModelForDescribedPath(the_dir()),
              ['type dir', 'dir-contents num-files == 3', 'dir-contents -recursive num-files == 4',
               'dir-contents -selection type file num-files == 1', 'name c06-*', 'constant true'],
              ['type file', 'dir-contents is-empty', 'dir-contents num-files == 1',
               'dir-contents every file : type dir', 'type symlink', 'constant false']),
        _Host('files-matcher', matchers['files-matcher'], lambda: files_matcher_models.non_recursive(the_dir()),
              ['num-files == 3', '-selection type file num-files == 1', 'any file : type file',
               '-with-pruned name s1 num-files == 3', 'every file : ! type symlink', 'constant true'],
              ['is-empty', '-selection type dir num-files == 1', 'every file : type dir',
               '-with-pruned type dir num-files == 1', 'any file : type symlink', 'constant false']),
        _Host('string-transformer', transformers['string-transformer'], text,
              ['replace a b', 'filter line-num >= 1', 'char-case -to-upper', 'replace -at line-num == 1 B d',
               'replace b c', 'replace c a', 'identity', 'char-case -to-lower', 'replace d B', 'strip'], [],
              is_transformer=True),
    ]


def _leaf_texts(host, truth):
    """distinct primitives (as far as the pools go), true / false on the model as `truth` says"""
    used = {True: 0, False: 0}
    out = []
    for v in truth:
        pool = host.pools[v]
        out.append(pool[used[v] % len(pool)])
        used[v] += 1
    return out


def _compare(host, source, simple, must_be_on_current_line):
    """None if the real parser + evaluation agree with the reference on this source, else a description"""
    toks = ref.tokenize(source)
    first_line_empty = not source.split('\n')[0].strip()
    try:
        if must_be_on_current_line and first_line_empty:
            raise ref.Malformed('nothing on the current line')
        tree, n_read = ref.read(host.lang, toks, simple)
        expected = ('ok', tree, [t.text if not t.quoted else '"%s"' % t.text for t in toks[n_read:]])
    except ref.Malformed as e:
        expected = ('syntax-error', str(e))
    try:
        actual = host.parse(source, simple, must_be_on_current_line)
    except Exception as e:
        return {'expected': expected[0], 'actual': 'exception that is not a syntax error: %r' % e}
    if _END_PAREN_PROBE:
        return {'expected': 'only a ) is offered where a closing parenthesis is mandatory',
                'actual': 'consume_mandatory_end_parentheses reached with operator %r as head token (accepted as '
                          'the closing parenthesis)' % (_END_PAREN_PROBE[0],)}
    if expected[0] != actual[0]:
        return {'expected': repr(expected)[:300], 'actual': repr(actual[:1] + actual[2:])[:300]}
    if expected[0] == 'syntax-error':
        return None
    if expected[2] != actual[2]:
        return {'expected': 'expression ends in front of %r' % (expected[2],),
                'actual': 'ends in front of %r' % (actual[2],)}
    es, as_ = _flat_skeleton(_skeleton_of_tree(expected[1])), _flat_skeleton(host.skeleton(actual[1]))
    if es != as_:
        return {'expected': 'structure %r' % (es,), 'actual': 'structure %r' % (as_,)}
    ev, av = host.expected_run(expected[1]), host.run(actual[1])
    if ev != av:
        return {'expected': 'value %r, primitives applied: %r' % (ev[0], [d[0] for d in ev[1]]),
                'actual': 'value %r, primitives applied: %r' % (av[0], [d[0] for d in av[1]])}
    return None


_REPLAY_BOUNDED = '''\
import warnings; warnings.simplefilter('ignore')
from contracts import C06_expression as m
host = [h for h in m._hosts() if h.name == %(host)r][0]
diff = m._compare(host, %(source)r, %(simple)r, %(mbocl)r)
print('source:', %(source)r)
print('parser: %(host)s', 'simple' if %(simple)r else 'full', 'must_be_on_current_line=%(mbocl)r')
print('difference to the reference reading:', diff)
sys.exit(1 if diff else 0)
'''


def _truth_vectors(n, how):
    import itertools
    if how == 'all':
        return [list(v) for v in itertools.product((True, False), repeat=n)]
    vs = [[i % 2 == 0 for i in range(n)], [i % 2 == 1 for i in range(n)]]
    if how == 'four':
        vs += [[True] * n, [False] * n]
    out = []
    for v in vs:
        if v not in out:
            out.append(v)
    return out


class _Plan:
    def __init__(self, depth, width, extra_parens, pairs=False, doubled_spaces=True, vectors='two', damaged=True):
        self.depth, self.width, self.extra_parens, self.pairs = depth, width, extra_parens, pairs
        self.doubled_spaces, self.vectors, self.damaged = doubled_spaces, vectors, damaged

    def __str__(self):
        return ('trees of depth <= %d, width <= %d over distinct primitives, every truth assignment (plain text); '
                'for %s truth assignments: <= %d redundant pairs of parentheses x (every single%s permitted line '
                'break%s, every not permitted one)%s'
                % (self.depth, self.width, self.vectors, self.extra_parens, ' / pair of' if self.pairs else '',
                   ' / doubled space' if self.doubled_spaces else '',
                   '; every damaged variant of the plain text' if self.damaged else ''))


def _run_standin(ctx, host, plans):
    import itertools
    n_cases = 0
    seen_sources = set()
    failures = {}      # class -> list of failure dicts
    per_class = {}

    def check(source, simple, mbocl, what):
        nonlocal n_cases
        key = (source, simple, mbocl)
        if key in seen_sources:
            return
        seen_sources.add(key)
        n_cases += 1
        diff = _compare(host, source, simple, mbocl)
        if diff is not None:
            cls = _classify(source, simple) or 'unclassified'
            per_class[cls] = per_class.get(cls, 0) + 1
            if len(failures.setdefault(cls, [])) < 3:
                failures[cls].append(dict(
                    diff, input='%s: %s parser, %s: %r' % (cls.split(' ')[0], 'simple' if simple else 'full',
                                                         what, source),
                    replay=_REPLAY_BOUNDED % dict(host=host.name, source=source, simple=simple, mbocl=mbocl)))

    for plan in plans:
        for shape in ref.shapes(plan.depth, plan.width, host.operators, with_not=not host.is_transformer):
            n = ref.count_leaves(shape)
            structural = _truth_vectors(n, plan.vectors)
            for truth in ([[True] * n] if host.is_transformer else _truth_vectors(n, 'all')):
                tree = ref.with_leaves(shape, _leaf_texts(host, truth))
                plain = ref.render(ref.unparse(tree), [' '] * 10 ** 3)
                # every truth assignment: the plain text, full parser (+ the simple parser on the parenthesised text)
                check(plain, False, True, 'plain')
                check('( ' + plain + ' )', True, True, 'plain in parentheses')
                if truth not in structural and not host.is_transformer:
                    continue
                node_paths = list(ref.nodes(tree))
                paren_sets = [()]
                for k in range(1, plan.extra_parens + 1):
                    paren_sets += list(itertools.combinations_with_replacement(node_paths, k))
                for extra in paren_sets:
                    toks = ref.unparse(tree, extra)
                    for name, source in ref.layouts(toks, host.operators, pairs=plan.pairs and len(extra) < 2):
                        if name.startswith('double-space') and not plan.doubled_spaces:
                            continue
                        check(source, False, True, name)
                        if name == 'plain':
                            check(source, True, True, 'simple context')          # reads the first PRIM only
                            check('\n' + source, False, False, 'on the line after')
                            check('\n' + source, False, True, 'on the line after, must be on current line')
                            check(source + ' ' + host.pools[True][0], False, True, 'followed by a primitive')
                        elif name.startswith('line-break'):
                            check('( ' + source + ' )', True, True, name + ' in parentheses, simple context')
                    if not extra and plan.damaged:
                        ops = host.operators + ([] if host.is_transformer else [NOT])
                        for name, source in ref.malformed_variants(toks, ops):
                            check(source, False, True, 'damaged: ' + name)
                            check('( ' + source + ' )', True, True, 'damaged in parentheses: ' + name)
    ordered = failures.get('unclassified', []) + [fs[0] for cls, fs in sorted(failures.items())
                                                  if cls != 'unclassified']
    ctx.bounded_result(
        function='%s _Parser.parse' % host.name,
        bound=' + '.join(str(p) for p in plans),
        cases=n_cases, exhaustive=True, failures=ordered,
        note='real parsers(b).full/.simple of the host type + real resolve/value_of_any_dependency/primitive/'
             'matches_w_trace (transform), against contracts/c06_reference.py; stands in for _Parser.{parse, '
             'parse_w_maybe_infix_ops, parse_w_infix_ops, infix_op_sequence_for_single_op, '
             'parse_mandatory_primitive}; failures by witness class: %r' % (per_class,))


def _plans(host_name, tier):
    if tier != 'thorough':
        # (extension P6) The descent -- the same generic code for every host type -- is now proved by induction
        # (contracts/C06c_descent.py): precedence, runs of one operator, parentheses, prefix operators, the layout
        # rules and the syntax errors at the level of operators / parentheses.  In the QUICK tier the stand-in keeps
        # its full bound as a cross-check of that proof for one matcher type and for the transformers; for the other
        # four host types -- where what differs is the primitives (with their simple components) and the evaluation
        # -- it keeps every tree shape, every truth assignment, and every single line break (permitted or not), and
        # leaves redundant parentheses, doubled spaces and damaged variants to the thorough tier (unchanged there).
        if host_name in ('integer-matcher', 'string-transformer'):
            return [_Plan(2, 2, 1)]
        return [_Plan(2, 2, 0, doubled_spaces=False, damaged=False)]
    plans = [_Plan(2, 2, 2, pairs=True, vectors='four')]
    # (the descent is the same generic code for every host type; what differs between them -- the primitives with
    # simple components -- is covered by the bound above: the wider and deeper bounds only for some of them)
    if host_name in ('integer-matcher', 'line-matcher', 'string-transformer'):
        plans.append(_Plan(2, 3, 0, pairs=True))
    if host_name == 'integer-matcher':
        plans.append(_Plan(3, 2, 0, doubled_spaces=False, damaged=False))
    return plans


def _standin_for(host_name):
    def run(ctx):
        try:
            host = [h for h in _hosts() if h.name == host_name][0]
            _run_standin(ctx, host, _plans(host_name, ctx.tier))
        finally:
            _drop_fixture()

    return run


for _h in ('integer-matcher', 'line-matcher', 'string-matcher', 'file-matcher', 'files-matcher', 'string-transformer'):
    M.bounded('recursive-descent: ' + _h)(_standin_for(_h))


# ============================================================================== (f) components that are SIMPLE expressions
# "! binds tighter than &&, which binds tighter than ||" includes the primitives that take an expression as
# argument: such a component has the syntax of a SIMPLE expression (built-in help of these primitives: "Note:
# X may not contain infix operators (unless inside parentheses)"), so an infix operator after it belongs to
# the surrounding expression.  The table is written from the documented syntax of the primitives; it is
# compared (1) with the built-in documentation objects of the real grammars, (2) with the behaviour of the
# real parsers on sources where the two readings differ, (3) with a syntactic scan of every use of an
# expression parser in the current tree.

_MATCHER_TYPES = ('integer-matcher', 'line-matcher', 'string-matcher', 'file-matcher', 'files-matcher')
_DOC_NAME = {'INTEGER-MATCHER': 'integer-matcher', 'LINE-MATCHER': 'line-matcher', 'TEXT-MATCHER': 'string-matcher',
             'FILE-MATCHER': 'file-matcher', 'FILES-MATCHER': 'files-matcher', 'TEXT-TRANSFORMER': 'string-transformer'}

# every primitive of every host type; for those with expression components:
# (source with {C} where the component stands, type of the component, what follows the component, documented?)
#   what follows: 'end' (the component is the last argument), 'expression' (a further expression argument),
#   'other' (further arguments that are not expressions)
_END, _EXPRESSION, _OTHER = 'end', 'expression', 'other'
PRIMITIVES = {
    'integer-matcher': {n: [] for n in ('==', '!=', '<', '<=', '>', '>=', 'constant')},
    'line-matcher': {
        'line-num': [('line-num {C}', 'integer-matcher', _END, True)],
        # (the help of `contents` of a line matcher does not carry the note; the precedence rule is the same)
        'contents': [('contents {C}', 'string-matcher', _END, False)],
        'constant': [],
    },
    'string-matcher': {
        'every': [('every line : {C}', 'line-matcher', _END, True)],
        'any': [('any line : {C}', 'line-matcher', _END, True)],
        'num-lines': [('num-lines {C}', 'integer-matcher', _END, True)],
        '-transformed-by': [('-transformed-by {C} constant true', 'string-transformer', _EXPRESSION, True),
                            ('-transformed-by identity {C}', 'string-matcher', _END, True)],
        # `-transformed-by TEXT-TRANSFORMER` of a TEXT-SOURCE / of a PROGRAM (help of these syntax elements:
        # "TEXT-TRANSFORMER may not contain infix operators (unless inside parentheses)")
        'equals': [('equals -contents-of f.txt -transformed-by {C}', 'string-transformer', _END, False)],
        '==': [('== -contents-of f.txt -transformed-by {C}', 'string-transformer', _END, False)],
        'run': [('run -python -c pass\n-transformed-by {C}', 'string-transformer', _END, False)],
        'is-empty': [], 'matches': [], '~': [], 'constant': [],
    },
    'file-matcher': {
        'contents': [('contents {C}', 'string-matcher', _END, True)],
        'dir-contents': [('dir-contents {C}', 'files-matcher', _END, True),
                         ('dir-contents -recursive {C}', 'files-matcher', _END, True)],
        'run': [('run -python -c pass\n-transformed-by {C}', 'string-transformer', _END, False)],
        'type': [], 'path': [], 'name': [], 'stem': [], 'suffixes': [], 'suffix': [], 'constant': [],
    },
    'files-matcher': {
        'every': [('every file : {C}', 'file-matcher', _END, True)],
        'any': [('any file : {C}', 'file-matcher', _END, True)],
        'num-files': [('num-files {C}', 'integer-matcher', _END, True)],
        '-selection': [('-selection {C} constant true', 'file-matcher', _EXPRESSION, True),
                       ('-selection constant true {C}', 'files-matcher', _END, True)],
        '-with-pruned': [('-with-pruned {C} constant true', 'file-matcher', _EXPRESSION, True),
                         ('-with-pruned constant true {C}', 'files-matcher', _END, True)],
        'is-empty': [], 'matches': [], 'constant': [],
    },
    'string-transformer': {
        # (the help of `filter` does not carry the note either)
        'filter': [('filter {C}', 'line-matcher', _END, False)],
        'replace': [('replace -at {C} a b', 'line-matcher', _OTHER, True)],
        'run': [('run -python -c pass\n-transformed-by {C}', 'string-transformer', _END, False)],
        'grep': [], 'char-case': [], 'strip': [], 'replace-test-case-dirs': [], 'identity': [],
    },
}

# every use of an expression parser of a type in the source tree (file relative to exactly_lib, expression):
# the components of primitives use `.simple`
SIMPLE_PARSER_SITES = sorted([
    ('impls/types/file_matcher/parse_file_matcher.py', 'parse_string_matcher.parsers().simple'),
    ('impls/types/file_matcher/parse_file_matcher.py', 'parse_files_matcher.parsers().simple'),
    ('impls/types/files_matcher/impl/num_files.py', 'parse_integer_matcher.parsers(False).simple'),
    ('impls/types/files_matcher/parse_files_matcher.py', 'parse_file_matcher.parsers().simple'),
    ('impls/types/files_matcher/parse_files_matcher.py', 'parse_file_matcher.parsers().simple'),
    ('impls/types/files_matcher/parse_files_matcher.py', 'parsers().simple'),
    ('impls/types/line_matcher/impl/contents/parse.py', 'parse_string_matcher.parsers(False).simple'),
    ('impls/types/line_matcher/impl/line_number.py', 'parse_integer_matcher.parsers().simple'),
    ('impls/types/string_matcher/parse/num_lines.py', 'parse_integer_matcher.parsers().simple'),
    ('impls/types/string_matcher/parse_string_matcher.py', 'parse_line_matcher.parsers().simple'),
    ('impls/types/string_matcher/parse_string_matcher.py', 'parse_string_transformer.parsers().simple'),
    ('impls/types/string_matcher/parse_string_matcher.py', 'parsers().simple'),
    ('impls/types/string_transformer/impl/filter/parse.py', 'parse_line_matcher.parsers(False).simple'),
    ('impls/types/string_transformer/impl/replace/setup.py',
     'parse_line_matcher.parsers(must_be_on_current_line=False).simple'),
    # `-transformed-by TEXT-TRANSFORMER` of a text source / a program
    ('impls/types/string_transformer/parse_transformation_option.py', 'parse_string_transformer.parsers().simple'),
])
# ... `.full` only: where the expression is the last argument of an instruction / of a `def`; for the two
# grammars without operators (files-condition, files-source); for the file matcher of an entry of a
# files-condition (one entry per line); and in three functions that nothing refers to (string_matcher/parse/
# line_matches.py, obligation below)
FULL_PARSER_SITES_IN_TYPES = sorted([
    ('impls/types/files_condition/parse.py', 'parse_file_matcher.parsers().full'),
    ('impls/types/files_matcher/parse_files_matcher.py', 'parse_fc.parsers().full'),
    ('impls/types/files_source/parse.py', 'parsers(False).full'),
    ('impls/types/string_matcher/parse/line_matches.py', 'parse_line_matcher.parsers().full'),
])


_EXPRESSION_PARSER_MODULE = 'exactly_lib.impls.types.expression.parser'
_ALLOWED_FROM_EXPRESSION_PARSER = ('parsers', 'parsers_for_must_be_on_current_line', 'GrammarParsers')


def _names_module(import_from, dotted_tail):
    """absolute or relative `from ... import`: the module named ends with the given dotted tail"""
    m = import_from.module or ''
    return m == dotted_tail or m.endswith('.' + dotted_tail)


def _scan_parser_uses():
    """(simple sites, full sites inside impls/types, full sites elsewhere, other ways to a parser) in the current tree"""
    import ast
    import os
    import exactly_lib
    root = os.path.dirname(exactly_lib.__file__)
    simple, full_types, full_other, suspicious, line_matches_refs = [], [], [], [], []
    for dp, dns, fns in os.walk(root):
        for fn in fns:
            if not fn.endswith('.py'):
                continue
            path = os.path.join(dp, fn)
            rel = os.path.relpath(path, root).replace(os.sep, '/')
            try:
                tree = ast.parse(open(path, encoding='utf-8').read())
            except SyntaxError:
                continue
            in_parsers_fn = set()
            aliases = set()       # local names of the module impls.types.expression.parser
            for f in ast.walk(tree):
                if isinstance(f, ast.FunctionDef) and f.name == 'parsers':
                    in_parsers_fn |= {id(n) for n in ast.walk(f)}
                if isinstance(f, ast.ImportFrom) and _names_module(f, 'expression'):
                    aliases |= {a.asname or a.name for a in f.names if a.name == 'parser'}
                if isinstance(f, ast.Import):
                    aliases |= {a.asname for a in f.names if a.name == _EXPRESSION_PARSER_MODULE and a.asname}
            for n in ast.walk(tree):
                if isinstance(n, ast.Attribute) and n.attr in ('simple', 'full') and isinstance(n.value, ast.Call) \
                        and ast.unparse(n.value.func).split('.')[-1] == 'parsers':
                    site = (rel, ast.unparse(n))
                    if n.attr == 'simple':
                        simple.append(site)
                    elif rel.startswith('impls/types/'):
                        full_types.append(site)
                    else:
                        full_other.append(site)
                elif rel != 'impls/types/expression/parser.py' and (
                        (isinstance(n, ast.Attribute) and n.attr in ('_full', '_simple'))
                        or (isinstance(n, ast.Attribute) and isinstance(n.value, ast.Name) and n.value.id in aliases
                            and n.attr not in _ALLOWED_FROM_EXPRESSION_PARSER)
                        or (isinstance(n, ast.ImportFrom) and _names_module(n, 'expression.parser')
                            and any(a.name not in _ALLOWED_FROM_EXPRESSION_PARSER for a in n.names))
                        or (isinstance(n, ast.Subscript) and isinstance(n.value, ast.Name)
                            and n.value.id == '_PARSERS_FOR_MUST_BE_ON_CURRENT_LINE' and id(n) not in in_parsers_fn)):
                    suspicious.append((rel, n.lineno, ast.unparse(n)[:80]))
                if isinstance(n, ast.Attribute) and n.attr in ('parse', 'parse__all', 'parse__exists') \
                        and ast.unparse(n.value).split('.')[-1] == 'line_matches':
                    line_matches_refs.append((rel, n.lineno))
                if isinstance(n, ast.ImportFrom) and (n.module or '').endswith('string_matcher.parse.line_matches'):
                    line_matches_refs.append((rel, n.lineno))
    return sorted(simple), sorted(full_types), sorted(full_other), suspicious, line_matches_refs


def _documented_simple_components(grammar):
    """{(primitive name, component type)} for which the built-in help of the primitive says that the component
    may not contain infix operators (unless inside parentheses)"""
    import re

    def texts_of(o, depth, out):
        if depth > 12:
            return out
        if isinstance(o, str):
            out.append(o)
        elif isinstance(o, (list, tuple)):
            for x in o:
                texts_of(x, depth + 1, out)
        elif getattr(o, '__dict__', None):
            for v in vars(o).values():
                texts_of(v, depth + 1, out)
        return out

    found = set()
    for nav in grammar.primitives__seq:
        syn = nav.value.syntax
        for t in texts_of([list(syn.description_rest), list(syn.syntax_elements)], 0, []):
            m = re.search(r'(\S+(?:(?:, | and )\S+)*) may not contain infix operators \(unless inside parentheses\)', t)
            if m:
                for doc_name in re.split(r', | and ', m.group(1)):
                    found.add((nav.name, _DOC_NAME.get(doc_name, doc_name)))
    return found


@M.check('simple-components')
def _simple_components(ctx):
    try:
        _simple_components_(ctx)
    finally:
        _drop_fixture()


def _simple_components_(ctx):
    hosts = {h.name: h for h in _hosts()}
    matchers, transformers = _grammar_modules()
    modules = dict(matchers, **transformers)

    def ob(name, ok, **detail):
        _finite(ctx, 'simple-components', name, ok, detail)

    def read(host, source):
        """-> ('error',) | (top-level structure, remaining tokens)"""
        got = hosts[host].parse(source, False, True)
        if got[0] != 'ok':
            return ('error',)
        return (_flat_skeleton(hosts[host].skeleton(got[1])), got[2])

    for host, table in PRIMITIVES.items():
        g = modules[host].GRAMMAR
        ob('%s: the primitives are %s' % (host, ', '.join(sorted(table))),
           lambda: sorted(nav.name for nav in g.primitives__seq) == sorted(table),
           actual=[nav.name for nav in g.primitives__seq])
        ob('%s: the help says "may not contain infix operators" of exactly the documented simple components' % host,
           lambda: _documented_simple_components(g) == {(p, c[1]) for p, cs in table.items() for c in cs if c[3]},
           help=sorted(_documented_simple_components(g)))
        host_ops = hosts[host].operators
        for prim, components in table.items():
            for template, ctype, follows, _ in components:
                leaf = 'identity' if ctype == 'string-transformer' else 'constant true'
                comp_ops = [SEQUENCE] if ctype == 'string-transformer' else [OR, AND]
                what = '%s: %s: the %s component of `%s` is a simple expression' % (host, prim, ctype, template)
                ob(what + ': as written', lambda: read(host, template.format(C=leaf)) == ('L', []))
                for op in comp_ops:
                    in_parens = template.format(C='( %s %s %s )' % (leaf, op, leaf))
                    bare = template.format(C='%s %s %s' % (leaf, op, leaf))
                    ob(what + ': %s inside parentheses belongs to the component' % op,
                       lambda: read(host, in_parens) == ('L', []), source=in_parens)
                    if follows == _END and op in host_ops:
                        ob(what + ': a following %s belongs to the %s expression' % (op, host),
                           lambda: read(host, bare) == ((op, ['L', 'L']), []), source=bare, got=read(host, bare))
                    elif follows == _END:
                        # an operator the host type does not have: the host expression ends in front of it
                        ob(what + ': a following %s is not consumed' % op,
                           lambda: read(host, bare) == ('L', [op] + leaf.split()), source=bare, got=read(host, bare))
                    else:
                        # what must follow the component is not an operator: a syntax error, not another reading
                        ob(what + ': a following %s is a syntax error' % op,
                           lambda: read(host, bare) == ('error',), source=bare, got=read(host, bare))
                if ctype in _MATCHER_TYPES and follows == _END and AND in host_ops:
                    negated = template.format(C='! constant true') + ' && constant false'
                    ob(what + ': ! binds to the component, a following && does not',
                       lambda: read(host, negated) == ((AND, ['L', 'L']), []), source=negated)

    simple, full_types, full_other, suspicious, line_matches_refs = _scan_parser_uses()
    ob('scan: the simple parsers are used at exactly the documented component positions',
       simple == SIMPLE_PARSER_SITES, unexpected=[x for x in simple if x not in SIMPLE_PARSER_SITES],
       missing=[x for x in SIMPLE_PARSER_SITES if x not in simple])
    ob('scan: inside impls/types the full parsers are used only by the grammars without operators, for the entries '
       'of a files-condition and in unreferenced code',
       full_types == FULL_PARSER_SITES_IN_TYPES, unexpected=[x for x in full_types if x not in FULL_PARSER_SITES_IN_TYPES],
       missing=[x for x in FULL_PARSER_SITES_IN_TYPES if x not in full_types])
    ob('scan: elsewhere the full parsers are used only by instructions (impls/instructions/)',
       all(rel.startswith('impls/instructions/') for rel, _ in full_other), sites=full_other)
    ob('scan: no other way to an expression parser than parsers(...).simple / .full',
       suspicious == [], found=suspicious)
    ob('scan: string_matcher/parse/line_matches.py parse / parse__all / parse__exists (full line matcher) are not '
       'referenced', line_matches_refs == [], found=line_matches_refs)
