"""C06 -- expression grammar: precedence, associativity, parentheses and layout; lazy left-to-right
evaluation.  See DESIGN.md section 3 / C06.

Parts (DESIGN "### C06"):
 (b) evaluation order and laziness of the three combinators            -- proof (shared with C05)
 (c) order preservation through the sdv -> ddv -> adv -> primitive layers -- proof
 (a) grammar tables of the six host types, Grammar.__init__             -- proof + finite obligations
 (d) the non-recursive helpers of expression/parser._Parser             -- proof against a TokenParser interface
 (e) the mutually recursive descent itself                              -- bounded stand-in
"""
from pyvc.api import (Module, Interface, Method, Iface, Inst, Int, Nat, Bool, Str, Opt, OneOf, Const, Union,
                      ListOf, FixedList, Any_, EnumOf, Custom, new_opaque, assume_pred)
from pyvc.values import OpaqueVal, wrap, to_z3
from contracts.common import implies, iff, forall_range, exists_range, is_opaque

from exactly_lib.impls.types.matcher.impls import combinator_matchers
from exactly_lib.type_val_prims.matcher.matcher_base_class import MatcherWTrace
from exactly_lib.type_val_prims.matcher.matching_result import MatchingResult

M = Module('C06')

P_COMBI = 'exactly_lib.impls.types.matcher.impls.combinator_matchers'

# ============================================================================== (b) evaluation order, laziness
# The operands are opaque matchers.  `D()` is the ghost denotation of an operand: the value its
# matches_w_trace gives on the (frozen) model of this application of the combinator (every operand is
# applied at most once per application of the combinator -- that is part of what is proved -- so a
# function of the operand is all that is needed).
#
# Ghost monitor (interp.st.ghost):
#   last_applied_index : index of the operand applied last (-1: none yet)
#   operand_model      : the object every operand has to be applied to (None: not yet known -- the
#                        model freezer has not been called)
# Each application of an operand  (i) must be of operand last_applied_index + 1  -- so the operands are
# applied in the order given, none twice, none skipped --  and (ii) must be to `operand_model`.  Both are
# obligations raised at the application.  The postconditions then say how far the applications went.

_LAST = 'last_applied_index'
_OPERAND_MODEL = 'operand_model'
_FREEZER_CALLS = 'freezer_calls'


def _apply_operand(interp, self, args, kwargs):
    st = interp.st
    fn = interp.current_function_name()
    model = args[0] if args else kwargs['model']
    idx = self._pv_index[0] if self._pv_index else 0
    last = st.ghost[_LAST]
    st.oblige('%s : operands are applied in the order given, none twice, none skipped' % fn,
              wrap(to_z3(last) + 1 == idx), {'kind': 'ghost-monitor'})
    st.oblige('%s : every operand is applied to the (frozen) model' % fn,
              model is st.ghost[_OPERAND_MODEL], {'kind': 'ghost-monitor'})
    st.ghost[_LAST] = idx if isinstance(idx, int) else wrap(idx)
    r = object.__new__(MatchingResult)
    r._value = interp.call(interp.getattr(self, 'D'), [], {})
    r._trace = OpaqueVal(st.fresh_name('trace-of-operand'))
    return r


class OperandI(Interface):
    """Any matcher: applying it gives a MatchingResult whose value is the operand's denotation."""
    target_class = MatcherWTrace
    methods = {
        'D': Method(returns=Bool, pure=True),
        'matches_w_trace': Method(model=_apply_operand),
    }


def _freeze(interp, self, args, kwargs):
    st = interp.st
    st.ghost[_FREEZER_CALLS] = st.ghost[_FREEZER_CALLS] + [args[0]]
    frozen = OpaqueVal(st.fresh_name('frozen-model'))
    st.ghost[_OPERAND_MODEL] = frozen
    return frozen


class FreezerI(Interface):
    """The model freezer of a host type: any callable (no_op_freezer is one of them)."""
    methods = {'__call__': Method(model=_freeze)}


def _monitor(with_freezer):
    def setup(interp, args, ghosts):
        interp.st.ghost[_LAST] = -1
        interp.st.ghost[_FREEZER_CALLS] = []
        interp.st.ghost[_OPERAND_MODEL] = None if with_freezer else args['model']
        return None

    return setup


OPERANDS = ListOf(Iface(OperandI))

NEGATION = Inst(combinator_matchers.Negation, _negated=Iface(OperandI), _structure_renderer=Any_)
CONJUNCTION = Inst(combinator_matchers.Conjunction, _operands=OPERANDS, _model_freezer=Iface(FreezerI),
                   _structure_renderer=Any_)
DISJUNCTION = Inst(combinator_matchers.Disjunction, _operands=OPERANDS, _model_freezer=Iface(FreezerI),
                   _structure_renderer=Any_)

M.contract(P_COMBI + ':Negation.matches_w_trace', props=('C06', 'C05'),
           params=dict(self=NEGATION, model=Any_), setup=_monitor(with_freezer=False),
           ensures={
               'value-is-not-of-the-operand': lambda self, result: result.value == (not self._negated.D()),
               'the-operand-is-applied-exactly-once': lambda ghost: ghost['last_applied_index'] == 0,
           }, raises_only=())

M.contract(P_COMBI + ':Conjunction.matches_w_trace', props=('C06', 'C05'),
           params=dict(self=CONJUNCTION, model=Any_), setup=_monitor(with_freezer=True),
           ensures={
               'value-is-all-of-the-operands': lambda self, result:
               result.value == forall_range(0, len(self._operands), lambda j: self._operands[j].D()),
               # k = index of the last operand applied; operands 0..k were applied, in that order (monitor)
               'lazy: applied exactly up to the first operand that is False (all, if none is)':
                   lambda self, ghost:
                   -1 <= ghost['last_applied_index'] < len(self._operands)
                   and forall_range(0, ghost['last_applied_index'], lambda j: self._operands[j].D())
                   and (ghost['last_applied_index'] == len(self._operands) - 1
                        or not self._operands[ghost['last_applied_index']].D()),
               'the-model-is-frozen-exactly-once': lambda model, ghost:
               len(ghost['freezer_calls']) == 1 and ghost['freezer_calls'][0] is model,
           }, raises_only=())

M.loop(P_COMBI + ':Conjunction.matches_w_trace', 0,
       invariant=lambda _i, self, ghost:
       ghost['last_applied_index'] == _i - 1 and forall_range(0, _i, lambda j: self._operands[j].D()),
       modifies={'operand': 'local', 'result': 'local', 'ghost:last_applied_index': Int})

M.contract(P_COMBI + ':Disjunction.matches_w_trace', props=('C06', 'C05'),
           params=dict(self=DISJUNCTION, model=Any_), setup=_monitor(with_freezer=True),
           ensures={
               'value-is-any-of-the-operands': lambda self, result:
               result.value == exists_range(0, len(self._operands), lambda j: self._operands[j].D()),
               'lazy: applied exactly up to the first operand that is True (all, if none is)':
                   lambda self, ghost:
                   -1 <= ghost['last_applied_index'] < len(self._operands)
                   and forall_range(0, ghost['last_applied_index'], lambda j: not self._operands[j].D())
                   and (ghost['last_applied_index'] == len(self._operands) - 1
                        or self._operands[ghost['last_applied_index']].D()),
               'the-model-is-frozen-exactly-once': lambda model, ghost:
               len(ghost['freezer_calls']) == 1 and ghost['freezer_calls'][0] is model,
           }, raises_only=())

M.loop(P_COMBI + ':Disjunction.matches_w_trace', 0,
       invariant=lambda _i, self, ghost:
       ghost['last_applied_index'] == _i - 1 and forall_range(0, _i, lambda j: not self._operands[j].D()),
       modifies={'operand': 'local', 'result': 'local', 'ghost:last_applied_index': Int})

# ============================================================================== (c) order through the layers
# sdv --resolve--> ddv --value_of_any_dependency--> adv --primitive--> matcher.
# Every object of a layer carries a ghost tag `origin` (which operand of the source expression it
# stems from); the step to the next layer yields an object with the same origin (that is what "the
# image of operand j" means).  The contracts say: the operand list of the result has the same length
# and, position by position, the origin of the operand it was made from; the model freezer is passed on.

from exactly_lib.impls.types.matcher.impls import combinator_sdvs
from exactly_lib.type_val_deps.types.matcher import MatcherSdv
from exactly_lib.type_val_deps.dep_variants.ddv.matcher import MatcherDdv
from exactly_lib.type_val_deps.dep_variants.adv.matcher import MatcherAdv

P_SDVS = 'exactly_lib.impls.types.matcher.impls.combinator_sdvs'


def _same_origin(a, b):
    return a.origin == b.origin


def _image(next_layer, label):
    """Model of the step to the next layer: a new object of the next layer, indexed like its source
    (so the image of operand j is a function of j), with the origin of its source."""

    def model(interp, self, args, kwargs):
        r = new_opaque(interp, next_layer(), self._pv_uid + label, index=self._pv_index)
        assume_pred(interp, _same_origin, self, r)
        return r

    return model


class MatcherSdvI(Interface):
    target_class = MatcherSdv
    attrs = {'origin': Int, 'references': Any_}
    methods = {'resolve': Method(model=_image(lambda: MatcherDdvI, '.resolve()'))}


class MatcherDdvI(Interface):
    target_class = MatcherDdv
    attrs = {'origin': Int, 'validator': Any_}
    methods = {'value_of_any_dependency': Method(model=_image(lambda: MatcherAdvI, '.value_of_any_dependency()'))}


class MatcherAdvI(Interface):
    target_class = MatcherAdv
    attrs = {'origin': Int}
    methods = {'primitive': Method(model=_image(lambda: MatcherI, '.primitive()'))}


class MatcherI(Interface):
    target_class = MatcherWTrace
    attrs = {'origin': Int}


def image_in_order(result_operands, source_operands):
    """same length and, position by position, the image of the source operand"""
    return len(result_operands) == len(source_operands) and \
        forall_range(0, len(source_operands), lambda j: result_operands[j].origin == source_operands[j].origin)


# --- sdv -> ddv

M.contract(P_SDVS + ':Negation.resolve',
           params=dict(self=Inst(combinator_sdvs.Negation, _operand=Iface(MatcherSdvI)), symbols=Any_),
           ensures={
               'negation-of-the-image-of-the-operand': lambda self, result:
               type(result) is combinator_matchers.NegationDdv and result._operand.origin == self._operand.origin,
           }, raises_only=())

for _name, _ddv in (('Conjunction', combinator_matchers.ConjunctionDdv),
                    ('Disjunction', combinator_matchers.DisjunctionDdv)):
    M.contract('%s:%s.resolve' % (P_SDVS, _name),
               params=dict(self=Inst(getattr(combinator_sdvs, _name), _operands=ListOf(Iface(MatcherSdvI)),
                                     _model_freezer=Any_, _references=Any_),
                           symbols=Any_),
               ghosts=dict(ddv_class=Const(_ddv)),
               ensures={
                   'same-operator': lambda result, ddv_class: type(result) is ddv_class,
                   'operands: same length, same order, each the image of its source': lambda self, result:
                   image_in_order(result._operands, self._operands),
                   'model-freezer-passed-on': lambda self, result: result._model_freezer is self._model_freezer,
               }, raises_only=())

# --- ddv -> adv

M.contract(P_COMBI + ':NegationDdv.value_of_any_dependency',
           params=dict(self=Inst(combinator_matchers.NegationDdv, _operand=Iface(MatcherDdvI)), tcds=Any_),
           ensures={
               'negation-of-the-image-of-the-operand': lambda self, result:
               type(result) is combinator_matchers._NegationAdv and result._operand.origin == self._operand.origin,
           }, raises_only=())

for _name, _prim in (('ConjunctionDdv', combinator_matchers.Conjunction),
                     ('DisjunctionDdv', combinator_matchers.Disjunction)):
    M.contract('%s:%s.value_of_any_dependency' % (P_COMBI, _name),
               params=dict(self=Inst(getattr(combinator_matchers, _name), _operands=ListOf(Iface(MatcherDdvI)),
                                     _model_freezer=Any_, _validator=Any_),
                           tcds=Any_),
               ghosts=dict(matcher_class=Const(_prim)),
               ensures={
                   'same-operator': lambda result, matcher_class:
                   type(result) is combinator_matchers._SequenceOfOperandsAdv
                   and result._make_matcher is matcher_class,
                   'operands: same length, same order, each the image of its source': lambda self, result:
                   image_in_order(result._operands, self._operands),
                   'model-freezer-passed-on': lambda self, result: result._model_freezer is self._model_freezer,
               }, raises_only=())

M.contract(P_COMBI + ':_SequenceOfOperandsAdv.of',
           params=dict(make_matcher=OneOf(combinator_matchers.Conjunction, combinator_matchers.Disjunction),
                       operands=ListOf(Iface(MatcherDdvI)), model_freezer=Any_, tcds=Any_),
           inline=True,
           ensures={
               'same-operator': lambda make_matcher, result: result._make_matcher is make_matcher,
               'operands: same length, same order, each the image of its source': lambda operands, result:
               image_in_order(result._operands, operands),
               'model-freezer-passed-on': lambda model_freezer, result: result._model_freezer is model_freezer,
           }, raises_only=())

# --- adv -> primitive

M.contract(P_COMBI + ':_NegationAdv.primitive',
           params=dict(self=Inst(combinator_matchers._NegationAdv, _operand=Iface(MatcherAdvI)), environment=Any_),
           ensures={
               'negation-of-the-image-of-the-operand': lambda self, result:
               type(result) is combinator_matchers.Negation and result._negated.origin == self._operand.origin,
           }, raises_only=())

M.contract(P_COMBI + ':_SequenceOfOperandsAdv.primitive',
           params=dict(self=Inst(combinator_matchers._SequenceOfOperandsAdv,
                                 _make_matcher=OneOf(combinator_matchers.Conjunction, combinator_matchers.Disjunction),
                                 _operands=ListOf(Iface(MatcherAdvI)), _model_freezer=Any_),
                       environment=Any_),
           ensures={
               'same-operator': lambda self, result: type(result) is self._make_matcher,
               'operands: same length, same order, each the image of its source': lambda self, result:
               image_in_order(result._operands, self._operands),
               'model-freezer-passed-on': lambda self, result: result._model_freezer is self._model_freezer,
           }, raises_only=())
