"""C15 -- directory trees: populating from a file list and matching directory contents.
See DESIGN.md section 3 / C15 and notes/C15.md."""
import os
import pathlib

from pyvc.api import (Module, Interface, Method, Iface, Inst, Int, Nat, Bool, Str, Opt, OneOf, EnumOf, Const, Union,
                      ListOf, FixedList, Any_, Custom, IterOf, new_opaque, assume_pred)
from pyvc.interp import PyRaise
from pyvc.values import SOpt, SChoice, SBool, SInt, Opaque, to_z3, wrap
from contracts.common import implies, iff, is_opaque, forall_range, exists_range, items_of, count_prefix
from contracts import pathspec
from contracts.pathspec import P, join, is_abs, den, pstr, PATH, PathI, PurePathI

from exactly_lib.impls.file_properties import FileType
from exactly_lib.impls.types.files_matcher import models
from exactly_lib.impls.types.matcher.impls import combinator_matchers, constant as constant_matcher
from exactly_lib.test_case.hard_error import HardErrorException
from exactly_lib.type_val_prims.described_path import DescribedPath
from exactly_lib.type_val_prims.matcher.file_matcher import FileMatcherModel
from exactly_lib.type_val_prims.matcher.files_matcher import FileModel, FilesMatcherModel
from exactly_lib.type_val_prims.matcher.matcher_base_class import MatcherWTrace
from exactly_lib.type_val_prims.matcher.matching_result import MatchingResult

try:
    import z3
except ImportError:  # replays
    z3 = None

M = Module('C15')
pathspec.install(M)

P_MODELS = 'exactly_lib.impls.types.files_matcher.models'


# ============================================================================== the file system as seen by the matchers
# A file is identified by a ghost id `fid`.  A DescribedPath is a path object with child()/parent().

def _dp_child(interp, self, args, kwargs):
    prim = interp.getattr(self, 'primitive')
    pid = pathspec.mk_join(interp, interp.getattr(prim, 'pid'), pathspec.pid_of(interp, args[0]))
    return new_described_path(interp, pid)


def _dp_parent(interp, self, args, kwargs):
    o = new_opaque(interp, DescribedPathI, 'parent')
    interp.st.ghost.setdefault('__parents__', []).append((self, o))
    return o


class DescribedPathI(Interface):
    target_class = DescribedPath
    attrs = {'primitive': PATH, 'describer': Any_}
    methods = {'child': Method(model=_dp_child), 'parent': Method(model=_dp_parent)}


def new_described_path(interp, pid, name='described_path'):
    o = new_opaque(interp, DescribedPathI, name)
    o._pv_attrs['primitive'] = pathspec.new_path(interp, pid, name + '.primitive')
    return o


DESCRIBED_PATH = Iface(DescribedPathI)


def _fid_of(interp, args, kwargs):
    x = args[0]
    if isinstance(x, Opaque):
        return interp.getattr(x, 'fid')
    if isinstance(x, models._FileModelForDirEntry):
        x = x._file_matcher_model
    if isinstance(x, models._FileMatcherModel):
        return interp.getattr(x._file_type_access._dir_entry, 'fid')
    from pyvc.path import Unsupported
    raise Unsupported('fid_of(%r)' % (x,))


def fid_of(x):
    """the ghost identity of the file a model object stands for (proof level only)"""
    raise NotImplementedError('proof-level only')


M.model(fid_of, _fid_of)


def _entry_is_dir(interp, self, args, kwargs):
    """is_dir(): fails with OSError, or says whether the entry is a directory (`dir_flag`)"""
    if 'is_dir:raised' in self._pv_attrs:
        raise PyRaise(self._pv_attrs['is_dir:raised'])
    if 'is_dir:returned' not in self._pv_attrs:
        if interp.st.choose(2) == 1:
            self._pv_attrs['is_dir:raised'] = OSError('is_dir')
            raise PyRaise(self._pv_attrs['is_dir:raised'])
        self._pv_attrs['is_dir:returned'] = True
    return interp.getattr(self, 'dir_flag')


class DirEntryI(Interface):
    """os.DirEntry: name and the three type tests (which may fail with OSError); `fid`: ghost identity;
    `dir_flag`: what is_dir() answers when it does not fail"""
    attrs = {'name': Str, 'fid': Int, 'dir_flag': Bool}
    methods = {
        'is_dir': Method(model=_entry_is_dir),
        'is_file': Method(returns=Bool, pure=True, may_raise=(OSError,)),
        'is_symlink': Method(returns=Bool, pure=True, may_raise=(OSError,)),
    }


DIR_ENTRY = Iface(DirEntryI)
M.trust('os.DirEntry: name / is_dir() / is_file() / is_symlink() are functions of the entry that may raise OSError; '
        'os.scandir(d) gives the entries of d (each once, names distinct within one directory)')


class MatchResultI(Interface):
    target_class = MatchingResult
    attrs = {'value': Bool, 'trace': Any_}


def _matches_w_trace(interp, self, args, kwargs):
    """the verdict of a matcher on a file is a function D of (matcher, file)"""
    fid = _fid_of(interp, [args[0]], {})
    v = interp.reg.call_opaque(interp, self, 'D', [fid], {})
    return new_opaque(interp, MatchResultI, 'matching_result', preset={'value': v})


class FileMatcherI(Interface):
    """any FileMatcher: D(fid) -- it accepts the file fid.  For Conjunction / Disjunction D is the
    conjunction / disjunction of the operands' D (their matches_w_trace: C05)."""
    target_class = MatcherWTrace
    methods = {'D': Method(returns=Bool, pure=True), 'matches_w_trace': Method(model=_matches_w_trace),
               'structure': Method(returns=Any_)}


FILE_MATCHER = Iface(FileMatcherI)


def accepts(m, fid):
    """denotation of a FileMatcher"""
    if is_opaque(m):
        return m.D(fid)
    if isinstance(m, combinator_matchers.Conjunction):
        return all([accepts(op, fid) for op in m._operands])
    if isinstance(m, combinator_matchers.Disjunction):
        return any([accepts(op, fid) for op in m._operands])
    if isinstance(m, constant_matcher.MatcherWithConstantResult):
        return m._result
    raise ValueError('accepts: unexpected matcher')


M.assume('Conjunction / Disjunction .matches_w_trace(model).value is the conjunction / disjunction of the operands` '
         'values (C05/C06); a FileMatcher`s verdict is a function of the file it is applied to')


def _as_fmm(interp, self, args, kwargs):
    o = self._pv_attrs.get('__fmm__')
    if o is None:
        o = new_opaque(interp, FileMatcherModelI, self._pv_uid + '.as_file_matcher_model()', index=self._pv_index,
                       preset={'fid': interp.getattr(self, 'fid')})
        self._pv_attrs['__fmm__'] = o
    return o


class FileMatcherModelI(Interface):
    target_class = FileMatcherModel
    attrs = {'fid': Int, 'path': DESCRIBED_PATH}


class FileModelI(Interface):
    """an element of FilesMatcherModel.files()"""
    target_class = FileModel
    attrs = {'fid': Int, 'relative_to_root_dir': PATH, 'path': DESCRIBED_PATH}
    methods = {'as_file_matcher_model': Method(model=_as_fmm)}


FILE_MODELS = ListOf(Iface(FileModelI))

# ============================================================================== the depth window

def same_opt(a, b):
    """equal optional integers"""
    if a is None:
        return b is None
    return b is not None and a == b


GENERATOR = Inst(models._FilesGeneratorForRecursive, _min_depth=Opt(Nat), _max_depth=Opt(Nat))

M.contract(P_MODELS + ':_FilesGeneratorForRecursive._is_within_min_depth_limit',
           params=dict(self=GENERATOR, depth=Nat), returns=Bool, inline=True,
           ensures={'no minimum, or depth >= minimum': lambda self, depth, result:
           iff(result, self._min_depth is None or depth >= self._min_depth)}, raises_only=())
M.contract(P_MODELS + ':_FilesGeneratorForRecursive._is_at_max_depth_limit',
           params=dict(self=GENERATOR, depth=Nat), returns=Bool, inline=True,
           ensures={'a maximum, and depth == maximum': lambda self, depth, result:
           iff(result, self._max_depth is not None and depth == self._max_depth)}, raises_only=())
M.contract(P_MODELS + ':_FilesGeneratorForRecursive._is_within_max_depth_limit',
           params=dict(self=GENERATOR, depth=Nat), returns=Bool, inline=True,
           ensures={'no maximum, or depth <= maximum': lambda self, depth, result:
           iff(result, self._max_depth is None or depth <= self._max_depth)}, raises_only=())

M.contract(P_MODELS + ':_FilesGeneratorForRecursive.__init__',
           params=dict(self=Inst(models._FilesGeneratorForRecursive), min_depth=Opt(Nat), max_depth=Opt(Nat)),
           inline=True,
           ensures={'limits-stored': lambda self, min_depth, max_depth:
           same_opt(self._min_depth, min_depth) and same_opt(self._max_depth, max_depth)}, raises_only=())

M.contract(P_MODELS + ':_FilesGeneratorForRecursive._initialize_for_depth_0',
           params=dict(root_dir_path=DESCRIBED_PATH), inline=True,
           ensures={'the root directory at depth 0, relative path empty': lambda root_dir_path, result:
           len(result) == 1 and result[0].depth == 0 and result[0]._absolute_parent is root_dir_path
           and den(result[0]._relative_parent) == P('')}, raises_only=())

FILES_IN_DIR = Inst(models._FilesInDir, _relative_parent=PATH, _absolute_parent=DESCRIBED_PATH, depth=Nat)

M.contract(P_MODELS + ':_FilesInDir.new_for_sub_dir', params=dict(self=FILES_IN_DIR, dir_entry=DIR_ENTRY),
           inline=True,
           ensures={'one level deeper': lambda self, result: result.depth == self.depth + 1,
                    'relative path: parent/name': lambda self, dir_entry, result:
                    den(result._relative_parent) == join(den(self._relative_parent), P(dir_entry.name)),
                    'absolute path: parent/name': lambda self, dir_entry, result:
                    den(result._absolute_parent.primitive)
                    == join(den(self._absolute_parent.primitive), P(dir_entry.name))}, raises_only=())

M.contract(P_MODELS + ':_FilesInDir.file_model', params=dict(self=FILES_IN_DIR, dir_entry=DIR_ENTRY), inline=True,
           ensures={'the entry, at parent/name': lambda self, dir_entry, result:
           fid_of(result) == dir_entry.fid
           and den(result.relative_to_root_dir) == join(den(self._relative_parent), P(dir_entry.name))
           and den(result.path.primitive) == join(den(self._absolute_parent.primitive), P(dir_entry.name))
           and fid_of(result.as_file_matcher_model()) == dir_entry.fid
           and result.as_file_matcher_model().path is result.path}, raises_only=())

M.contract(P_MODELS + ':_FileTypeAccessForDirEntry.is_type',
           params=dict(self=Inst(models._FileTypeAccessForDirEntry, _dir_entry=DIR_ENTRY), expected=EnumOf(FileType)),
           returns=Bool, inline=True, may_raise=(OSError,),
           ensures={'REGULAR / DIRECTORY / SYMLINK |-> is_file / is_dir / is_symlink': lambda self, expected, result:
           result == (self._dir_entry.is_file() if expected is FileType.REGULAR
                      else self._dir_entry.is_dir() if expected is FileType.DIRECTORY
           else self._dir_entry.is_symlink())}, raises_only=())


# ============================================================================== the model of a directory

class GeneratorI(Interface):
    """_FilesGenerator.generate(dir, prune): an iterator over some sequence of files"""
    target_class = models._FilesGenerator
    methods = {'generate': Method(returns=IterOf(Iface(FileModelI)), pure=True)}


MODEL = Inst(models._FilesMatcherModelForDir, _dir_path=DESCRIBED_PATH, _files_generator=Iface(GeneratorI),
             _files_selection=Opt(FILE_MATCHER), _directory_prune=Opt(FILE_MATCHER))


def selected(model, fid):
    """the file passes the selection of the model"""
    return model._files_selection is None or accepts(model._files_selection, fid)


def pruned(model, fid):
    """the directory is pruned by the model"""
    return model._directory_prune is not None and accepts(model._directory_prune, fid)


M.contract(P_MODELS + ':_FilesMatcherModelForDir.sub_set', params=dict(self=MODEL, selector=FILE_MATCHER),
           ghosts=dict(f=Int), inline=True,
           ensures={
               'selection is the CONJUNCTION of the old selection and the selector': lambda self, selector, result, f:
               iff(selected(result, f), selected(self, f) and accepts(selector, f)),
               'old selection first': lambda self, selector, result:
               result._files_selection is selector if self._files_selection is None
               else (result._files_selection._operands[0] is self._files_selection
                     and result._files_selection._operands[1] is selector),
               'same directory, generator and pruning': lambda self, result:
               isinstance(result, models._FilesMatcherModelForDir) and result._dir_path is self._dir_path
               and result._files_generator is self._files_generator
               and result._directory_prune is self._directory_prune,
           }, raises_only=())

M.contract(P_MODELS + ':_FilesMatcherModelForDir.prune', params=dict(self=MODEL, dir_selector=FILE_MATCHER),
           ghosts=dict(f=Int), inline=True,
           ensures={
               'pruning is the DISJUNCTION of the old pruning and the selector': lambda self, dir_selector, result, f:
               iff(pruned(result, f), pruned(self, f) or accepts(dir_selector, f)),
               'same directory, generator and selection': lambda self, result:
               isinstance(result, models._FilesMatcherModelForDir) and result._dir_path is self._dir_path
               and result._files_generator is self._files_generator
               and result._files_selection is self._files_selection,
           }, raises_only=())


def generated(self):
    """the files the generator of the model gives for its directory and pruning"""
    return self._files_generator.generate(self._dir_path, self._directory_prune).xs


M.contract(P_MODELS + ':_FilesMatcherModelForDir.files', params=dict(self=MODEL),
           ensures={
               'no selection: the files of the generator': lambda self, result:
               implies(self._files_selection is None,
                       result is self._files_generator.generate(self._dir_path, self._directory_prune)),
               'selection: exactly the generated files that the selection accepts, in the same order':
                   lambda self, result:
                   self._files_selection is None or files_are_the_selected(self, items_of(result)),
           }, raises_only=())


def files_are_the_selected(self, out):
    gen = generated(self)
    return len(out) <= len(gen) \
        and forall_range(0, len(out), lambda k: 0 <= out.src(k) and out.src(k) < len(gen)
                                                  and fid_of(out[k]) == fid_of(gen[out.src(k)])
                                                  and accepts(self._files_selection, fid_of(out[k]))) \
        and forall_range(0, len(out) - 1, lambda k: out.src(k) < out.src(k + 1)) \
        and forall_range(0, len(gen), lambda i: implies(accepts(self._files_selection, fid_of(gen[i])),
                                                        0 <= out.pos_of(i) and out.pos_of(i) < len(out)
                                                        and out.src(out.pos_of(i)) == i))


M.contract(P_MODELS + ':recursive', params=dict(dir_path=DESCRIBED_PATH, min_depth=Opt(Nat), max_depth=Opt(Nat)),
           inline=True,
           ensures={'recursive generator with the given limits, no selection, no pruning':
                        lambda dir_path, min_depth, max_depth, result:
                        isinstance(result, models._FilesMatcherModelForDir) and result._dir_path is dir_path
                        and isinstance(result._files_generator, models._FilesGeneratorForRecursive)
                        and same_opt(result._files_generator._min_depth, min_depth)
                        and same_opt(result._files_generator._max_depth, max_depth)
                        and result._files_selection is None and result._directory_prune is None},
           raises_only=())

M.contract(P_MODELS + ':non_recursive', params=dict(dir_path=DESCRIBED_PATH), inline=True,
           ensures={'non-recursive generator, no selection, no pruning': lambda dir_path, result:
           isinstance(result, models._FilesMatcherModelForDir) and result._dir_path is dir_path
           and isinstance(result._files_generator, models._FilesGeneratorForNonRecursive)
           and result._files_selection is None and result._directory_prune is None}, raises_only=())


# ============================================================================== populating a directory from a file list

from exactly_lib.impls.types.files_source import file_maker as file_maker_mod
from exactly_lib.impls.types.files_source.impl import file_list
from exactly_lib.impls.types.files_source.impl.file_makers import utils as maker_utils, dir_ as dir_maker, \
    regular as regular_maker
from exactly_lib.impls.types.files_source.defs import ModificationType
from exactly_lib.impls import file_properties
from contracts.pathspec import parts_of, prefix, P0, join0

P_FL = 'exactly_lib.impls.types.files_source.impl.file_list'
P_MU = 'exactly_lib.impls.types.files_source.impl.file_makers.utils'

# ---- the validator of a file name

M.contract('exactly_lib.common.report_rendering.text_docs:single_line', trusted=True, returns=Any_,
           params=dict(line_object=Any_))
M.contract(P_FL + ':_IsValidPosixPath._err_msg', trusted=True, returns=Any_, params=dict(path=Str, header_tmpl=Str))
M.trust('error-message renderers (text_docs.single_line, _IsValidPosixPath._err_msg, path_err_msgs.*, '
        'file_properties.render_failure__d, FailureDetailsRenderer) return a message object (messages are outside the '
        'property)')


def is_valid_file_name(name):
    """the documented condition on a file name of a FILE-LIST"""
    return name != '' and ':' not in name and ';' not in name \
        and not is_abs(P(name)) and '..' not in parts_of(P(name))


M.contract(P_FL + ':_IsValidPosixPath.validate_pre_sds_if_applicable',
           params=dict(self=Inst(file_list._IsValidPosixPath, path_str=Str), hds=Any_), returns=Opt(Any_),
           ensures={'accepted iff not empty, no path separator, not absolute, no `..` component':
                        lambda self, result: iff(result is None, is_valid_file_name(self.path_str))},
           raises_only=())

# ---- the place of an entry: directory / name, component by component

M.contract(P_FL + ':_child_dp', params=dict(root=DESCRIBED_PATH, relative_path=Iface(PurePathI)),
           returns=DESCRIBED_PATH,
           ensures={'root joined with the relative path': lambda root, relative_path, result:
           den(result.primitive) == join(den(root.primitive), den(relative_path))}, raises_only=())
M.loop(P_FL + ':_child_dp', 0,
       invariant=lambda _i, root, relative_path, ret_val:
       pathspec.path_axioms()
       and den(ret_val.primitive) == join(den(root.primitive), prefix(den(relative_path), _i)),
       modifies=dict(ret_val=DESCRIBED_PATH, component='local'))


# ---- ghost log of the files made: (index of the specification, path)

def _log(interp, name):
    g = interp.st.ghost
    if name not in g:
        g[name] = {'n': 0}
    return g[name]


def _log_fn(name, field, sort):
    return z3.Function('log.%s.%s' % (name, field), z3.IntSort(), sort)


class _GhostEffectInMergedOperand(Exception):
    """raised by a model that changes ghost state while the engine evaluates the right operand of `and` / `or`
    speculatively (merged, without a case split): the engine then re-runs the path with a real case split there"""


def _log_append(interp, name, **fields):
    if interp.st.scopes:
        raise _GhostEffectInMergedOperand(name)
    lg = _log(interp, name)
    n = lg['n']
    nt = to_z3(n)
    for k, v in fields.items():
        t = to_z3(v)
        interp.st.assume(_log_fn(name, k, t.sort())(nt) == t)
    lg['n'] = wrap(nt + 1)


def _mk_log(interp, name):
    n = interp.st.fresh_int(name + '.n')
    interp.st.assume(n >= 0)
    return {'n': SInt(n)}


def made_count(ghost=None):
    """number of FileMaker.make calls so far (proof level)"""
    raise NotImplementedError


def made_spec(k):
    """index (in the file list) of the specification whose maker was called k-th"""
    raise NotImplementedError


def made_path(k):
    """the path given to the k-th call of FileMaker.make"""
    raise NotImplementedError


M.model(made_count, lambda interp, args, kwargs: _log(interp, 'made')['n'])
M.model(made_spec, lambda interp, args, kwargs: wrap(_log_fn('made', 'spec', z3.IntSort())(to_z3(args[0]))))
M.model(made_path, lambda interp, args, kwargs: wrap(_log_fn('made', 'path', z3.IntSort())(to_z3(args[0]))))


def _maker_make(interp, self, args, kwargs):
    """FileMaker.make(path): logged; fails with HardErrorException only (proved of the makers below)"""
    (path,) = args
    spec = self._pv_index[0] if self._pv_index else z3.IntVal(-1)
    _log_append(interp, 'made', spec=wrap(spec), path=interp.getattr(interp.getattr(path, 'primitive'), 'pid'))
    if interp.st.choose(2) == 1:
        raise PyRaise(HardErrorException(Any_.make(interp, 'error')))
    return None


class FileMakerI(Interface):
    target_class = file_maker_mod.FileMaker
    methods = {'make': Method(model=_maker_make)}


class FileSpecI(Interface):
    target_class = file_list.FileSpecification
    attrs = {'name': Str, 'maker': Iface(FileMakerI)}


def made_in_order(files, d, old, n):
    """the first n entries of the list were made, in the listed order, each at d/name"""
    return forall_range(0, n, lambda k: made_spec(old + k) == k
                                        and made_path(old + k) == join0(d, P0(files[k].name)))


M.contract(P_FL + ':Primitive.populate',
           params=dict(self=Inst(file_list.Primitive, _files=ListOf(Iface(FileSpecI)), _describer=Any_),
                       directory=DESCRIBED_PATH),
           old=lambda ghost: made_count(ghost),
           may_raise=(HardErrorException,),
           ensures={
               'every entry is made, in the listed order, at directory/name': lambda self, directory, old, ghost:
               made_count(ghost) == old + len(self._files)
               and made_in_order(self._files, den(directory.primitive), old, len(self._files)),
           }, raises_only=())
M.loop(P_FL + ':Primitive.populate', 0,
       invariant=lambda _i, self, directory, old:
       made_count() == old + _i and made_in_order(self._files, den(directory.primitive), old, _i),
       modifies={'file': 'local', 'ghost:made': Custom(_mk_log)})

# ---- FileMaker: hard errors are translated, nothing else is swallowed

M.contract('exactly_lib.impls.types.files_source.file_maker:FileMaker.make__translate_hard_error',
           params=dict(self=Iface(FileMakerI), path=DESCRIBED_PATH), returns=Opt(Any_),
           old=lambda ghost: made_count(ghost),
           ensures={'make is called once, on the path': lambda path, old, ghost:
           made_count(ghost) == old + 1 and made_path(old) == den(path.primitive)},
           raises_only=())

# ---- creating (=) and modifying (+=)


class CheckResultI(Interface):
    target_class = file_properties.CheckResult
    attrs = {'is_success': Bool, 'cause': Any_}


class FileCheckI(Interface):
    """file_properties.FilePropertiesCheck.apply(path): looks at the file system (event), gives a result"""
    methods = {'apply': Method(returns=Iface(CheckResultI), event='check')}


class MakerFunI(Interface):
    """the callable of a NewFileCreator / ExistingFileModifier: does file-system work (may fail with OSError) and
    populates (HardErrorException from nested entries)"""
    methods = {'__call__': Method(event='do-make', may_raise=(OSError, lambda interp, o: HardErrorException(None)))}


M.contract('exactly_lib.impls.file_properties:render_failure__d', trusted=True, returns=Any_,
           params=dict(properties_with_neg=Any_, file_path=Any_))
M.contract('exactly_lib.impls.types.path.path_err_msgs:line_header__primitive__path', trusted=True, returns=Any_,
           params=dict(header=Any_, path=Any_))

NEW_FILE_CREATOR = Inst(maker_utils.NewFileCreator, _maker=Iface(MakerFunI),
                        _FILE_EXISTENCE_CHECK=Iface(FileCheckI))


def events(trace, kind):
    return [e for e in trace if e[0] == kind]


M.contract(P_MU + ':NewFileCreator.make', params=dict(self=NEW_FILE_CREATOR, path=DESCRIBED_PATH),
           raises={HardErrorException: {}},
           ensures={'the path did not exist; it was made': lambda self, trace:
           len(events(trace, 'check')) == 1 and not events(trace, 'check:returned')[0][2].is_success
           and len(events(trace, 'do-make')) == 1},
           raises_only=())


def _refused_existing(trace):
    return events(trace, 'check:returned')[0][2].is_success and len(events(trace, 'do-make')) == 0


M.contract(P_MU + ':NewFileCreator._assert_is_valid_path', params=dict(self=NEW_FILE_CREATOR, path=DESCRIBED_PATH),
           inline=True,
           raises={HardErrorException: {'ensures': lambda trace: events(trace, 'check:returned')[0][2].is_success}},
           ensures={'does not exist': lambda trace: not events(trace, 'check:returned')[0][2].is_success},
           raises_only=())

EXISTING_FILE_MODIFIER = Inst(maker_utils.ExistingFileModifier, _maker=Iface(MakerFunI), _file_check=Iface(FileCheckI))

_REPLAY_APPEND = '''
import os, shutil, tempfile
from exactly_lib.impls.types.files_source.defs import ModificationType
from exactly_lib.impls.types.files_source.impl.file_makers.regular import RegularFileMaker
from exactly_lib.test_case.hard_error import HardErrorException
from exactly_lib.type_val_deps.types.path import path_ddvs

UNWRITABLE = '/proc/version'     # a regular file that cannot be opened for appending, even by root
if not os.path.isfile(UNWRITABLE):
    print('no unwritable regular file available'); sys.exit(2)


class Contents:
    def contents(self):
        return self

    def write_to(self, f):
        f.write('x')


d = tempfile.mkdtemp()
try:
    os.symlink(UNWRITABLE, os.path.join(d, 'existing'))
    path = path_ddvs.absolute_file_name(os.path.join(d, 'existing')).value_when_no_dir_dependencies__d()
    maker = RegularFileMaker(ModificationType.APPEND, Contents(), None)      # file existing += "x"
    try:
        error = maker.make__translate_hard_error(path)
        print('HARD_ERROR message returned:', error is not None); sys.exit(0)
    except HardErrorException:
        print('HardErrorException'); sys.exit(0)
    except OSError as ex:
        print('`file existing += ...`: %s escapes FileMaker.make (the instruction ends as INTERNAL_ERROR, exit 129, '
              'not HARD_ERROR): %r' % (type(ex).__name__, ex))
        sys.exit(1)
finally:
    shutil.rmtree(d)
'''

M.contract(P_MU + ':ExistingFileModifier.make', params=dict(self=EXISTING_FILE_MODIFIER, path=DESCRIBED_PATH),
           replay=lambda model, rf: _REPLAY_APPEND,
           raises={HardErrorException: {}},
           ensures={'the path exists with the right type; it was modified': lambda self, trace:
           events(trace, 'check:returned')[0][2].is_success and len(events(trace, 'do-make')) == 1},
           # the statement: populating "fails with HARD_ERROR" -- nothing but HardErrorException may escape
           raises_only=())


# ---- the two makers

P_DIR = 'exactly_lib.impls.types.files_source.impl.file_makers.dir_'
P_REG = 'exactly_lib.impls.types.files_source.impl.file_makers.regular'


class FilesSourceI(Interface):
    """FilesSource.populate(directory): fails with HardErrorException (proved of file_list.Primitive above and of
    copy_dir_contents._CopyDirContents below) or -- `dir-contents-of` whose source directory cannot be listed -- with
    an OSError, which the makers translate to HardErrorException (NewFileCreator.make / ExistingFileModifier.make)"""
    attrs = {'describer': Any_}
    methods = {'populate': Method(event='populate', may_raise=(lambda interp, o: HardErrorException(None), OSError))}


class ContentsI(Interface):
    methods = {'write_to': Method(event='write_to', may_raise=(lambda interp, o: HardErrorException(None),))}


class StringSourceI(Interface):
    methods = {'contents': Method(returns=Iface(ContentsI), pure=True)}


DIR_MAKER = Inst(dir_maker.DirFileMaker, _modification=EnumOf(ModificationType), _contents=Opt(Iface(FilesSourceI)),
                 _contents_describer=Any_, _modification_maker=Any_)
REG_MAKER = Inst(regular_maker.RegularFileMaker, _modification=EnumOf(ModificationType),
                 _contents=Iface(StringSourceI), _contents_description=Any_, _maker=Any_)


def ops(trace):
    """the file-system operations and populate / write calls of the trace, in order: (operation, path or object)"""
    return [(e[0], e[1]) for e in trace if e[0] in ('mkdir', 'open', 'populate', 'write_to', 'close', 'unlink')]


M.contract(P_DIR + ':DirFileMaker.__init__',
           params=dict(self=Inst(dir_maker.DirFileMaker), modification=EnumOf(ModificationType),
                       contents=Opt(Iface(FilesSourceI))), inline=True,
           ensures={'= creates a new directory, += adds to an existing DIRECTORY': lambda self, modification:
           (isinstance(self._modification_maker, maker_utils.NewFileCreator)
            and self._modification_maker._maker == self._create_dir)
           if modification is ModificationType.CREATE else
           (isinstance(self._modification_maker, maker_utils.ExistingFileModifier)
            and self._modification_maker._maker == self._add_to_dir
            and self._modification_maker._file_check._expected_file_type is file_properties.FileType.DIRECTORY)},
           raises_only=())

M.contract(P_DIR + ':DirFileMaker._create_dir', params=dict(self=DIR_MAKER, path=DESCRIBED_PATH),
           may_raise=(OSError, HardErrorException),
           ensures={'the directory is made (with parents), then populated': lambda self, path, trace:
           ops(trace) == ([('mkdir', path.primitive)] if self._contents is None
                          else [('mkdir', path.primitive), ('populate', self._contents)])
           and events(trace, 'mkdir')[0][2] == (True,)
           and (self._contents is None or events(trace, 'populate')[0][2] == (path,))},
           raises_only=())

M.contract(P_DIR + ':DirFileMaker._add_to_dir', params=dict(self=DIR_MAKER, path=DESCRIBED_PATH),
           may_raise=(HardErrorException, OSError),
           ensures={'the existing directory is populated, nothing else': lambda self, path, trace:
           ops(trace) == ([] if self._contents is None else [('populate', self._contents)])},
           raises_only=())

M.contract(P_REG + ':RegularFileMaker.__init__',
           params=dict(self=Inst(regular_maker.RegularFileMaker), modification=EnumOf(ModificationType),
                       contents=Iface(StringSourceI), contents_description=Any_), inline=True,
           ensures={'= creates a new file, += appends to an existing REGULAR file': lambda self, modification:
           (isinstance(self._maker, maker_utils.NewFileCreator) and self._maker._maker == self._create_file)
           if modification is ModificationType.CREATE else
           (isinstance(self._maker, maker_utils.ExistingFileModifier) and self._maker._maker == self._append_to_file
            and self._maker._file_check._expected_file_type is file_properties.FileType.REGULAR)},
           raises_only=())

M.contract(P_REG + ':RegularFileMaker._create_file', params=dict(self=REG_MAKER, path=DESCRIBED_PATH),
           may_raise=(OSError, HardErrorException),
           ensures={'parents are made, the file is created exclusively, written and closed': lambda self, path, trace:
           [o[0] for o in ops(trace)] == ['mkdir', 'open', 'write_to', 'close']
           and den(events(trace, 'mkdir')[0][1]) == pathspec.parent_of(den(path.primitive))
           and events(trace, 'mkdir')[0][2] == (True, True)
           and events(trace, 'open')[0][1] is path.primitive and events(trace, 'open')[0][2] == ('x',)},
           raises_only=())

M.contract(P_REG + ':RegularFileMaker._append_to_file', params=dict(self=REG_MAKER, path=DESCRIBED_PATH),
           may_raise=(OSError, HardErrorException),
           ensures={'the file is opened for appending, written and closed': lambda self, path, trace:
           [o[0] for o in ops(trace)] == ['open', 'write_to', 'close']
           and events(trace, 'open')[0][1] is path.primitive and events(trace, 'open')[0][2] == ('a',)},
           raises_only=())


# ============================================================================== the files matchers

from pyvc.models import SIter
from exactly_lib.impls.types.files_matcher.impl import num_files, emptiness, prune as prune_impl, \
    sub_set_selection, model_modifier_utils
from exactly_lib.impls.types.file_matcher.impl import file_type as file_type_impl, dir_contents
from exactly_lib.type_val_prims.matcher.file_matcher import FileTypeAccess

P_FM = 'exactly_lib.impls.types.files_matcher.impl'


def _model_files(interp, self, args, kwargs):
    """files(): a new iterator over THE files of the model"""
    return SIter(interp.getattr(self, 'files_seq'), 0)


class FilesMatcherModelI(Interface):
    """any FilesMatcherModel: files() iterates its files (`files_seq`); sub_set / prune give models"""
    target_class = FilesMatcherModel
    attrs = {'files_seq': FILE_MODELS}
    methods = {
        'files': Method(model=_model_files),
        'sub_set': Method(returns=Iface(lambda: FilesMatcherModelI), pure=True),
        'prune': Method(returns=Iface(lambda: FilesMatcherModelI), pure=True),
    }


ANY_MODEL = Iface(FilesMatcherModelI)

M.contract(P_FM + '.num_files:_PropertyGetter.get_from',
           params=dict(self=Inst(num_files._PropertyGetter), model=ANY_MODEL), returns=Int,
           ensures={'the number of files of the model': lambda model, result: result == len(model.files_seq)},
           raises_only=())
M.loop(P_FM + '.num_files:_PropertyGetter.get_from', 0, invariant=lambda _i, ret_val: ret_val == _i,
       modifies=dict(ret_val=Int, _='local'))

M.contract(P_FM + '.emptiness:_EmptinessMatcher.matches_w_trace',
           params=dict(self=Inst(emptiness._EmptinessMatcher), model=ANY_MODEL),
           ensures={'matches iff the model has no file': lambda model, result:
           iff(result.value, len(model.files_seq) == 0)}, raises_only=())

M.contract(P_FM + '.prune:_get_model', params=dict(dir_selector=FILE_MATCHER, model=ANY_MODEL), inline=True,
           ensures={'the model pruned by the selector': lambda dir_selector, model, result:
           result is model.prune(dir_selector)}, raises_only=())
M.contract(P_FM + '.sub_set_selection:_get_model', params=dict(file_selector=FILE_MATCHER, model=ANY_MODEL),
           inline=True,
           ensures={'the sub set of the model selected by the selector': lambda file_selector, model, result:
           result is model.sub_set(file_selector)}, raises_only=())

_MODIFIER_CONF = OneOf(prune_impl._CONFIGURATION, sub_set_selection._CONFIGURATION)

M.contract(P_FM + '.model_modifier_utils:_ModelGetter.get_from',
           params=dict(self=Inst(model_modifier_utils._ModelGetter, _configuration=_MODIFIER_CONF,
                                 _predicate=FILE_MATCHER), model=ANY_MODEL), inline=True,
           ensures={'-with-pruned / -selection: the matcher on the result is applied to model.prune / model.sub_set':
                        lambda self, model, result:
                        result is (model.prune(self._predicate)
                                   if self._configuration is prune_impl._CONFIGURATION
                                   else model.sub_set(self._predicate))}, raises_only=())


@M.check('matcher tables')
def _tables(ctx):
    ctx.obligation('prune._CONFIGURATION.get_model is prune._get_model; sub_set_selection likewise',
                   prune_impl._CONFIGURATION.get_model is prune_impl._get_model
                   and sub_set_selection._CONFIGURATION.get_model is sub_set_selection._get_model, 'enumeration')
    ctx.obligation('FileType has exactly REGULAR, DIRECTORY, SYMLINK',
                   {t.name for t in FileType} == {'REGULAR', 'DIRECTORY', 'SYMLINK'}, 'enumeration')


# ---- file matcher `type`

class TypeAccessI(Interface):
    target_class = FileTypeAccess
    methods = {'is_type': Method(returns=Bool, pure=True, may_raise=(OSError,)),
               'stat': Method(returns=Any_, may_raise=(OSError,))}


class TypedModelI(Interface):
    target_class = FileMatcherModel
    attrs = {'file_type_access': Iface(TypeAccessI), 'path': DESCRIBED_PATH}


M.contract('exactly_lib.impls.file_properties:lookup_file_type', trusted=True, returns=Opt(EnumOf(FileType)),
           params=dict(stat_result=Any_))
M.contract('exactly_lib.impls.description_tree.custom_details:PathDdvDetailsRenderer.__init__', trusted=True,
           params=dict(self=Any_, path=Any_))

_TYPE_MATCHER = Custom(lambda interp, name: interp.call(file_type_impl.FileMatcherType,
                                                        [EnumOf(FileType).make(interp, name + '.file_type')], {}))


def _type_holds(model, file_type):
    try:
        return model.file_type_access.is_type(file_type)
    except OSError:
        return False


M.contract('exactly_lib.impls.types.file_matcher.impl.file_type:FileMatcherType.matches_w_trace',
           params=dict(self=_TYPE_MATCHER, model=Iface(TypedModelI)),
           ensures={'matches iff the file has the type (an OSError is no match)': lambda self, model, result:
           iff(result.value, _type_holds(model, self._file_type))}, raises_only=())

# ---- dir-contents: the depth options reach `recursive` unchanged

M.contract('exactly_lib.impls.types.file_matcher.impl.dir_contents:_RecursiveModelConstructor.make_model',
           params=dict(self=Inst(dir_contents._RecursiveModelConstructor, _min_depth=Opt(Nat), _max_depth=Opt(Nat)),
                       model=Iface(TypedModelI)), inline=True,
           ensures={'recursive model of the path of the file with the given limits': lambda self, model, result:
           isinstance(result._files_generator, models._FilesGeneratorForRecursive)
           and result._dir_path is model.path
           and same_opt(result._files_generator._min_depth, self._min_depth)
           and same_opt(result._files_generator._max_depth, self._max_depth)
           and result._files_selection is None and result._directory_prune is None}, raises_only=())

M.contract('exactly_lib.impls.types.file_matcher.impl.dir_contents:_NonRecursiveModelConstructor.make_model',
           params=dict(self=Inst(dir_contents._NonRecursiveModelConstructor), model=Iface(TypedModelI)), inline=True,
           ensures={'non-recursive model of the path of the file': lambda model, result:
           isinstance(result._files_generator, models._FilesGeneratorForNonRecursive)
           and result._dir_path is model.path and result._files_selection is None
           and result._directory_prune is None}, raises_only=())


class IntDdvI(Interface):
    methods = {'value_of_any_dependency': Method(returns=Nat, pure=True), 'validator': Method(returns=Any_)}


def _opt_value(ddv, tcds):
    return None if ddv is None else ddv.value_of_any_dependency(tcds)


M.contract('exactly_lib.type_val_deps.dep_variants.ddv.ddv_validators:all_of', trusted=True, returns=Any_,
           params=dict(validators=Any_))

M.contract('exactly_lib.impls.types.file_matcher.impl.dir_contents:_RecursiveModelConstructorDdv.value_of_any_dependency',
           params=dict(self=Inst(dir_contents._RecursiveModelConstructorDdv, _min_depth=Opt(Iface(IntDdvI)),
                                 _max_depth=Opt(Iface(IntDdvI)), _validator=Any_), tcds=Any_), inline=True,
           ensures={'the values of the two depth options, each in its own place': lambda self, tcds, result:
           same_opt(result.primitive(None)._min_depth, _opt_value(self._min_depth, tcds))
           and same_opt(result.primitive(None)._max_depth, _opt_value(self._max_depth, tcds))}, raises_only=())


# ============================================================================== bounded stand-ins (never counted as proved)
# The breadth-first generator as a whole, files() / matches on it, and the populate-then-match round trip are run
# on REAL small directory trees (scratch directories under tempfile.mkdtemp(), removed afterwards) against
# definitions written from the reference manual over a tree data structure.

def _bounded_imports():
    import itertools
    import shutil
    import tempfile
    from pathlib import PurePosixPath
    from exactly_lib.type_val_deps.types.path import path_ddvs
    from exactly_lib.type_val_prims.files_condition import FilesCondition
    from exactly_lib.impls.types.files_matcher.impl.matches import matches_full, matches_non_full
    return itertools, shutil, tempfile, PurePosixPath, path_ddvs, FilesCondition, matches_full, matches_non_full


# ---- trees: ('F',) regular file, ('D', (child, ...)) directory, ('LF',) / ('LD',) / ('LB',) symbolic link to an
# external regular file / an external directory holding one file 'x' / nothing.  Children are named a, b, c ...

_LEAF_KINDS = ('F', 'LF', 'LD', 'LB')


def _trees(nodes, depth):
    """all forests (tuples of trees, sorted: children are an unordered set) with exactly `nodes` nodes and directories
    nested at most `depth` deep"""
    import itertools
    memo = {}

    def tree(n, d):  # trees with n nodes
        key = (n, d)
        if key not in memo:
            out = []
            if n == 1:
                out.extend((k,) for k in _LEAF_KINDS)
            if d > 0:
                for kids in forest(n - 1, d - 1):
                    out.append(('D', kids))
            memo[key] = out
        return memo[key]

    fmemo = {}

    def forest(n, d):  # sorted tuples of trees with n nodes in total
        key = (n, d)
        if key not in fmemo:
            out = set()
            if n == 0:
                out.add(())
            for first in range(1, n + 1):
                for t in tree(first, d):
                    for rest in forest(n - first, d):
                        out.add(tuple(sorted((t,) + rest, key=repr)))
            fmemo[key] = sorted(out, key=repr)
        return fmemo[key]

    return forest(nodes, depth)


def _names(n):
    return ['abcdefgh'[i] for i in range(n)]


def _build(root, forest, ext):
    for name, t in zip(_names(len(forest)), forest):
        p = os.path.join(root, name)
        if t[0] == 'F':
            open(p, 'w').close()
        elif t[0] == 'D':
            os.mkdir(p)
            _build(p, t[1], ext)
        elif t[0] == 'LF':
            os.symlink(os.path.join(ext, 'file'), p)
        elif t[0] == 'LD':
            os.symlink(os.path.join(ext, 'dir'), p)
        else:
            os.symlink(os.path.join(ext, 'missing'), p)


def _children(t):
    """the (name, tree) entries of a directory node as a directory scan sees them (symbolic links followed)"""
    if t[0] == 'D':
        return list(zip(_names(len(t[1])), t[1]))
    if t[0] == 'LD':
        return [('x', ('F',))]
    return None


def _reference_files(forest, min_depth, max_depth, prune):
    """Reference manual: depth 0 is the direct contents; a file at depth d is included iff min <= d <= max; the
    contents of a directory is visited unless the directory is pruned (the directory itself is still included).
    Returns {relative path: depth}."""
    out = {}

    def visit(entries, rel, depth):
        for name, t in entries:
            path = rel + [name]
            if (min_depth is None or depth >= min_depth) and (max_depth is None or depth <= max_depth):
                out['/'.join(path)] = depth
            kids = _children(t)
            if kids is not None and not prune(name, t) and (max_depth is None or depth < max_depth):
                visit(kids, path, depth + 1)

    visit(list(zip(_names(len(forest)), forest)), [], 0)
    return out


class _StubMatcher:
    """a FileMatcher for the stand-in: decides on the base name and on `is a directory` (symbolic links followed)"""

    def __init__(self, pred):
        self.pred = pred

    def matches_w_trace(self, model):
        return MatchingResult(bool(self.pred(model.path.primitive.name, model.path.primitive.is_dir())), None)

    def structure(self):
        return None


def _raise_unless_dir(name, is_dir):
    """a pruning matcher that is defined for directories only (like `dir-contents ...`): HARD_ERROR on anything else"""
    if not is_dir:
        raise HardErrorException(None)
    return False


_PRUNERS = {
    'none': (None, lambda name, t: False),
    'partial: defined for directories only, prunes nothing': (lambda: _StubMatcher(_raise_unless_dir),
                                                               lambda name, t: False),
    'named-a': (lambda: _StubMatcher(lambda name, is_dir: name == 'a'), lambda name, t: name == 'a'),
    'all': (lambda: constant_matcher.MatcherWithConstantResult(True), lambda name, t: True),
}
_SELECTORS = {
    'none': (None, lambda name, t: True),
    'dirs': (lambda: _StubMatcher(lambda name, is_dir: is_dir), lambda name, t: t[0] in ('D', 'LD')),
    'not-b': (lambda: _StubMatcher(lambda name, is_dir: name != 'b'), lambda name, t: name != 'b'),
}


def _node_at(forest, rel):
    entries = list(zip(_names(len(forest)), forest))
    t = None
    for comp in rel.split('/'):
        t = dict(entries)[comp]
        entries = _children(t) or []
    return t


@M.bounded('recursive generator on real trees')
def _bounded_generator(ctx):
    itertools, shutil, tempfile, PurePosixPath, path_ddvs, FilesCondition, matches_full, matches_non_full = \
        _bounded_imports()
    max_nodes, max_depth = (6, 3) if ctx.tier == 'thorough' else (4, 3)
    limits = [None, 0, 1, 2, 3]
    failures = []
    cases = 0
    n_trees = 0
    scratch = tempfile.mkdtemp(prefix='pyvc-c15-')
    try:
        ext = os.path.join(scratch, 'ext')
        os.mkdir(ext)
        open(os.path.join(ext, 'file'), 'w').close()
        os.mkdir(os.path.join(ext, 'dir'))
        open(os.path.join(ext, 'dir', 'x'), 'w').close()
        for n in range(0, max_nodes + 1):
            for forest in _trees(n, max_depth):
                n_trees += 1
                root = os.path.join(scratch, 't%d' % n_trees)
                os.mkdir(root)
                _build(root, forest, ext)
                dp = path_ddvs.absolute_file_name(root).value_when_no_dir_dependencies__d()
                # non-recursive: the direct contents
                actual = sorted(str(f.relative_to_root_dir) for f in models.non_recursive(dp).files())
                cases += 1
                if actual != _names(len(forest)):
                    failures.append({'input': repr((forest, 'non-recursive')), 'expected': _names(len(forest)),
                                     'actual': actual})
                for mn, mx in itertools.product(limits, limits):
                    for pname, (mk_prune, prune_ref) in _PRUNERS.items():
                        for sname, (mk_sel, sel_ref) in _SELECTORS.items():
                            model = models.recursive(dp, mn, mx)
                            if mk_prune is not None:
                                model = model.prune(mk_prune())
                            if mk_sel is not None:
                                model = model.sub_set(mk_sel())
                            try:
                                files = list(model.files())
                            except Exception as ex:     # nothing may escape on these (readable, loop-free) trees
                                cases += 1
                                failures.append({'input': repr((forest, mn, mx, pname, sname)),
                                                 'expected': 'no exception', 'actual': repr(ex)})
                                continue
                            actual = [str(f.relative_to_root_dir) for f in files]
                            ref = _reference_files(forest, mn, mx, prune_ref)
                            expected = {p: d for p, d in ref.items()
                                        if sel_ref(p.rpartition('/')[2], _node_at(forest, p))}
                            depths = [a.count('/') for a in actual]
                            ok = sorted(actual) == sorted(expected) and len(set(actual)) == len(actual) \
                                and depths == sorted(depths) \
                                and all(str(f.path.primitive) == os.path.join(root, str(f.relative_to_root_dir))
                                        for f in files)
                            cases += 1
                            if not ok:
                                failures.append({'input': repr((forest, mn, mx, pname, sname)),
                                                 'expected': sorted(expected), 'actual': actual})
                shutil.rmtree(root)
    finally:
        shutil.rmtree(scratch, ignore_errors=True)
    ctx.bounded_result('models._FilesGeneratorForRecursive.generate / _FilesGeneratorForNonRecursive.generate / '
                       '_FilesMatcherModelForDir.files on real directories',
                       bound='all trees of regular files, directories and symbolic links (to a file, to a directory, '
                             'dangling) with <= %d nodes, depth <= %d; (min, max) in {None,0..3}^2; 4 pruning x 3 '
                             'selection matchers' % (max_nodes, max_depth),
                       cases=cases, exhaustive=True, failures=failures,
                       note='%d trees; compared: set of relative paths, no duplicates, breadth-first order '
                            '(non-decreasing depth), absolute path == root/relative' % n_trees)


# ---- FILE-LISTs: ('file', name, '=' | '+=', token) / ('dir', name, '=' | '+=', nested list or None)

def _reference_populate(entries, tree, base=()):
    """Reference manual: entries are applied in the listed order.  `=` requires that the name does not exist and
    creates missing parent directories; `+=` requires an existing file of the right type.  A regular file holds the
    concatenation of the contents given to it.  Raises _HardError at the first entry that cannot be applied.
    `tree`: {path tuple: 'D' or the contents of a regular file} -- modified in place."""

    def ensure_parents(path):
        for i in range(len(base) + 1, len(path)):
            p = path[:i]
            if p in tree:
                if tree[p] != 'D':
                    raise _HardError(p)
            else:
                tree[p] = 'D'

    for kind, name, mod, arg in entries:
        path = base + tuple(name.split('/'))
        if mod == '=':
            if path in tree:
                raise _HardError(path)
            ensure_parents(path)
            if kind == 'file':
                tree[path] = arg
            else:
                tree[path] = 'D'
                if arg is not None:
                    _reference_populate(arg, tree, path)
        else:
            if kind == 'file':
                if path not in tree or tree[path] == 'D':
                    raise _HardError(path)
                tree[path] += arg
            else:
                if tree.get(path) != 'D':
                    raise _HardError(path)
                if arg is not None:
                    _reference_populate(arg, tree, path)


class _HardError(Exception):
    pass


class _Contents:
    def __init__(self, text):
        self.text = text

    def contents(self):
        return self

    def write_to(self, f):
        f.write(self.text)


def _real_files_source(entries):
    specs = []
    for kind, name, mod, arg in entries:
        modification = ModificationType.CREATE if mod == '=' else ModificationType.APPEND
        if kind == 'file':
            maker = regular_maker.RegularFileMaker(modification, _Contents(arg), None)
        else:
            maker = dir_maker.DirFileMaker(modification, None if arg is None else _real_files_source(arg))
        specs.append(file_list.FileSpecification(name, maker))
    return file_list.Primitive(specs)


def _disk_tree(root):
    out = {}
    for d, dirs, files in os.walk(root):
        rel = tuple(os.path.relpath(d, root).split(os.sep)) if d != root else ()
        for x in dirs:
            out[rel + (x,)] = 'D'
        for x in files:
            with open(os.path.join(d, x)) as f:
                out[rel + (x,)] = f.read()
    return out


def _file_lists(max_len, nested=True):
    import itertools
    atoms = [('file', 'a', '=', '1'), ('file', 'a', '+=', '2'), ('file', 'd/a', '=', '3'), ('file', 'd', '=', '4'),
             ('dir', 'd', '=', None), ('dir', 'd', '+=', None), ('dir', 'd/e', '=', None), ('file', 'd/e/a', '+=', '5')]
    if nested:
        inner = [('file', 'a', '=', '6'), ('file', 'a', '+=', '7'), ('dir', 'e', '=', None)]
        for k in range(0, 3):
            for sub in itertools.permutations(inner, k):
                atoms.append(('dir', 'd', '=', tuple(sub)))
                atoms.append(('dir', 'd', '+=', tuple(sub)))
    for n in range(0, max_len + 1):
        for lst in itertools.product(atoms, repeat=n):
            yield lst


@M.bounded('populate a directory from a file list, then match it')
def _bounded_populate(ctx):
    itertools, shutil, tempfile, PurePosixPath, path_ddvs, FilesCondition, matches_full, matches_non_full = \
        _bounded_imports()
    from exactly_lib.util.description_tree import details

    class Condition(FilesCondition):
        def __init__(self, files):
            self._files = files

        @property
        def files(self):
            return self._files

        @property
        def describer(self):
            return details.empty()

    max_len = 3 if ctx.tier == 'thorough' else 2
    failures = []
    cases = 0
    scratch = tempfile.mkdtemp(prefix='pyvc-c15-')
    try:
        for i, entries in enumerate(_file_lists(max_len)):
            root = os.path.join(scratch, 'p%d' % i)
            os.mkdir(root)
            dp = path_ddvs.absolute_file_name(root).value_when_no_dir_dependencies__d()
            expected_tree = {}
            try:
                _reference_populate(entries, expected_tree)
                expected_error = False
            except _HardError:
                expected_error = True
            try:
                _real_files_source(entries).populate(dp)
                actual_error = False
            except HardErrorException:
                actual_error = True
            except Exception as ex:   # anything but HARD_ERROR contradicts the statement
                actual_error = repr(ex)
            actual_tree = _disk_tree(root)
            cases += 1
            if actual_error != expected_error or actual_tree != expected_tree:
                failures.append({'input': repr(entries), 'expected': repr((expected_error, expected_tree)),
                                 'actual': repr((actual_error, actual_tree))})
            # the populated tree matches the condition made of exactly its paths -- and no other
            paths = sorted('/'.join(p) for p in actual_tree)
            model = models.recursive(dp)
            is_dir = _StubMatcher(lambda name, d: d)
            not_dir = _StubMatcher(lambda name, d: not d)
            exact = {PurePosixPath(p): (is_dir if actual_tree[tuple(p.split('/'))] == 'D' else not_dir) for p in paths}
            more = dict(exact)
            more[PurePosixPath('zz')] = None
            checks = [('full, exact', matches_full._Applier, exact, True),
                      ('non-full, exact', matches_non_full._Applier, exact, True),
                      ('full, one more expected', matches_full._Applier, more, False),
                      ('non-full, one more expected', matches_non_full._Applier, more, False)]
            if paths:
                less = {k: v for k, v in exact.items() if k != PurePosixPath(paths[-1])}
                wrong = dict(exact)
                wrong[PurePosixPath(paths[0])] = (not_dir if exact[PurePosixPath(paths[0])] is is_dir else is_dir)
                checks += [('full, one less expected', matches_full._Applier, less, False),
                           ('non-full, one less expected', matches_non_full._Applier, less, True),
                           ('full, one matcher rejects', matches_full._Applier, wrong, False),
                           ('non-full, one matcher rejects', matches_non_full._Applier, wrong, False)]
            for label, applier, cond, expected in checks:
                try:
                    actual = applier('matches', Condition(cond), model).apply().value
                except Exception as ex:
                    actual = repr(ex)
                cases += 1
                if actual is not expected:
                    failures.append({'input': repr((entries, label)), 'expected': expected, 'actual': actual})
            try:
                n = sum(1 for _ in model.files())
            except Exception as ex:
                n = repr(ex)
            cases += 1
            if n != len(paths):
                failures.append({'input': repr((entries, 'num-files / is-empty')), 'expected': len(paths), 'actual': n})
            shutil.rmtree(root)
    finally:
        shutil.rmtree(scratch, ignore_errors=True)
    ctx.bounded_result('file_list.Primitive.populate with the real makers on real directories, then matches [-full], '
                       'num-files, is-empty on the result',
                       bound='all FILE-LISTs of <= %d entries over %d entry forms (file/dir, = and +=, nested lists, '
                             'clashes, parents in names)' % (max_len, len(list(_file_lists(1))) - 1),
                       cases=cases, exhaustive=True, failures=failures,
                       note='compared: HARD_ERROR or not, the resulting tree with file contents (entries applied in the '
                            'listed order), verdicts of matches / matches -full against the exact, a larger, a smaller '
                            'and a rejecting condition')


# ============================================================================== matches -full: count, names, matchers

from pyvc.api import MListOf, RefTo
from exactly_lib.impls.types.files_matcher.impl.matches import matches_full, common as matches_common

P_MF = 'exactly_lib.impls.types.files_matcher.impl.matches.matches_full'


# FilesCondition.files: a mapping  pure path -> optional FileMatcher.  has_key / is_checked / matcher_at are
# functions of the key; n_keys is the number of keys.

def _map_getitem(interp, self, args, kwargs):
    pid = pathspec.pid_of(interp, args[0])
    has = interp.reg.call_opaque(interp, self, 'has_key', [pid], {})
    if not interp.branch(has):
        raise PyRaise(KeyError('no such file name'))
    checked = interp.reg.call_opaque(interp, self, 'is_checked', [pid], {})
    m = interp.reg.call_opaque(interp, self, 'matcher_at', [pid], {})
    return SOpt(z3.Not(to_z3(checked)), m)


class KeysI(Interface):
    methods = {'__len__': Method(returns=Nat, pure=True)}


class FilesMapI(Interface):
    methods = {
        'has_key': Method(returns=Bool, pure=True),
        'is_checked': Method(returns=Bool, pure=True),
        'matcher_at': Method(returns=FILE_MATCHER, pure=True),
        'keys': Method(returns=Iface(KeysI), pure=True),
        '__getitem__': Method(model=_map_getitem),
    }


class FilesConditionI(Interface):
    attrs = {'files': Iface(FilesMapI), 'describer': Any_}


def n_keys(fc):
    return len(fc.files.keys())


def expected_name(fc, file):
    """the relative path of the file is a key of the condition"""
    return fc.files.has_key(den(file.relative_to_root_dir))


def _accepted_by_condition(interp, args, kwargs):
    """no case split: (not checked) or D(matcher_at(key), file) as one term"""
    fc, f = args
    files = interp.getattr(fc, 'files')
    pid = interp.getattr(interp.getattr(f, 'relative_to_root_dir'), 'pid')
    checked = interp.reg.call_opaque(interp, files, 'is_checked', [pid], {})
    m = interp.reg.call_opaque(interp, files, 'matcher_at', [pid], {})
    d = interp.reg.call_opaque(interp, m, 'D', [interp.getattr(f, 'fid')], {})
    return wrap(z3.Or(z3.Not(to_z3(checked)), to_z3(d)))


def accepted_by_condition(fc, file):
    """the matcher the condition gives for the name of the file (if any) accepts the file"""
    m = fc.files[den(file.relative_to_root_dir)]
    return m is None or m.D(file.fid)


M.model(accepted_by_condition, _accepted_by_condition)


def _name_match_ok(interp, args, kwargs):
    nm = args[0]
    m = nm.fc_matcher
    fid = interp.getattr(nm.match_from_model, 'fid')
    if m is None:
        return True
    if isinstance(m, SOpt):
        d = interp.reg.call_opaque(interp, m.val, 'D', [fid], {})
        return wrap(z3.Or(m.is_none, to_z3(d)))
    return interp.reg.call_opaque(interp, m, 'D', [fid], {})


def name_match_ok(nm):
    """a _NameMatch without matcher, or whose matcher accepts its file"""
    return nm.fc_matcher is None or nm.fc_matcher.D(nm.match_from_model.fid)


M.model(name_match_ok, _name_match_ok)


def _index_of(interp, args, kwargs):
    return wrap(args[0]._pv_index[0])


def index_of(x):
    """position of a file in the sequence of files of the model (proof level)"""
    raise NotImplementedError


M.model(index_of, _index_of)

_FILE_REF = RefTo(FileModelI, 'model.files_seq[]')
_MATCHER_REF = RefTo(FileMatcherI, 'files_condition.files.matcher_at()')
_NAME_MATCH = Inst(matches_full._NameMatch, fc_path=Iface(PurePathI), fc_matcher=Opt(_MATCHER_REF),
                   match_from_model=_FILE_REF)


def _mk_applier(interp, name):
    a = object.__new__(matches_full._Applier)
    a.name = Str.make(interp, 'name')
    a.files_condition = new_opaque(interp, FilesConditionI, 'files_condition')
    a.model = new_opaque(interp, FilesMatcherModelI, 'model')
    xs = interp.getattr(a.model, 'files_seq')
    interp.getattr(a.files_condition, 'files')      # (created here, not inside a quantified clause)
    pos = interp.st.fresh_int('model_files_iter.pos')
    interp.st.assume(z3.And(pos >= 0, pos <= xs.length))
    a.model_files_iter = SIter(xs, wrap(pos))
    return a


APPLIER = Custom(_mk_applier)


def _advance(interp, args, kwargs):
    it, n = args
    it.pos = wrap(to_z3(it.pos) + to_z3(n))
    return True


def advance(it, n):
    """proof level: the iterator has consumed n more items"""
    raise NotImplementedError


M.model(advance, _advance)


def remaining(self):
    return len(self.model_files_iter.xs) - self.model_files_iter.pos


M.contract(P_MF + ':_Applier._try_get_num_files', params=dict(self=APPLIER, num_files=Int),
           requires=lambda num_files: num_files >= 1,
           old=lambda self: self.model_files_iter.pos,
           returns=MListOf(_FILE_REF),
           ensures={
               # at call sites: the callee's effect on the iterator (contracts do not havoc the state of arguments)
               'effect: the iterator is advanced': (lambda self, result: advance(self.model_files_iter, len(result)),
                                                    'effect'),
               'the next min(num_files, remaining) files': lambda self, num_files, result, old:
               len(result) == min(num_files, len(self.model_files_iter.xs) - old)
               and self.model_files_iter.pos == old + len(result),
               'in order': lambda result, old: forall_range(0, len(result), lambda k: index_of(result[k]) == old + k),
           }, raises_only=())
M.loop(P_MF + ':_Applier._try_get_num_files', 0,
       invariant=lambda _i, _start, ret_val, num_fetched, num_files:
       len(ret_val) == _i - _start and num_fetched == len(ret_val) and num_fetched < num_files
       and forall_range(0, len(ret_val), lambda k: index_of(ret_val[k]) == _start + k),
       modifies=dict(ret_val=MListOf(_FILE_REF), num_fetched=Int, x='local'))

M.contract(P_MF + ':_Applier._model_has_more_files', params=dict(self=APPLIER), returns=Bool,
           old=lambda self: self.model_files_iter.pos,
           ensures={'iff the iterator is not exhausted': lambda self, result, old:
           iff(result, old < len(self.model_files_iter.xs))}, raises_only=())
M.loop(P_MF + ':_Applier._model_has_more_files', 0, invariant=lambda _i, _start: _i == _start,
       modifies=dict(_='local'))

M.contract(P_MF + ':_Applier._continue_w_file_matcher_check',
           params=dict(self=APPLIER, files=MListOf(_NAME_MATCH)), returns=Iface(MatchResultI),
           ensures={'True iff every matcher accepts its file': lambda files, result:
           iff(result.value, forall_range(0, len(files), lambda j: name_match_ok(files[j])))},
           raises_only=())
M.loop(P_MF + ':_Applier._continue_w_file_matcher_check', 0,
       invariant=lambda _i, files: forall_range(0, _i, lambda j: name_match_ok(files[j])),
       modifies=dict(name_match='local', file_model='local', matching_result='local'))


def names_and_matchers_ok(fc, files, lo, hi):
    """every file of files[lo:hi] has an expected name and is accepted by the matcher given for its name"""
    return forall_range(lo, hi, lambda i: expected_name(fc, files[i]) and accepted_by_condition(fc, files[i]))


def _corresponds(fc, nm, file):
    return index_of(nm.match_from_model) == index_of(file) and iff(name_match_ok(nm), accepted_by_condition(fc, file))


M.contract(P_MF + ':_Applier._continue_w_file_name_check',
           params=dict(self=APPLIER, actual=MListOf(_FILE_REF)), returns=Iface(MatchResultI),
           ensures={'True iff every file has an expected name and is accepted by the matcher of its name':
                        lambda self, actual, result:
                        iff(result.value, names_and_matchers_ok(self.files_condition, actual, 0, len(actual)))},
           raises_only=())
M.loop(P_MF + ':_Applier._continue_w_file_name_check', 0,
       invariant=lambda _i, self, actual, name_matches:
       len(name_matches) == _i
       and forall_range(0, _i, lambda j: expected_name(self.files_condition, actual[j])
                                         and _corresponds(self.files_condition, name_matches[j], actual[j])),
       modifies=dict(name_matches=MListOf(_NAME_MATCH), actual_file='local', actual_as_pure_posix='local',
                     corresponding_file_matcher='local'))


def full_match(fc, files, lo):
    """matches -full, for the files files[lo:]: as many files as names in the condition, every file has one of the
    names and satisfies the matcher of its name.  (The relative paths of the files of a directory tree are pairwise
    distinct, so `as many` and `every file has one of the names` make the two SETS of names equal: pigeonhole.)"""
    return len(files) - lo == n_keys(fc) and names_and_matchers_ok(fc, files, lo, len(files))


M.contract(P_MF + ':_Applier._start_w_num_files_check', params=dict(self=APPLIER), returns=Iface(MatchResultI),
           old=lambda self: self.model_files_iter.pos,
           ensures={'the documented verdict of matches -full': lambda self, result, old:
           iff(result.value, full_match(self.files_condition, self.model_files_iter.xs, old))},
           raises_only=())

M.contract(P_MF + ':_Applier.apply', params=dict(self=APPLIER), inline=True,
           old=lambda self: self.model_files_iter.pos,
           ensures={'the documented verdict of matches -full': lambda self, result, old:
           iff(result.value, full_match(self.files_condition, self.model_files_iter.xs, old))},
           raises_only=())

M.contract(P_MF + ':_Applier.__init__',
           params=dict(self=Inst(matches_full._Applier), name=Str, files_condition=Iface(FilesConditionI),
                       model=ANY_MODEL), inline=True,
           ensures={'a new iterator over the files of the model': lambda self, files_condition, model:
           self.files_condition is files_condition and self.model is model
           and self.model_files_iter.xs is model.files_seq and self.model_files_iter.pos == 0}, raises_only=())

M.assume('the relative paths of the files of a FilesMatcherModel are pairwise distinct (os.scandir gives each entry of '
         'a directory once, names within a directory are distinct): with it, `as many files as names` and `every file '
         'has one of the names` mean that the SET of relative paths equals the key set of the condition (pigeonhole)')


# ============================================================================== one step of the breadth-first generator
# `generate` is verified with loop invariants that say what ONE iteration of the outer loop does with the directory
# it takes from the front of the worklist (the inner loop invariant at its exit is the step contract).  That the loop
# as a whole visits exactly the documented files is the bounded stand-in above.

class DirNodeI(Interface):
    """the directory at a path, at a time (the ghost `fs_epoch` of contracts/pathspec.py): its entries, in the order
    os.scandir gives them -- the abstract directory tree the files-matcher models are specified against"""
    attrs = {'entries': ListOf(DIR_ENTRY)}


def dir_entries(interp, pid):
    """the entries of the directory with denotation pid NOW: a function of (time, path)"""
    node = new_opaque(interp, DirNodeI, 'fs.dir', index=(pathspec._epoch(interp), to_z3(pid)))
    return interp.getattr(node, 'entries')


def _scandir(interp, args, kwargs):
    """os.scandir(d): some sequence of entries, or OSError.  Snapshot for the step contract: the number of items
    yielded and the length of the worklist when the scan of a directory starts."""
    if interp.st.choose(2) == 1:
        raise PyRaise(OSError('scandir'))
    entries = dir_entries(interp, pathspec.pid_of(interp, args[0]))
    snap = {'y0': wrap(interp.collect[1].length) if interp.collect is not None else 0}
    for fr in reversed(interp.frame_stack):
        if 'remaining_dirs' in fr.locals:
            snap['q0'] = wrap(fr.locals['remaining_dirs'].length)
            break
    snap['a0'] = _log(interp, 'applied')['n']
    interp.st.ghost['scan'] = snap
    return entries


M.model(os.scandir, _scandir)


def yielded_at_scan():
    """number of items yielded when the scan of the current directory started (proof level)"""
    raise NotImplementedError


def queued_at_scan():
    """length of the worklist when the scan of the current directory started (proof level)"""
    raise NotImplementedError


M.model(yielded_at_scan, lambda interp, args, kwargs: interp.st.ghost['scan']['y0'])
M.model(queued_at_scan, lambda interp, args, kwargs: interp.st.ghost['scan']['q0'])

DescribedPathI.mlist_codec = (('int',), lambda interp, o: [interp.getattr(interp.getattr(o, 'primitive'), 'pid')],
                              lambda interp, scalars: new_described_path(interp, scalars[0]))

_WORKLIST = MListOf(Inst(models._FilesInDir, _relative_parent=PATH, _absolute_parent=DESCRIBED_PATH, depth=Int))


def within_min(self, depth):
    return self._min_depth is None or depth >= self._min_depth


def at_max(self, depth):
    return self._max_depth is not None and depth == self._max_depth


def worklist_ok(self, q):
    """every directory waiting to be scanned is within the depth window (nothing deeper than max is ever scanned)"""
    return forall_range(0, len(q), lambda k: q[k].depth >= 0
                                             and (self._max_depth is None or q[k].depth <= self._max_depth))


def step(self, cur, entries, i, q, yielded):
    """what the scan of directory `cur` has done after its first i entries:
    every entry has been yielded iff min is absent or depth >= min; nothing is queued when depth == max, otherwise at
    most one directory per entry, at the BACK of the worklist, one level deeper and named parent/NAME-OF-AN-ENTRY"""
    return len(yielded) == yielded_at_scan() + (i if within_min(self, cur.depth) else 0) \
        and implies(within_min(self, cur.depth),
                    forall_range(yielded_at_scan(), len(yielded), lambda k: yielded.src(k) == k - yielded_at_scan())) \
        and queued_at_scan() <= len(q) and len(q) - queued_at_scan() <= i \
        and implies(at_max(self, cur.depth), len(q) == queued_at_scan()) \
        and forall_range(queued_at_scan(), len(q), lambda k: q[k].depth == cur.depth + 1)


def to_be_scanned(prune, e):
    """the entry is a directory that is not pruned"""
    return e.dir_flag and not accepts(prune, e.fid)


def queued_are_the_unpruned_directories(cur, prune, entries, i, q):
    """unless depth == max: an entry is queued  <=>  it is a directory and not pruned (names are distinct within a
    directory: an entry is identified by parent/name)"""
    rel = den(cur._relative_parent)
    q0 = queued_at_scan()
    return forall_range(q0, len(q), lambda k: exists_range(0, i, lambda j:
    den(q[k]._relative_parent) == join0(rel, P0(entries[j].name)) and to_be_scanned(prune, entries[j]))) \
        and forall_range(0, i, lambda j: implies(to_be_scanned(prune, entries[j]), exists_range(q0, len(q), lambda k:
        den(q[k]._relative_parent) == join0(rel, P0(entries[j].name)))))


def _prune_matches_w_trace(interp, self, args, kwargs):
    """the pruning matcher of -with-pruned: every APPLICATION is a ghost event (log `applied`: the entry it is applied
    to); it may be defined for directories only (dir-contents ...): HardErrorException is a possible outcome"""
    model = args[0]
    entry = model._file_type_access._dir_entry if isinstance(model, models._FileMatcherModel) else None
    src = wrap(entry._pv_index[-1]) if entry is not None and entry._pv_index else -1
    _log_append(interp, 'applied', src=src, fid=_fid_of(interp, [model], {}))
    # (a HardErrorException of a partial matcher leaves `generate` at once -- an allowed outcome on which nothing is
    # claimed -- so that outcome is not explored here)
    return _matches_w_trace(interp, self, args, kwargs)


class PruneMatcherI(FileMatcherI):
    methods = {'matches_w_trace': Method(model=_prune_matches_w_trace)}


def applied_count():
    """number of applications of the pruning matcher so far (proof level)"""
    raise NotImplementedError


def applied_src(k):
    """index (in the scan of its directory) of the entry the pruning matcher was applied to the k-th time"""
    raise NotImplementedError


def applied_at_scan():
    raise NotImplementedError


M.model(applied_count, lambda interp, args, kwargs: _log(interp, 'applied')['n'])
M.model(applied_src, lambda interp, args, kwargs: wrap(_log_fn('applied', 'src', z3.IntSort())(to_z3(args[0]))))
M.model(applied_at_scan, lambda interp, args, kwargs: interp.st.ghost['scan']['a0'])


def pruning_matcher_applied_to_directories_only(self, cur, prune, entries, i):
    """Reference manual (-with-pruned): the pruning matcher is applied to directories (and symbolic links to
    directories) only.  After the first i entries of the scanned directory: not applied at all when depth == max (or
    when there is no pruning matcher); otherwise as many times as there are directories among them, each time to a
    directory, in the order of the entries and never twice to the same -- i.e. exactly ONCE to each directory, and to
    nothing else."""
    a0 = applied_at_scan()
    n = applied_count()
    if at_max(self, cur.depth) or not is_opaque(prune):
        return n == a0
    return n - a0 == count_prefix(entries, i, entry_is_directory) \
        and forall_range(a0, n, lambda k: 0 <= applied_src(k) and applied_src(k) < i
                                          and entries[applied_src(k)].dir_flag) \
        and forall_range(a0, n - 1, lambda k: applied_src(k) < applied_src(k + 1))


def entry_is_directory(e):
    return e.dir_flag


# ---- the walk as a whole against the abstract directory tree (extension F15): WHICH directories are scanned
# The documented set of directories whose contents are looked at is the LEAST set closed under
#   (R0) the root directory, at depth 0;
#   (R1) an entry of a directory of the set at depth d != max that is a directory (symbolic links followed) and is not
#        pruned: root/.../NAME at depth d + 1.
# `in_walk` is an ARBITRARY predicate (uninterpreted) that is closed under R0 and R1 -- the hypothesis `closed_under_the_
# rules` is a precondition on this ghost, not on the code or its environment (the constant-true predicate satisfies it).
# What is proved for every closed predicate holds for the least one: every directory the generator ever scans belongs
# to the documented set.  With the step contract (what ONE scan yields and queues) that is the soundness half of "the
# files generated are the files at depth [min, max] not below a pruned directory".

def _in_walk(interp, args, kwargs):
    a, dp = args
    return wrap(z3.Function('tree.in_walk', z3.IntSort(), z3.IntSort(), z3.BoolSort())(to_z3(a), to_z3(dp)))


def in_walk(a, depth):
    """the directory with (absolute) denotation a, at depth `depth`, is one whose contents the walk looks at"""
    raise NotImplementedError('proof-level only')


M.model(in_walk, _in_walk)


def entries_at(a):
    """the entries of the directory with denotation a, as os.scandir gives them now (proof level)"""
    raise NotImplementedError('proof-level only')


M.model(entries_at, lambda interp, args, kwargs: dir_entries(interp, args[0]))


def pruned_by(prune, fid):
    if prune is None:
        return False
    return accepts(prune, fid)


def _at_max_term(self, d):
    md = self._max_depth
    if md is None:
        return z3.BoolVal(False)
    if isinstance(md, SOpt):
        return z3.And(z3.Not(md.is_none), d == to_z3(md.val))
    return d == to_z3(md)


def _closed_under_the_rules(interp, args, kwargs):
    """R0, and R1 as ONE universally quantified fact over (directory a, depth, entry index j):
        in_walk(a, depth), depth >= 0, depth is not the maximum, entry j of a is a directory and is not pruned
        ==>  in_walk(a / NAME-OF-ENTRY-j, depth + 1)
    with the pattern {in_walk(a, depth), name of entry j of a}: instantiated by matching only"""
    from pyvc.models import slist_elem
    self, root, prune = args
    st = interp.st
    if isinstance(prune, SOpt):
        prune = interp.resolve(prune)           # (the code makes the same case distinction first thing)
    a, d, j = st.fresh_int('walk.a'), st.fresh_int('walk.depth'), st.fresh_int('walk.j')
    n_dec = len(st.decisions)
    es = dir_entries(interp, SInt(a))
    e = slist_elem(interp, es, j)
    name = interp.getattr(e, 'name')
    fid = interp.getattr(e, 'fid')
    walk = lambda x, y: to_z3(_in_walk(interp, [x, y], {}))
    prem = z3.And(walk(SInt(a), SInt(d)), d >= 0, z3.Not(_at_max_term(self, d)),
                  j >= 0, j < es.length, to_z3(interp.getattr(e, 'dir_flag')),
                  z3.Not(to_z3(interp.truth(interp.call(pruned_by, [prune, fid], {})))))
    child = pathspec._m_join0(interp, [SInt(a), pathspec._m_P0(interp, [name], {})], {})
    concl = walk(child, SInt(d + 1))
    if len(st.decisions) != n_dec:
        from pyvc.path import Unsupported
        raise Unsupported('closed_under_the_rules: case split in the rule')
    r0 = walk(pathspec.pid_of(interp, interp.getattr(root, 'primitive')), 0)
    pat = z3.MultiPattern(walk(SInt(a), SInt(d)), to_z3(name))
    r1 = z3.ForAll([a, d, j], z3.Implies(prem, concl), patterns=[pat])
    return wrap(z3.And(r0, r1))


def closed_under_the_rules(self, root, prune):
    raise NotImplementedError('proof-level only')


M.model(closed_under_the_rules, _closed_under_the_rules)


def waiting_are_in_the_walk(q):
    """every directory waiting to be scanned is one of the documented set"""
    return forall_range(0, len(q), lambda k: in_walk(den(q[k]._absolute_parent.primitive), q[k].depth))


def breadth_first(q):
    """the worklist is sorted by depth and spans at most two levels (directories are taken from the front, their
    sub directories -- one level deeper -- are put at the back): shallower directories are scanned first"""
    return forall_range(0, len(q) - 1, lambda k: q[k].depth <= q[k + 1].depth) \
        and (len(q) == 0 or q[len(q) - 1].depth <= q[0].depth + 1)


def breadth_first_during_scan(cur, q):
    """while `cur` (taken from the front) is scanned: everything waiting is at its level or one below, sorted"""
    return forall_range(0, len(q) - 1, lambda k: q[k].depth <= q[k + 1].depth) \
        and forall_range(0, len(q), lambda k: cur.depth <= q[k].depth and q[k].depth <= cur.depth + 1)


# The `walk` conjuncts are ON.  OFF: the `bfs` conjuncts -- with them `generate` (44 paths) does not finish within 8 minutes
# (extension F15; see notes/C15.md).  C15_WALK=bfs | walk | both switches them on for experiments.
_WALK = os.environ.get('C15_WALK', 'walk')
_WALK_PROOF = _WALK in ('walk', 'both')
_BFS_PROOF = _WALK in ('bfs', 'both')

M.contract(P_MODELS + ':_FilesGeneratorForRecursive.generate',
           params=dict(self=GENERATOR, root_dir_path=DESCRIBED_PATH, directory_prune=Opt(Iface(PruneMatcherI))),
           requires=(lambda self, root_dir_path, directory_prune:
                     closed_under_the_rules(self, root_dir_path, directory_prune)) if _WALK_PROOF else None,
           yields=ListOf(Iface(FileModelI)),
           # os.scandir failing is NOT translated (only is_dir() is): an OSError may escape, see notes/C15.md
           may_raise=(HardErrorException, OSError),
           ensures={'terminates with an empty worklist': lambda yielded: len(yielded) >= 0},
           raises_only=())
M.loop(P_MODELS + ':_FilesGeneratorForRecursive.generate', 0,
       invariant=lambda self, remaining_dirs: worklist_ok(self, remaining_dirs)
       and ((not _BFS_PROOF) or breadth_first(remaining_dirs))
       and ((not _WALK_PROOF) or waiting_are_in_the_walk(remaining_dirs)),
       modifies={'remaining_dirs': _WORKLIST, 'yielded': 'len', 'current_file': 'local',
                 'is_within_min_depth_limit': 'local', 'is_not_at_max_depth': 'local', 'dir_entry': 'local',
                 'current_file_model': 'local', 'ghost:applied': Custom(_mk_log)})
M.loop(P_MODELS + ':_FilesGeneratorForRecursive.generate', 1,
       invariant=lambda _i, _xs, self, current_file, remaining_dirs, yielded, is_within_min_depth_limit,
                        is_not_at_max_depth, directory_prune:
       worklist_ok(self, remaining_dirs)
       and iff(is_within_min_depth_limit, within_min(self, current_file.depth))
       and iff(is_not_at_max_depth, not at_max(self, current_file.depth))
       and (self._max_depth is None or current_file.depth <= self._max_depth) and current_file.depth >= 0
       and step(self, current_file, _xs, _i, remaining_dirs, yielded)
       and (at_max(self, current_file.depth)
            or queued_are_the_unpruned_directories(current_file, directory_prune, _xs, _i, remaining_dirs))
       and pruning_matcher_applied_to_directories_only(self, current_file, directory_prune, _xs, _i)
       and ((not _BFS_PROOF) or breadth_first_during_scan(current_file, remaining_dirs))
       and ((not _WALK_PROOF) or (in_walk(den(current_file._absolute_parent.primitive), current_file.depth)
                                  and waiting_are_in_the_walk(remaining_dirs))),
       modifies={'remaining_dirs': _WORKLIST, 'yielded': 'len', 'dir_entry': 'local', 'current_file_model': 'local',
                 'ghost:applied': Custom(_mk_log)})


# ============================================================================== FILES-CONDITION: repeated file names
# `{ NAME [: MATCHER] ... }`: a name may be given more than once; the condition on the file of that name is the
# CONJUNCTION of all the matchers given for it (an entry without matcher adds nothing and removes nothing).
# Everything is stated for ONE arbitrary fixed name p (ghost): the dict the code builds is seen through its entry for p.

from pyvc.mlist import MList
from exactly_lib.impls.types.files_condition.impl import literal as fc_literal

P_FC = 'exactly_lib.impls.types.files_condition.impl.literal'


class NameDdvI(Interface):
    """StringDdv of a file name (no directory dependency: restricted to strings, C08)"""
    methods = {'value_when_no_dir_dependencies': Method(returns=Str, pure=True)}


class MatcherDdvI(Interface):
    """FileMatcherDdv; D(f): the FileMatcher it resolves to accepts the file f"""
    attrs = {'validator': Any_}
    methods = {'D': Method(returns=Bool, pure=True), 'structure': Method(returns=Any_)}


_FC_ENTRIES = ListOf(FixedList(Iface(NameDdvI), Opt(Iface(MatcherDdvI)), as_tuple=True))
_FC_MATCHER_REF = RefTo(MatcherDdvI, 'self._files.1[]')
_FC_MATCHERS = MListOf(_FC_MATCHER_REF)
DDV_HELPER = Inst(fc_literal._DdvHelper, _files=_FC_ENTRIES)


def _empty_matchers(interp, name):
    m = _FC_MATCHERS.make(interp, name)
    m.length = z3.IntVal(0)
    return m


def _as_matchers(interp, value, name):
    if isinstance(value, MList):
        return value
    if isinstance(value, list) and not value:
        return _empty_matchers(interp, name)
    from pyvc.path import Unsupported
    raise Unsupported('group map: value %r' % (value,))


def _gm_is_p(interp, self, path):
    return interp.branch(interp.eq(pathspec.pid_of(interp, path), self._pv_attrs['p']))


def _gm_setdefault(interp, self, args, kwargs):
    path, default = args
    a = self._pv_attrs
    if not _gm_is_p(interp, self, path):
        return default                      # the list of another name: not tracked, never the list of p
    if not interp.branch(a['has_p']):
        a['has_p'] = True
        a['list_p'] = _as_matchers(interp, default, 'group')
    return a['list_p']


def _gm_setitem(interp, self, args, kwargs):
    path, value = args
    a = self._pv_attrs
    if _gm_is_p(interp, self, path):
        a['has_p'] = True
        a['list_p'] = _as_matchers(interp, value, 'group')
    return None


class _NameKey:
    """the key p of the projected map, as a plain hashable object (a dict of the code may hold it)"""

    def __init__(self, pid):
        self.pid = pid


def _key_pid(interp, k):
    return k.pid if isinstance(k, _NameKey) else pathspec.pid_of(interp, k)


def _gm_items(interp, self, args, kwargs):
    """the items of the map, seen through p: the entry for p, if there is one"""
    a = self._pv_attrs
    if interp.branch(a['has_p']):
        return [(_NameKey(a['p']), a['list_p'])]
    return []


class GroupMapI(Interface):
    """the dict  name -> list of matchers  of _group_identical_file_names, projected to the name p"""
    attrs = {'p': Int, 'has_p': Bool, 'list_p': Any_}
    methods = {'setdefault': Method(model=_gm_setdefault), '__setitem__': Method(model=_gm_setitem),
               'items': Method(model=_gm_items)}


def _mk_group_map(interp, name):
    o = new_opaque(interp, GroupMapI, name)
    o._pv_attrs['p'] = interp.reg.ghost_env['p']
    o._pv_attrs['has_p'] = Bool.make(interp, name + '.has_p')
    o._pv_attrs['list_p'] = _FC_MATCHERS.make(interp, name + '.list_p')
    return o


def _has_group(interp, args, kwargs):
    m, p = args
    if isinstance(m, dict):
        return any(interp.truth(interp.eq(_key_pid(interp, k), p)) is True for k in m)
    return m._pv_attrs['has_p']


def _group(interp, args, kwargs):
    m, p = args
    if isinstance(m, dict):
        for k, v in m.items():
            if interp.truth(interp.eq(_key_pid(interp, k), p)) is True:
                return v
        return []
    return m._pv_attrs['list_p']


def has_group(m, p):
    """the name p is a key of the grouping (proof level)"""
    raise NotImplementedError


def group(m, p):
    """the list of matchers the grouping holds for the name p (proof level)"""
    raise NotImplementedError


M.model(has_group, _has_group)
M.model(group, _group)


def name_at(files, j):
    """the pure path of the j-th entry"""
    return P0(files[j][0].value_when_no_dir_dependencies())


def gives_matcher_for(files, j, p):
    return name_at(files, j) == p and files[j][1] is not None


def key_iff_named(files, n, m, p):
    """p is a key iff one of the first n entries has the name p (and without key there is no matcher)"""
    return iff(has_group(m, p), exists_range(0, n, lambda j: name_at(files, j) == p)) \
        and (has_group(m, p) or len(group(m, p)) == 0)


def only_their_matchers(files, n, m, p):
    """every matcher grouped under p is the matcher of one of the first n entries, which is named p"""
    g = group(m, p)
    return forall_range(0, len(g), lambda k: 0 <= index_of(g[k]) and index_of(g[k]) < n
                                              and gives_matcher_for(files, index_of(g[k]), p))


def in_entry_order(m, p):
    g = group(m, p)
    return forall_range(0, len(g) - 1, lambda k: index_of(g[k]) < index_of(g[k + 1]))


def all_their_matchers(files, n, m, p):
    """the matcher of every one of the first n entries that is named p is grouped under p"""
    g = group(m, p)
    return forall_range(0, n, lambda j: implies(gives_matcher_for(files, j, p),
                                                exists_range(0, len(g), lambda k: index_of(g[k]) == j)))


def entry_gives_matcher(entry, p):
    return P0(entry[0].value_when_no_dir_dependencies()) == p and entry[1] is not None


def as_many_as_given(files, n, m, p):
    """as many matchers are grouped under p as the first n entries give for p (none is lost, none is added)"""
    return len(group(m, p)) == count_prefix(files, n, entry_gives_matcher, p)


def grouped(files, n, m, p):
    """after the first n entries: p is a key iff one of them has the name p; the matchers grouped under p are
    exactly the matchers of the entries named p, in the order of the entries"""
    return key_iff_named(files, n, m, p) and as_many_as_given(files, n, m, p) \
        and only_their_matchers(files, n, m, p) and in_entry_order(m, p) and all_their_matchers(files, n, m, p)


M.contract(P_FC + ':_DdvHelper._group_identical_file_names', params=dict(self=DDV_HELPER), ghosts=dict(p=Int),
           inline=True,
           ensures={'for every name: exactly the matchers of the entries with that name, in order':
                        lambda self, result, p: grouped(self._files, len(self._files), result, p)},
           raises_only=())
M.loop(P_FC + ':_DdvHelper._group_identical_file_names', 0,
       invariant=lambda _i, self, ret_val, p:
       key_iff_named(self._files, _i, ret_val, p) and as_many_as_given(self._files, _i, ret_val, p)
       and only_their_matchers(self._files, _i, ret_val, p)
       and in_entry_order(ret_val, p) and all_their_matchers(self._files, _i, ret_val, p),
       # (the list a setdefault call returns is part of the map: mutated in place, also when not bound to a name)
       modifies={'ret_val': Custom(_mk_group_map), 'file_name': 'local', 'mb_matcher_ddv': 'local', 'path': 'local',
                 'matchers': 'local', '@ret_val.setdefault(path, [])': Any_})


def accepts_ddv(m, f):
    """denotation of a FileMatcherDdv: the matcher it resolves to accepts f.  ConjunctionDdv resolves to the
    Conjunction of what its operands resolve to (C06: ConjunctionDdv.value_of_any_dependency,
    _SequenceOfOperandsAdv.primitive), which accepts iff every operand does (C05)."""
    if is_opaque(m):
        return m.D(f)
    if isinstance(m, combinator_matchers.ConjunctionDdv):
        return forall_range(0, len(m._operands), lambda k: m._operands[k].D(f))
    raise ValueError('accepts_ddv: unexpected matcher ddv')


M.contract(P_FC + ':_DdvHelper._all_matcher', params=dict(matchers=_FC_MATCHERS), ghosts=dict(f=Int), inline=True,
           ensures={
               'no matcher iff the list is empty': lambda matchers, result: iff(result is None, len(matchers) == 0),
               'otherwise: the CONJUNCTION of all the matchers of the list': lambda matchers, result, f:
               result is None or iff(accepts_ddv(result, f),
                                     forall_range(0, len(matchers), lambda k: matchers[k].D(f))),
               'in order (a conjunction holds the list itself)': lambda matchers, result:
               len(matchers) < 2 or ((not is_opaque(result))
                                     and isinstance(result, combinator_matchers.ConjunctionDdv)
                                     and result._operands is matchers),
           }, raises_only=())


def _value_for(interp, args, kwargs):
    d, p = args
    for k, v in d.items():
        if interp.truth(interp.eq(_key_pid(interp, k), p)) is True:
            return v
    return None


def value_for(d, p):
    """the value the (real) dict d has for the name p, None if p is not a key (proof level)"""
    raise NotImplementedError


M.model(value_for, _value_for)


def some_entry_named(files, p):
    return exists_range(0, len(files), lambda j: name_at(files, j) == p)


def some_matcher_given(files, p):
    return exists_range(0, len(files), lambda j: gives_matcher_for(files, j, p))


def every_given_matcher_accepts(files, p, f):
    return forall_range(0, len(files), lambda j: (not gives_matcher_for(files, j, p)) or files[j][1].D(f))


M.contract(P_FC + ':_DdvHelper.files_as_map', params=dict(self=DDV_HELPER), ghosts=dict(p=Int, f=Int),
           ensures={
               'a name is a key iff an entry has that name': lambda self, result, p:
               iff(has_group(result, p), some_entry_named(self._files, p)),
               'no matcher iff no entry of that name gives one': lambda self, result, p:
               iff(value_for(result, p) is None, not some_matcher_given(self._files, p)),
               'the matcher of a name accepts a file iff EVERY matcher given for that name accepts it':
                   lambda self, result, p, f:
                   value_for(result, p) is None
                   or iff(accepts_ddv(value_for(result, p), f), every_given_matcher_accepts(self._files, p, f)),
           }, raises_only=())


# ============================================================================== dir-contents-of: copying into a directory
# Ghost file system (contracts/pathspec.py): `entry_exists(p)` -- a directory entry of ANY kind at p, also a symbolic
# link that points nowhere (what lstat sees); `target_exists(p)` -- symbolic links followed (what exists() sees).
# What is written is a ghost log `copied` of (destination, source, whole tree?).

from exactly_lib.impls.types.files_source.impl import copy_dir_contents
from contracts.pathspec import entry_exists, name0

P_CDC = 'exactly_lib.impls.types.files_source.impl.copy_dir_contents'


def _os_copy(tree):
    def m(interp, self, args, kwargs):
        """OsServices.copy_file / copy_tree__preserve_as_much_as_possible: writes at dst (logged; the file system
        changes) or fails with HardErrorException (impls/os_services/impl.py translates every OSError)"""
        src, dst = args
        _log_append(interp, 'copied', dst=pathspec.pid_of(interp, dst), src=pathspec.pid_of(interp, src),
                    tree=tree)
        pathspec.fs_changed(interp)
        if interp.st.choose(2) == 1:
            raise PyRaise(HardErrorException(Any_.make(interp, 'error')))
        return None

    return m


class OsServicesI(Interface):
    methods = {'copy_file': Method(model=_os_copy(False)),
               'copy_tree__preserve_as_much_as_possible': Method(model=_os_copy(True))}


class AppEnvI(Interface):
    attrs = {'os_services': Iface(OsServicesI)}


def copied_count(ghost=None):
    """number of copy operations so far (proof level)"""
    raise NotImplementedError


def copied_dst(k):
    raise NotImplementedError


def copied_src(k):
    raise NotImplementedError


M.model(copied_count, lambda interp, args, kwargs: _log(interp, 'copied')['n'])
M.model(copied_dst, lambda interp, args, kwargs: wrap(_log_fn('copied', 'dst', z3.IntSort())(to_z3(args[0]))))
M.model(copied_src, lambda interp, args, kwargs: wrap(_log_fn('copied', 'src', z3.IntSort())(to_z3(args[0]))))

M.contract(P_CDC + ':_FileNameClashRendering.renderer', trusted=True, returns=Any_, params=dict(self=Any_))

COPY_DIR_CONTENTS = Inst(copy_dir_contents._CopyDirContents, _src_dir=DESCRIBED_PATH, _environment=Iface(AppEnvI))
M.assume('lstat() of a name in the directory that is being populated raises FileNotFoundError iff there is no '
         'directory entry of that name, of any kind (the directory itself exists and is accessible: the maker has '
         'just created it or checked it)')


def _dst_of(dst_dir_path, name):
    return join(den(dst_dir_path.primitive), P(name))


M.contract(P_CDC + ':_CopyDirContents._copy_path',
           params=dict(self=COPY_DIR_CONTENTS, src_file_name=Str, dst_dir_path=DESCRIBED_PATH), inline=True,
           old=lambda src_file_name, dst_dir_path, ghost:
           (entry_exists(_dst_of(dst_dir_path, src_file_name)), copied_count(ghost)),
           raises={
               HardErrorException: {'ensures': lambda old, ghost:
               # a clash: HARD_ERROR and NOTHING is written; otherwise the one copy operation failed
               copied_count(ghost) == (old[1] if old[0] else old[1] + 1)},
               OSError: {'ensures': lambda old, ghost: (not old[0]) and copied_count(ghost) == old[1]},
           },
           ensures={
               'copies only when there is NO directory entry of any kind at the destination name (lstat: a dangling '
               'symbolic link is a clash too)': lambda old: not old[0],
               'one copy: directory/NAME from source/NAME': lambda self, src_file_name, dst_dir_path, old, ghost:
               copied_count(ghost) == old[1] + 1
               and copied_dst(old[1]) == _dst_of(dst_dir_path, src_file_name)
               and copied_src(old[1]) == join(den(self._src_dir.primitive), P(src_file_name)),
           }, raises_only=())

M.contract(P_CDC + ':_CopyDirContents._copy_file',
           params=dict(self=COPY_DIR_CONTENTS, src_file=PATH, dst_file=PATH), inline=True,
           old=lambda ghost: copied_count(ghost),
           may_raise=(HardErrorException, OSError),
           ensures={'one copy operation, onto dst_file': lambda src_file, dst_file, old, ghost:
           copied_count(ghost) == old + 1 and copied_dst(old) == den(dst_file) and copied_src(old) == den(src_file)},
           raises_only=())


def source_entries(self):
    """the entries of the source directory (iterdir gives the same answer when asked again)"""
    return self._src_dir.primitive.iterdir()


def copied_in_order(entries, d, old, n):
    """the first n entries of the source directory were copied, each to d/NAME -- nothing is written elsewhere"""
    return forall_range(0, n, lambda k: copied_dst(old + k) == join0(d, P0(name0(den(entries[k])))))


M.contract(P_CDC + ':_CopyDirContents.populate', params=dict(self=COPY_DIR_CONTENTS, directory=DESCRIBED_PATH),
           old=lambda ghost: copied_count(ghost),
           # a clash or a failing copy: HardErrorException; the source directory cannot be listed: OSError, which the
           # makers translate (NewFileCreator.make / ExistingFileModifier.make, proved above)
           may_raise=(HardErrorException, OSError),
           ensures={'every entry of the source directory is copied to directory/NAME; nothing else is written':
                        lambda self, directory, old, ghost:
                        copied_count(ghost) == old + len(source_entries(self))
                        and copied_in_order(source_entries(self), den(directory.primitive), old,
                                            len(source_entries(self)))},
           raises_only=())
M.loop(P_CDC + ':_CopyDirContents.populate', 0,
       invariant=lambda _i, _xs, directory, old:
       copied_count() == old + _i and copied_in_order(_xs, den(directory.primitive), old, _i),
       modifies={'src_path': 'local', 'ghost:copied': Custom(_mk_log), 'ghost:fs_epoch': Nat})


# ============================================================================== file name parts: stem, suffixes, suffix
# Reference manual, "File name parts" (table of impls/types/file_matcher/impl/names/doc.py): the stem is what precedes
# the FIRST dot of the name, `suffixes` is the rest (from the first dot), `suffix` is the part from the LAST dot -- a
# leading dot and a trailing dot count: 'f.' has suffix '.', '.x.y' has stem '' / suffixes '.x.y' / suffix '.y'.

from exactly_lib.impls.types.file_matcher.impl.names import properties as name_properties, doc as names_doc

P_NP = 'exactly_lib.impls.types.file_matcher.impl.names.properties'


def is_stem_of(name, stem):
    """the part of the name before its first dot (the whole name if it has no dot)"""
    return name.startswith(stem) and '.' not in stem and (stem == name or name[len(stem)] == '.')


def is_suffixes_of(name, rest):
    """the part of the name from its first dot ('' if it has no dot)"""
    if '.' not in name:
        return rest == ''
    return name.endswith(rest) and rest.startswith('.') and '.' not in name[:len(name) - len(rest)]


def is_suffix_of(name, suffix):
    """the part of the name from its last dot ('' if it has no dot)"""
    if '.' not in name:
        return suffix == ''
    return name.endswith(suffix) and suffix.startswith('.') and '.' not in suffix[1:]


M.contract(P_NP + ':get_stem_from_name', params=dict(name=Str), returns=Str, inline=True,
           ensures={'what precedes the first dot': lambda name, result: is_stem_of(name, result)}, raises_only=())
M.contract(P_NP + ':get_suffixes_from_name', params=dict(name=Str), returns=Str, inline=True,
           ensures={'from the first dot': lambda name, result: is_suffixes_of(name, result)}, raises_only=())
M.contract(P_NP + ':get_suffix_from_name', params=dict(name=Str), returns=Str,
           ensures={'from the last dot (a leading and a trailing dot count)': lambda name, result:
           is_suffix_of(name, result)}, raises_only=())
M.contract(P_NP + ':get_name_from_name', params=dict(name=Str), returns=Str, inline=True,
           ensures={'the name': lambda name, result: result == name}, raises_only=())


def stem_and_suffixes(name):
    """Harness: the two parts at the first dot."""
    return name_properties.get_stem_from_name(name) + name_properties.get_suffixes_from_name(name)


M.contract('contracts.C15_dirtrees:stem_and_suffixes', params=dict(name=Str),
           ensures={'stem + suffixes is the name': lambda name, result: result == name}, raises_only=())


@M.check('file name parts')
def _name_parts(ctx):
    """the table of the reference manual, row by row, through the real functions; and the getters the three matchers
    are built with"""
    for ex in names_doc.file_name_examples():
        got = (name_properties.get_stem_from_name(ex.name), name_properties.get_suffixes_from_name(ex.name),
               name_properties.get_suffix_from_name(ex.name))
        ctx.obligation('manual, File name parts: %r has stem %r, suffixes %r, suffix %r'
                       % (ex.name, ex.stem, ex.suffixes, ex.suffix), got == (ex.stem, ex.suffixes, ex.suffix),
                       'enumeration', detail={'actual': got})
    for name in ('.gitignore', 'notes.', '.', '..', 'a..b', ''):
        ok = is_stem_of(name, name_properties.get_stem_from_name(name)) \
            and is_suffixes_of(name, name_properties.get_suffixes_from_name(name)) \
            and is_suffix_of(name, name_properties.get_suffix_from_name(name))
        ctx.obligation('first dot / last dot rule on %r' % name, ok, 'enumeration')


@M.check('pathlib axioms')
def _c15_axioms(ctx):
    """the facts of pathlib this module relies on (A1-A11, L1), against CPython"""
    pathspec.check_pathlib_axioms(ctx)


# Assumed summaries of this module that follow from contracts PROVED for another property (Module.implied_by, ENGINE.md):
# the refinement obligations are generated by this property's check and the proved contract is re-proved here.
M.implied_by('exactly_lib.type_val_deps.dep_variants.ddv.ddv_validators:all_of', 'C03')
