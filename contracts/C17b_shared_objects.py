"""C17 (extension M17) -- objects that are SHARED between the cases of one process carry no state from one case to
the next.  notes/C17.md, section "Extension M17".

Shared objects: the instruction objects of phase contents written in a suite file (parsed once,
`_TestCaseInstructionsFromTestSuiteAdder` puts the very same elements into every case -- proved in
C17_independence.py: element identity) and what hangs below them (SdvValidator, PathSdv, PathDdv objects), the
builtin symbols (module level objects of cli_default), the one `SuitesExecutor` of a run.

From the property statement ("the outcome ... does not depend on which cases ran before it in the same process:
... symbols and sandbox contents never carry over from one case to the next", "Phase contents written in a suite
file are executed in every case listed directly in that suite ... and not in cases of its sub-suites"):

 (a) frame: validation / resolution does not change the shared object (`modifies={}`: obligation
     `frame[modifies nothing]` on every outcome), with the object built by its REAL constructor (so a field that a
     change adds is there, with the value the constructor gives it);
 (b) what a case observes is a function of ITS OWN symbols / sandbox: two-case harnesses -- the shared object is
     used for case A and then for case B; what B gets is resolved from B's arguments;
 (c) every case is processed by a processor constructed from the configuration of the suite that lists it.
"""
from pyvc.api import (Module, Interface, Method, Iface, Inst, Int, Nat, Bool, Str, Opt, OneOf, Const, Union,
                      ListOf, FixedList, Any_, EnumOf, Custom, Dependent, new_opaque)

from exactly_lib.type_val_deps.dep_variants.ddv.ddv_validation import DdvValidator
from exactly_lib.type_val_deps.dep_variants.sdv import sdv_validation

M = Module('C17')

P_SVN = 'exactly_lib.type_val_deps.dep_variants.sdv.sdv_validation'


# ============================================================================ validators of shared instructions

class DdvValidatorI(Interface):
    """a DdvValidator (environment: any verdict)"""
    target_class = DdvValidator
    methods = {'validate_pre_sds_if_applicable': Method(returns=Opt(Any_), event='ddv-validate-pre'),
               'validate_post_sds_if_applicable': Method(returns=Opt(Any_), event='ddv-validate-post')}


class ValidatorResolverI(Interface):
    """DdvValidatorResolver: SymbolTable -> DdvValidator (environment: every call gives a validator of its own --
    the validator of the value resolved with THOSE symbols)"""
    methods = {'__call__': Method(returns=Iface(DdvValidatorI), event='get-validator')}


class CaseEnvI(Interface):
    """the path resolving environment of ONE case: its symbols, its home directories, its sandbox"""
    attrs = {'symbols': Any_, 'hds': Any_, 'sds': Any_}


def _mk_shared_validator(interp, name):
    """the validator of an instruction as the parser leaves it: built by the real constructor"""
    return interp.call(sdv_validation.SdvValidatorFromDdvValidator,
                       [new_opaque(interp, ValidatorResolverI, name + '.get_value_validator')], {})


SHARED_VALIDATOR = Custom(_mk_shared_validator)


def resolutions(trace):
    """(symbols given, validator returned) of every resolution, in order"""
    asked = [e[2][0] for e in trace if e[0] == 'get-validator']
    got = [e[2] for e in trace if e[0] == 'get-validator:returned']
    return list(zip(asked, got))


def validations(trace):
    """(validator that did it, verdict) of every pre/post-sds validation, in order"""
    did = [e[1] for e in trace if e[0] in ('ddv-validate-pre', 'ddv-validate-post')]
    verdict = [e[2] for e in trace if e[0] in ('ddv-validate-pre:returned', 'ddv-validate-post:returned')]
    return list(zip(did, verdict))


def resolved_from(trace, validator, symbols):
    """`validator` is what the resolver returned for exactly these symbols"""
    return any(v is validator and s is symbols for (s, v) in resolutions(trace))


for _m in ('validate_pre_sds_if_applicable', 'validate_post_sds_if_applicable'):
    M.contract('%s:SdvValidatorFromDdvValidator.%s' % (P_SVN, _m),
               params=dict(self=SHARED_VALIDATOR, environment=Iface(CaseEnvI)), returns=Opt(Any_),
               inline=True,      # (the two-case harness below sees the body, not this summary)
               modifies={},      # frame: NOTHING of the (shared) validator object changes
               ensures={
                   'validated by the validator resolved from the symbols of THIS environment': lambda environment, result, trace:
                   len(validations(trace)) == 1
                   and resolved_from(trace, validations(trace)[0][0], environment.symbols)
                   and result is validations(trace)[0][1],
                   'symbols are not asked for from anywhere else': lambda environment, trace:
                   all(s is environment.symbols for (s, v) in resolutions(trace)),
               },
               raises_only=())

M.contract(P_SVN + ':SdvValidatorFromDdvValidator._get_validator',
           params=dict(self=SHARED_VALIDATOR, symbols=Any_), inline=True,
           modifies={},
           ensures={'resolved from the symbols given, now': lambda symbols, result, trace:
           len(resolutions(trace)) == 1 and resolutions(trace)[0][0] is symbols and result is resolutions(trace)[0][1]},
           raises_only=())


def harness_suite_instruction_validated_in_two_cases(get_validator, case_a, case_b):
    """ONE validator object (an instruction of a suite: parsed once, element identity in every case) validates
    case A (pre and post sds) and then case B."""
    shared = sdv_validation.SdvValidatorFromDdvValidator(get_validator)
    a_pre = shared.validate_pre_sds_if_applicable(case_a)
    a_post = shared.validate_post_sds_if_applicable(case_a)
    b_pre = shared.validate_pre_sds_if_applicable(case_b)
    b_post = shared.validate_post_sds_if_applicable(case_b)
    return [a_pre, a_post, b_pre, b_post]


M.contract('contracts.C17b_shared_objects:harness_suite_instruction_validated_in_two_cases',
           params=dict(get_validator=Iface(ValidatorResolverI), case_a=Iface(CaseEnvI), case_b=Iface(CaseEnvI)),
           ensures={
               'case B is validated with validators resolved from the symbols of case B': lambda case_b, trace:
               len(validations(trace)) == 4
               and resolved_from(trace, validations(trace)[2][0], case_b.symbols)
               and resolved_from(trace, validations(trace)[3][0], case_b.symbols),
               'case A is validated with validators resolved from the symbols of case A': lambda case_a, trace:
               resolved_from(trace, validations(trace)[0][0], case_a.symbols)
               and resolved_from(trace, validations(trace)[1][0], case_a.symbols),
               'the verdicts are those of these validators': lambda result, trace:
               all(r is v for (r, (d, v)) in zip(result, validations(trace))),
           },
           raises_only=())


# ============================================================================ shared path values (builtin symbols)
# A PathDdv is not per execution: `PathConstantSdv.resolve` returns the very same DDV object every time, the SDVs of
# the builtin directory symbols (EXACTLY_ACT, EXACTLY_TMP, EXACTLY_RESULT, EXACTLY_HOME, ...) are module level
# objects of cli_default, constant paths of suite instructions live as long as the instruction.  "sandbox contents
# never carry over from one case to the next": the path a case gets from a shared DDV is a function of the sandbox /
# home directories of THAT case -- it equals what a DDV that was never used before gives (the standalone run).

from contracts import C04_sandbox as c04
from exactly_lib.tcfs.hds import HomeDs
from exactly_lib.tcfs.path_relativity import RelOptionType, RelHdsOptionType
from exactly_lib.tcfs.tcds import TestCaseDs
from exactly_lib.type_val_deps.types.path import path_ddvs

P_DDVS = 'exactly_lib.type_val_deps.types.path.path_ddvs'

SDS = c04.SDS         # a real SandboxDs, built by its constructor from a symbolic root directory name
REL_SDS = OneOf(RelOptionType.REL_ACT, RelOptionType.REL_TMP, RelOptionType.REL_RESULT)
REL_HDS = OneOf(RelOptionType.REL_HDS_CASE, RelOptionType.REL_HDS_ACT)


def _mk_hds(interp, name):
    from pyvc import fsmodel
    return interp.call(HomeDs, [fsmodel.mk_path(interp, Str.make(interp, name + '.case_dir')),
                                fsmodel.mk_path(interp, Str.make(interp, name + '.act_dir'))], {})


HDS = Custom(_mk_hds)


def _mk_rel_root_ddv(rels):
    def mk(interp, name):
        rel = rels.make(interp, name + '.rel')
        return interp.call(path_ddvs.of_rel_option,
                           [rel, interp.call(path_ddvs.constant_path_part, [Str.make(interp, name + '.suffix')], {})],
                           {})
    return Custom(mk)


def _mk_rel_hds_ddv(interp, name):
    return interp.call(path_ddvs.rel_hds,
                       [EnumOf(RelHdsOptionType).make(interp, name + '.rel'),
                        interp.call(path_ddvs.constant_path_part, [Str.make(interp, name + '.suffix')], {})], {})


def _mk_stacked_ddv(interp, name):
    base = _mk_rel_root_ddv(REL_SDS).make(interp, name + '.base')
    return interp.call(path_ddvs.stacked,
                       [base, interp.call(path_ddvs.constant_path_part, [Str.make(interp, name + '.stacked')], {})], {})


# ---- (a) frame: resolving a path changes nothing in the DDV object, nor in what it holds (resolver, suffix parts)
M.contract(P_DDVS + ':_PathDdvFromRelRootResolver.value_post_sds',
           params=dict(self=_mk_rel_root_ddv(REL_SDS), sds=SDS), inline=True, modifies={},
           ensures={'a path': lambda result: result is not None}, raises_only=())
M.contract(P_DDVS + ':_PathDdvFromRelRootResolver.value_pre_sds',
           params=dict(self=_mk_rel_root_ddv(REL_HDS), hds=HDS), inline=True, modifies={},
           ensures={'a path': lambda result: result is not None}, raises_only=())
M.contract(P_DDVS + ':_PathDdvRelHds.value_pre_sds',
           params=dict(self=Custom(_mk_rel_hds_ddv), hds=HDS), inline=True, modifies={},
           ensures={'a path': lambda result: result is not None}, raises_only=())
M.contract(P_DDVS + ':_StackedPathDdv.value_post_sds',
           params=dict(self=Custom(_mk_stacked_ddv), sds=SDS), inline=True, modifies={},
           ensures={'a path': lambda result: result is not None}, raises_only=())


# ---- (b) two cases, one shared DDV

def harness_shared_sandbox_path_resolved_in_two_cases(rel_option, name, sds_a, sds_b):
    """the DDV of a builtin symbol such as EXACTLY_TMP (one object per process) is resolved in case A (sandbox
    sds_a) and then in case B (sandbox sds_b); `alone`: what case B gets in a process of its own"""
    shared = path_ddvs.of_rel_option(rel_option, path_ddvs.constant_path_part(name))
    shared.value_post_sds(sds_a)
    shared.value_of_any_dependency(TestCaseDs(None, sds_a))
    in_b = shared.value_post_sds(sds_b)
    in_b_any = shared.value_of_any_dependency(TestCaseDs(None, sds_b))
    alone = path_ddvs.of_rel_option(rel_option, path_ddvs.constant_path_part(name))
    return (str(in_b) == str(alone.value_post_sds(sds_b))
            and str(in_b_any) == str(alone.value_of_any_dependency(TestCaseDs(None, sds_b))))


M.contract('contracts.C17b_shared_objects:harness_shared_sandbox_path_resolved_in_two_cases',
           params=dict(rel_option=REL_SDS, name=Str, sds_a=SDS, sds_b=SDS),
           ensures={'the second case gets the path in ITS sandbox: the same as in a run of its own': lambda result: result},
           raises_only=())


def harness_shared_home_path_resolved_in_two_cases(rel_option, name, hds_a, hds_b):
    """same for paths relative the home directories (each case has its own: [conf] home / act-home)"""
    shared = path_ddvs.of_rel_option(rel_option, path_ddvs.constant_path_part(name))
    shared.value_pre_sds(hds_a)
    in_b = shared.value_pre_sds(hds_b)
    alone = path_ddvs.of_rel_option(rel_option, path_ddvs.constant_path_part(name))
    return str(in_b) == str(alone.value_pre_sds(hds_b))


M.contract('contracts.C17b_shared_objects:harness_shared_home_path_resolved_in_two_cases',
           params=dict(rel_option=REL_HDS, name=Str, hds_a=HDS, hds_b=HDS),
           ensures={'the second case gets the path in ITS home directories: the same as in a run of its own': lambda result: result},
           raises_only=())


def harness_shared_stacked_path_resolved_in_two_cases(rel_option, name, name2, sds_a, sds_b):
    """same for a path built on a (shared) base path: `@[EXACTLY_TMP]@/sub`"""
    shared = path_ddvs.stacked(path_ddvs.of_rel_option(rel_option, path_ddvs.constant_path_part(name)),
                               path_ddvs.constant_path_part(name2))
    shared.value_post_sds(sds_a)
    in_b = shared.value_post_sds(sds_b)
    alone = path_ddvs.stacked(path_ddvs.of_rel_option(rel_option, path_ddvs.constant_path_part(name)),
                              path_ddvs.constant_path_part(name2))
    return str(in_b) == str(alone.value_post_sds(sds_b))


M.contract('contracts.C17b_shared_objects:harness_shared_stacked_path_resolved_in_two_cases',
           params=dict(rel_option=REL_SDS, name=Str, name2=Str, sds_a=SDS, sds_b=SDS),
           ensures={'the second case gets the path in ITS sandbox: the same as in a run of its own': lambda result: result},
           raises_only=())


# ============================================================================ (c) every case: the processor of ITS suite
# "Phase contents written in a suite file are executed in every case listed directly in that suite ... and not in
# cases of its sub-suites": `SuitesExecutor` (one object for the whole run) must process the cases of a suite with a
# processor constructed from the configuration of THAT suite.  C16 proves this for suite lists of any length
# (monitor: `cur_processor_setup is cur_suite.test_case_handling_setup` at every `apply`); those contracts carry C17.

def _share_c16():
    from contracts.common import share_contracts
    wanted = (':SuitesExecutor._process_single_sub_suite', ':SuitesExecutor.execute_and_report',
              ':SuitesExecutor._configuration_for_cases_in_suite', ':_process_and_time', ':_process_case')
    return share_contracts('C17', 'contracts.C16_suite',
                           lambda q: q.startswith('exactly_lib.test_suite.processing:') and q.endswith(wanted))


SHARED_WITH_C16 = _share_c16()


# ---- the same statement as a clause of C17's own, about the run as a whole (everything below `execute_and_report`
# is interpreted from the real source, whatever its internal structure): TWO suites of a hierarchy (the first lists
# two cases, the second one) with different handling setups.  Fixed number of suites/cases: the proof for any
# number is the one shared with C16 above; this one states WHICH setup in terms of the trace of the run.

from contracts.C17_independence import HANDLING_SETUP, PROC_CONFIGURATION
from exactly_lib.test_suite import structure, processing as suite_processing


class CaseProcessorI(Interface):
    """a test-case processor (environment: any result)"""
    methods = {'apply': Method(returns=Any_, event='apply')}


class ProcessorConstructorI(Interface):
    """TestCaseProcessorConstructor: Configuration -> Processor (a processor of its own for every call)"""
    methods = {'__call__': Method(returns=Iface(CaseProcessorI), event='new-processor')}


class ProgressReporterI(Interface):
    methods = {'suite_begin': Method(), 'suite_end': Method(), 'case_begin': Method(), 'case_end': Method()}


class SubSuiteReporterI(Interface):
    attrs = {'progress_reporter': Iface(ProgressReporterI)}
    methods = {'case_end': Method()}


class RootReporterI(Interface):
    methods = {'root_suite_begin': Method(), 'root_suite_end': Method(),
               'new_sub_suite_reporter': Method(returns=Iface(SubSuiteReporterI)),
               'report_final_results': Method(returns=Int)}


def _suite_listing(*cases):
    return Inst(structure.TestSuiteHierarchy,
                _TestSuiteHierarchy__source_file=Any_,
                _TestSuiteHierarchy__suite_file_inclusions_leading_to_this_file=Any_,
                _TestSuiteHierarchy__test_case_handling_setup=HANDLING_SETUP,
                _TestSuiteHierarchy__sub_test_suites=Any_,
                _TestSuiteHierarchy__test_cases=FixedList(*cases))


def processors_made(trace):
    """(configuration given, processor returned) of every processor construction"""
    conf = [e[2][0] for e in trace if e[0] == 'new-processor']
    made = [e[2] for e in trace if e[0] == 'new-processor:returned']
    return list(zip(conf, made))


def applications(trace):
    """(processor, case) of every case that was processed, in order"""
    return [(e[1], e[2][0]) for e in trace if e[0] == 'apply']


def made_for(trace, processor, suite):
    """`processor` was constructed from a configuration that carries the handling setup of `suite`"""
    return any(p is processor and conf.default_handling_setup is suite.test_case_handling_setup
               for (conf, p) in processors_made(trace))


def harness_cases_of_two_suites_are_processed(reporter, default_configuration, processor_constructor,
                                              sub_suite, root_suite):
    executor = suite_processing.SuitesExecutor(reporter, default_configuration, processor_constructor)
    return executor.execute_and_report([sub_suite, root_suite])       # depth first: the root suite comes last


M.contract('contracts.C17b_shared_objects:harness_cases_of_two_suites_are_processed',
           params=dict(reporter=Iface(RootReporterI), default_configuration=PROC_CONFIGURATION,
                       processor_constructor=Iface(ProcessorConstructorI),
                       sub_suite=_suite_listing(Any_, Any_), root_suite=_suite_listing(Any_)),
           ensures={
               'every listed case is processed once, in order': lambda sub_suite, root_suite, trace:
               len(applications(trace)) == 3
               and applications(trace)[0][1] is sub_suite.test_cases[0]
               and applications(trace)[1][1] is sub_suite.test_cases[1]
               and applications(trace)[2][1] is root_suite.test_cases[0],
               'the cases of the sub-suite: by a processor made from the handling setup of the sub-suite': lambda sub_suite, trace:
               made_for(trace, applications(trace)[0][0], sub_suite)
               and made_for(trace, applications(trace)[1][0], sub_suite),
               'the case of the root suite: by a processor made from the handling setup of the root suite': lambda root_suite, trace:
               made_for(trace, applications(trace)[2][0], root_suite),
               'no processor is made from any other handling setup': lambda sub_suite, root_suite, trace:
               all(conf.default_handling_setup is sub_suite.test_case_handling_setup
                   or conf.default_handling_setup is root_suite.test_case_handling_setup
                   for (conf, p) in processors_made(trace)),
           },
           raises_only=())
