"""C01 -- phased execution protocol: fixed order, halt at first failure, cleanup runs.

Layers (each proved against the contracts of the layer below; see notes/C01.md):

  0  execute_element                      one instruction, one `apply`, failure kinds
  1  execute_phase_prim / execute_phase / run_instructions_phase_step
                                          instructions of a phase in file order, stop at the first failure
                                          (unbounded number of instructions: loop invariant + ghost monitor)
  2  the executor classes' `apply`        which instruction method a step calls, with which arguments
  3  the step methods of _PartialExecutor which step constant / executor / phase each step uses
  4  _PartialExecutor.execute, full execute
                                          order of steps, halt, cleanup exactly once, outcome

Instructions, actors and the action to check are opaque: each step method returns a value of its
declared result type or raises HardErrorException or an arbitrary Exception -- the "ways a step can
fail" of the property's quantifier are free symbolic choices.
"""
from pyvc.api import (Module, Interface, Method, Iface, Inst, Int, Nat, Bool, Str, Opt, OneOf, Const, Union,
                      ListOf, FixedList, Any_, EnumOf, Custom, Dependent, new_opaque, assume_pred)
from pyvc.interp import ArbitraryException, PyRaise
from contracts.common import implies, iff, forall_range, exists_range, is_opaque

from exactly_lib.execution import phase_step
from exactly_lib.execution.impl import single_instruction_executor as sie
from exactly_lib.execution.impl import phase_step_execution as pse
from exactly_lib.execution.impl import phase_step_executors as psx
from exactly_lib.execution.impl.result import Failure
from exactly_lib.execution.impl.single_instruction_executor import (
    PartialControlledFailureEnum, PartialInstructionControlledFailureInfo, SingleInstructionExecutionFailure,
    ControlledInstructionExecutor)
from exactly_lib.execution.result import (ExecutionFailureStatus, PhaseStepFailure, PhaseStepFailureException,
                                          ActionToCheckOutcome)
from exactly_lib.execution.failure_info import InstructionFailureInfo, ActPhaseFailureInfo
from exactly_lib.section_document.model import (SectionContents, SectionContentElement, ElementType,
                                                InstructionInfo)
from exactly_lib.test_case.hard_error import HardErrorException
from exactly_lib.test_case.phases.common import TestCaseInstruction

M = Module('C01')

P_SIE = 'exactly_lib.execution.impl.single_instruction_executor'
P_PSE = 'exactly_lib.execution.impl.phase_step_execution'
P_PSX = 'exactly_lib.execution.impl.phase_step_executors'

# ====================================================================================== shapes

# rendering of messages / tracebacks is outside the property: assumed total
M.contract('exactly_lib.util.traceback_:traceback_as_str', trusted=True, params=dict(), returns=Str)
M.contract('exactly_lib.common.report_rendering.text_docs:single_pre_formatted_line_object', trusted=True,
           params=dict(x=Any_, is_x_multi_line=Any_), returns=Any_)
M.trust('util.traceback_.traceback_as_str and text_docs.single_pre_formatted_line_object return (formatting of '
        'error messages; they read sys.exc_info / build a renderer and have no effect on control flow)')


class SourceLocationI(Interface):
    attrs = {'source': Any_}


class SourceLocationPathI(Interface):
    attrs = {'location': Iface(SourceLocationI)}


class SourceLocationInfoI(Interface):
    """SourceLocationInfo of an element: only passed through (to the header executors, to the failure object)."""
    attrs = {'source_location_path': Iface(SourceLocationPathI)}


class InstructionI(Interface):
    """An instruction seen by the generic executor: nothing is done with it but handing it to `apply`."""
    target_class = TestCaseInstruction


FAIL_INFO = Inst(PartialInstructionControlledFailureInfo, _tuple=[EnumOf(PartialControlledFailureEnum), Any_])


def _mk_hard_error(interp, o):
    e = HardErrorException.__new__(HardErrorException)
    e._error = Any_.make(interp, 'hard_error.error')
    return e


def _mk_arbitrary(interp, o):
    return ArbitraryException()


def expected_status(kind, payload):
    """The kind of failure of one `apply`, as the property wants it reported."""
    if kind == 'returned':
        return ExecutionFailureStatus[payload.status.name]
    if isinstance(payload, HardErrorException):
        return ExecutionFailureStatus.HARD_ERROR
    return ExecutionFailureStatus.INTERNAL_ERROR


# ----- ghost monitor of one run of a phase step (state in `ghost`):
#   phase   the elements of the phase (set when the run starts)
#   last    index of the element whose instruction was applied last (-1: none yet)
#   failed  an `apply` did not succeed
#   status  the ExecutionFailureStatus the failing `apply` stands for (meaningful when `failed`)
# Every `apply` of the opaque executor is checked against the monitor (obligations
# `monitor[...]`): it is never called after a failure, the instruction applied is the next
# instruction element of the phase after `last` (so: file order, each at most once, none skipped).

def is_instruction(e):
    return e.element_type is ElementType.INSTRUCTION


def no_instruction_between(xs, lo, hi):
    """no element with index in [lo, hi) is an instruction"""
    return forall_range(lo, hi, lambda j: not is_instruction(xs[j]))


def monitor_accepts_apply(ghost, idx):
    return (not ghost['failed']) and ghost['last'] < idx and no_instruction_between(ghost['phase'], ghost['last'] + 1,
                                                                                   idx)


def _index_in_phase(interp, instruction):
    """The position of the element an (opaque) instruction object belongs to, in the monitored phase."""
    xs = interp.st.ghost.get('phase')
    idx = getattr(instruction, '_pv_index', ())
    if xs is None or len(idx) != 1 or not getattr(instruction, '_pv_uid', '').startswith(xs.uid + '[]'):
        return None
    from pyvc.values import wrap
    return wrap(idx[0])


def _apply_model(interp, self, args, kwargs):
    """executor.apply(instruction): any outcome; drives the monitor."""
    st = interp.st
    (instruction,) = args
    fn = interp.current_function_name()
    if 'phase' in st.ghost:
        idx = _index_in_phase(interp, instruction)
        if idx is None:
            st.oblige(fn + ' : monitor[apply only to instructions of the phase]', False, {'kind': 'monitor'})
            raise PyRaise(AssertionError('monitor'))
        ok = interp.truth(interp.call(monitor_accepts_apply, [st.ghost, idx], {}))
        st.oblige(fn + ' : monitor[apply: not after a failure, next instruction in file order]', ok,
                  {'kind': 'monitor'})
        st.assume(ok)
        st.ghost['last'] = idx
    st.emit('apply', self, (instruction,))
    k = st.choose(4)
    if k == 0:
        st.emit('apply:returned', self, None)
        return None
    st.ghost['failed'] = True
    if k == 1:
        r = FAIL_INFO.make(interp, 'apply()')
        st.ghost['status'] = interp.call(expected_status, ['returned', r], {})
        st.emit('apply:returned', self, r)
        return r
    exc = _mk_hard_error(interp, self) if k == 2 else _mk_arbitrary(interp, self)
    st.ghost['status'] = interp.call(expected_status, ['raised', exc], {})
    st.emit('apply:raised', self, exc)
    raise PyRaise(exc)


class ExecutorI(Interface):
    """ControlledInstructionExecutor: `apply` may succeed (None), report a failure, raise
    HardErrorException or raise anything else -- the environment the property quantifies over.
    The 14 concrete executor classes are proved to return None / a failure info (layer 2)."""
    target_class = ControlledInstructionExecutor
    methods = {'apply': Method(model=_apply_model)}


def _monitor_start(elements_of):
    def setup(interp, args, ghosts):
        g = interp.st.ghost
        g['phase'] = elements_of(args)
        g['last'] = -1
        g['failed'] = False
        g['status'] = ExecutionFailureStatus.INTERNAL_ERROR      # meaningful only when `failed`
        return None

    return setup


MONITOR_FRAME = {'ghost:last': Int, 'ghost:failed': Bool, 'ghost:status': EnumOf(ExecutionFailureStatus)}

# ====================================================================================== layer 0

INSTRUCTION_INFO = Inst(InstructionInfo, _tuple=[Iface(InstructionI), Opt(Str)])
ELEMENT = Inst(SectionContentElement,
               _element_type=EnumOf(ElementType),
               _instruction_info=INSTRUCTION_INFO,
               _source_location_info=Iface(SourceLocationInfoI))


def applies(trace):
    return [e for e in trace if e[0] == 'apply']


def outcome_of_apply(trace):
    """(kind, payload) of the single apply of the trace"""
    e = [e for e in trace if e[0] in ('apply:returned', 'apply:raised')][0]
    return e[0][len('apply:'):], e[2]


def apply_succeeded(trace):
    kind, payload = outcome_of_apply(trace)
    return kind == 'returned' and payload is None


M.contract(P_SIE + ':execute_element',
           params=dict(executor=Iface(ExecutorI), element=ELEMENT, instruction_info=INSTRUCTION_INFO),
           inline=True,
           ensures={
               'applies exactly once, to the instruction': lambda executor, instruction_info, trace:
               applies(trace) == [('apply', executor, (instruction_info.instruction,))],
               'success iff apply returned None': lambda result, trace: iff(result is None, apply_succeeded(trace)),
               'failure has the kind of the failing apply': lambda result, trace:
               result is None or result.status is expected_status(*outcome_of_apply(trace)),
               'failure names the source of the element': lambda element, result:
               result is None or result.source_location_path is element.source_location_info.source_location_path,
           },
           raises_only=())

# ====================================================================================== layer 1

PHASE = Inst(SectionContents, _elements=ListOf(ELEMENT))
NO_HEADER = Inst(pse.ElementHeaderExecutorThatDoesNothing)


def is_do_nothing(x):
    return type(x) is pse.ElementHeaderExecutorThatDoesNothing


def all_instructions_applied(phase_contents, ghost):
    """the monitor has seen a successful apply for every instruction element of the phase"""
    xs = phase_contents.elements
    return (not ghost['failed']) and -1 <= ghost['last'] and ghost['last'] < len(xs) \
        and no_instruction_between(xs, ghost['last'] + 1, len(xs))


def stopped_at_failure(ghost, status):
    """the last apply failed (the monitor guarantees that none follows), `status` is its kind"""
    return ghost['failed'] and status is ghost['status']


FAILURE = Inst(Failure, _tuple=[EnumOf(ExecutionFailureStatus), Any_, Any_, Opt(Str)])

M.contract(P_PSE + ':execute_phase_prim',
           params=dict(phase_contents=PHASE, header_executor_for_comment=NO_HEADER,
                       header_executor_for_instruction=NO_HEADER, instruction_executor=Iface(ExecutorI)),
           requires=lambda header_executor_for_comment, header_executor_for_instruction:
           is_do_nothing(header_executor_for_comment) and is_do_nothing(header_executor_for_instruction),
           setup=_monitor_start(lambda args: args['phase_contents']._elements),
           modifies=MONITOR_FRAME,
           returns=Opt(FAILURE),
           ensures={
               'None: every instruction applied, in file order, all succeeded': lambda result, ghost, phase_contents:
               result is not None or all_instructions_applied(phase_contents, ghost),
               'failure: of the first failing instruction, nothing applied after it': lambda result, ghost:
               result is None or stopped_at_failure(ghost, result.status),
               'failure: at an instruction element': lambda result, ghost, phase_contents:
               result is None or (0 <= ghost['last'] and ghost['last'] < len(phase_contents.elements)
                                  and is_instruction(phase_contents.elements[ghost['last']])),
               'failure: source location of the failing element': (lambda result, ghost, phase_contents:
               result is None or result.source_location is
               phase_contents.elements[ghost['last']].source_location_info.source_location_path, 'check-only'),
           },
           raises_only=())

M.loop(P_PSE + ':execute_phase_prim', 0,
       invariant=lambda _i, _xs, ghost:
       (not ghost['failed']) and -1 <= ghost['last'] and ghost['last'] < _i
       and no_instruction_between(_xs, ghost['last'] + 1, _i),
       modifies=dict(element='local', instruction_info='local', failure_info='local', **MONITOR_FRAME))


def instruction_failure_shape(step):
    """PhaseStepFailure of an instruction step, as callers see it: carries the step it was given"""
    return Inst(PhaseStepFailure,
                _PhaseStepFailure__status=EnumOf(ExecutionFailureStatus),
                _PhaseStepFailure__failure_info=Inst(InstructionFailureInfo,
                                                     _FailureInfo__phase_step=Const(step),
                                                     _FailureInfo__failure_details=Any_,
                                                     _InstructionFailureInfo__source_location=Any_,
                                                     _InstructionFailureInfo__phase_step=Const(step),
                                                     _InstructionFailureInfo__element_description=Opt(Str)))


M.contract(P_PSE + ':execute_phase',
           params=dict(phase_contents=PHASE, header_executor_for_comment=NO_HEADER,
                       header_executor_for_instruction=NO_HEADER, instruction_executor=Iface(ExecutorI),
                       phase_step=Any_),
           requires=lambda header_executor_for_comment, header_executor_for_instruction:
           is_do_nothing(header_executor_for_comment) and is_do_nothing(header_executor_for_instruction),
           setup=_monitor_start(lambda args: args['phase_contents']._elements),
           modifies=MONITOR_FRAME,
           returns=Dependent(lambda interp, name, env:
                             Opt(instruction_failure_shape(env['phase_step'])).make(interp, name)),
           ensures={
               'None: every instruction applied, in file order, all succeeded': lambda result, ghost, phase_contents:
               result is not None or all_instructions_applied(phase_contents, ghost),
               'failure: of the first failing instruction, nothing applied after it': lambda result, ghost:
               result is None or stopped_at_failure(ghost, result.status),
               'failure names the step': lambda result, phase_step:
               result is None or result.failure_info.phase_step is phase_step,
           },
           raises_only=())


def step_failure_exception_shape(failure_shape_of_step, step_param='step'):
    return Dependent(lambda interp, name, env:
                     Inst(PhaseStepFailureException, failure=failure_shape_of_step(env[step_param])).make(interp, name))


M.contract(P_PSE + ':run_instructions_phase_step',
           params=dict(step=Any_, instruction_executor=Iface(ExecutorI), phase_contents=PHASE),
           setup=_monitor_start(lambda args: args['phase_contents']._elements),
           modifies=MONITOR_FRAME,
           event='run-step',
           ensures={
               'returns: every instruction applied, in file order, all succeeded': lambda ghost, phase_contents:
               all_instructions_applied(phase_contents, ghost),
           },
           raises={PhaseStepFailureException: {
               'shape': step_failure_exception_shape(instruction_failure_shape),
               'ensures': lambda exc, step, ghost:
               stopped_at_failure(ghost, exc.failure.status) and exc.failure.failure_info.phase_step is step}},
           raises_only=())
