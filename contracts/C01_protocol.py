"""C01 -- phased execution protocol: fixed order, halt at first failure, cleanup runs.

Layers (each proved against the contracts of the layer below; see notes/C01.md):

  0  execute_element                      one instruction, one `apply`, failure kinds
  1  execute_phase_prim / execute_phase / run_instructions_phase_step
                                          instructions of a phase in file order, stop at the first failure
                                          (unbounded number of instructions: loop invariant + ghost monitor)
  2  the executor classes' `apply`        which instruction method a step calls, with which arguments
  3  the step methods of _PartialExecutor which step constant / executor / phase each step uses
  4  _PartialExecutor.execute, full execute
                                          order of steps, halt, cleanup exactly once, outcome

Instructions, actors and the action to check are opaque: each step method returns a value of its
declared result type or raises HardErrorException or an arbitrary Exception -- the "ways a step can
fail" of the property's quantifier are free symbolic choices.
"""
from pyvc.api import (Module, Interface, Method, Iface, Inst, Int, Nat, Bool, Str, Opt, OneOf, Const, Union,
                      ListOf, FixedList, Any_, EnumOf, Custom, Dependent, new_opaque, assume_pred)
from pyvc.interp import ArbitraryException, PyRaise
from contracts.common import implies, iff, forall_range, exists_range, is_opaque

from exactly_lib.execution import phase_step
from exactly_lib.execution.impl import single_instruction_executor as sie
from exactly_lib.execution.impl import phase_step_execution as pse
from exactly_lib.execution.impl import phase_step_executors as psx
from exactly_lib.execution.impl.result import Failure
from exactly_lib.execution.impl.single_instruction_executor import (
    PartialControlledFailureEnum, PartialInstructionControlledFailureInfo, SingleInstructionExecutionFailure,
    ControlledInstructionExecutor)
from exactly_lib.execution.result import (ExecutionFailureStatus, PhaseStepFailure, PhaseStepFailureException,
                                          ActionToCheckOutcome)
from exactly_lib.execution.failure_info import InstructionFailureInfo, ActPhaseFailureInfo
from exactly_lib.section_document.model import (SectionContents, SectionContentElement, ElementType,
                                                InstructionInfo)
from exactly_lib.test_case.hard_error import HardErrorException
from exactly_lib.test_case.phases.common import TestCaseInstruction

M = Module('C01')

P_SIE = 'exactly_lib.execution.impl.single_instruction_executor'
P_PSE = 'exactly_lib.execution.impl.phase_step_execution'
P_PSX = 'exactly_lib.execution.impl.phase_step_executors'

# ====================================================================================== shapes

# rendering of messages / tracebacks is outside the property: assumed total
M.contract('exactly_lib.util.traceback_:traceback_as_str', trusted=True, params=dict(), returns=Str)
M.contract('exactly_lib.common.report_rendering.text_docs:single_pre_formatted_line_object', trusted=True,
           params=dict(x=Any_, is_x_multi_line=Any_), returns=Any_)
M.trust('util.traceback_.traceback_as_str and text_docs.single_pre_formatted_line_object return (formatting of '
        'error messages; they read sys.exc_info / build a renderer and have no effect on control flow)')


class SourceLocationI(Interface):
    attrs = {'source': Any_}


class SourceLocationPathI(Interface):
    attrs = {'location': Iface(SourceLocationI)}


class SourceLocationInfoI(Interface):
    """SourceLocationInfo of an element: only passed through (to the header executors, to the failure object)."""
    attrs = {'source_location_path': Iface(SourceLocationPathI)}


class InstructionI(Interface):
    """An instruction seen by the generic executor: nothing is done with it but handing it to `apply`."""
    target_class = TestCaseInstruction


FAIL_INFO = Inst(PartialInstructionControlledFailureInfo, _tuple=[EnumOf(PartialControlledFailureEnum), Any_])


def _mk_hard_error(interp, o):
    e = HardErrorException.__new__(HardErrorException)
    e._error = Any_.make(interp, 'hard_error.error')
    return e


def _mk_arbitrary(interp, o):
    return ArbitraryException()


def expected_status(kind, payload):
    """The kind of failure of one `apply`, as the property wants it reported."""
    if kind == 'returned':
        return ExecutionFailureStatus[payload.status.name]
    if isinstance(payload, HardErrorException):
        return ExecutionFailureStatus.HARD_ERROR
    return ExecutionFailureStatus.INTERNAL_ERROR


# ----- ghost monitor of one run of a phase step (state in `ghost`):
#   phase   the elements of the phase (set when the run starts)
#   last    index of the element whose instruction was applied last (-1: none yet)
#   failed  an `apply` did not succeed
#   status  the ExecutionFailureStatus the failing `apply` stands for (meaningful when `failed`)
# Every `apply` of the opaque executor is checked against the monitor (obligations
# `monitor[...]`): it is never called after a failure, the instruction applied is the next
# instruction element of the phase after `last` (so: file order, each at most once, none skipped).

def is_instruction(e):
    return e.element_type is ElementType.INSTRUCTION


def no_instruction_between(xs, lo, hi):
    """no element with index in [lo, hi) is an instruction"""
    return forall_range(lo, hi, lambda j: not is_instruction(xs[j]))


def monitor_accepts_apply(ghost, idx):
    return (not ghost['failed']) and ghost['last'] < idx and no_instruction_between(ghost['phase'], ghost['last'] + 1,
                                                                                   idx)


def _index_in_phase(interp, instruction):
    """The position of the element an (opaque) instruction object belongs to, in the monitored phase."""
    xs = interp.st.ghost.get('phase')
    idx = getattr(instruction, '_pv_index', ())
    if xs is None or len(idx) != 1 or not getattr(instruction, '_pv_uid', '').startswith(xs.uid + '[]'):
        return None
    from pyvc.values import wrap
    return wrap(idx[0])


def _apply_model(interp, self, args, kwargs):
    """executor.apply(instruction): any outcome; drives the monitor."""
    st = interp.st
    (instruction,) = args
    fn = interp.current_function_name()
    if 'phase' in st.ghost:
        idx = _index_in_phase(interp, instruction)
        if idx is None:
            st.oblige(fn + ' : monitor[apply only to instructions of the phase]', False, {'kind': 'monitor'})
            raise PyRaise(AssertionError('monitor'))
        ok = interp.truth(interp.call(monitor_accepts_apply, [st.ghost, idx], {}))
        st.oblige(fn + ' : monitor[apply: not after a failure, next instruction in file order]', ok,
                  {'kind': 'monitor'})
        st.assume(ok)
        st.ghost['last'] = idx
    st.emit('apply', self, (instruction,))
    k = st.choose(4)
    if k == 0:
        st.emit('apply:returned', self, None)
        return None
    st.ghost['failed'] = True
    if k == 1:
        r = FAIL_INFO.make(interp, 'apply()')
        st.ghost['status'] = interp.call(expected_status, ['returned', r], {})
        st.assume(interp.truth(interp.call(can_report, [self, st.ghost['status']], {})))
        st.emit('apply:returned', self, r)
        return r
    exc = _mk_hard_error(interp, self) if k == 2 else _mk_arbitrary(interp, self)
    st.ghost['status'] = interp.call(expected_status, ['raised', exc], {})
    st.emit('apply:raised', self, exc)
    raise PyRaise(exc)


class ExecutorI(Interface):
    """ControlledInstructionExecutor: `apply` may succeed (None), report a failure, raise
    HardErrorException or raise anything else -- the environment the property quantifies over.
    The 14 concrete executor classes are proved to return None / a failure info (layer 2).
    reports_validation_error / reports_fail: whether a *reported* failure may be of that kind
    (a hard error may always be reported or raised, anything may be raised)."""
    target_class = ControlledInstructionExecutor
    attrs = {'reports_validation_error': Bool, 'reports_fail': Bool}
    methods = {'apply': Method(model=_apply_model)}


def can_report(executor, status):
    """`status` is a kind of failure that a step run with this executor can end with"""
    if status is ExecutionFailureStatus.HARD_ERROR or status is ExecutionFailureStatus.INTERNAL_ERROR:
        return True
    if status is ExecutionFailureStatus.VALIDATION_ERROR:
        return executor.reports_validation_error if is_opaque(executor) else 'VALIDATION_ERROR' in REPORTS[type(executor)]
    if status is ExecutionFailureStatus.FAIL:
        return executor.reports_fail if is_opaque(executor) else 'FAIL' in REPORTS[type(executor)]
    return False


def _monitor_start(elements_of):
    def setup(interp, args, ghosts):
        g = interp.st.ghost
        g['phase'] = elements_of(args)
        g['last'] = -1
        g['failed'] = False
        g['status'] = ExecutionFailureStatus.INTERNAL_ERROR      # meaningful only when `failed`
        return None

    return setup


MONITOR_FRAME = {'ghost:last': Int, 'ghost:failed': Bool, 'ghost:status': EnumOf(ExecutionFailureStatus)}

# ====================================================================================== layer 0

INSTRUCTION_INFO = Inst(InstructionInfo, _tuple=[Iface(InstructionI), Opt(Str)])
ELEMENT = Inst(SectionContentElement,
               _element_type=EnumOf(ElementType),
               _instruction_info=INSTRUCTION_INFO,
               _source_location_info=Iface(SourceLocationInfoI))


def applies(trace):
    return [e for e in trace if e[0] == 'apply']


def outcome_of_apply(trace):
    """(kind, payload) of the single apply of the trace"""
    e = [e for e in trace if e[0] in ('apply:returned', 'apply:raised')][0]
    return e[0][len('apply:'):], e[2]


def apply_succeeded(trace):
    kind, payload = outcome_of_apply(trace)
    return kind == 'returned' and payload is None


M.contract(P_SIE + ':execute_element',
           params=dict(executor=Iface(ExecutorI), element=ELEMENT, instruction_info=INSTRUCTION_INFO),
           inline=True,
           ensures={
               'applies exactly once, to the instruction': lambda executor, instruction_info, trace:
               applies(trace) == [('apply', executor, (instruction_info.instruction,))],
               'success iff apply returned None': lambda result, trace: iff(result is None, apply_succeeded(trace)),
               'failure has the kind of the failing apply': lambda result, trace:
               result is None or result.status is expected_status(*outcome_of_apply(trace)),
               'failure names the source of the element': lambda element, result:
               result is None or result.source_location_path is element.source_location_info.source_location_path,
           },
           raises_only=())

# ====================================================================================== layer 1

PHASE = Inst(SectionContents, _elements=ListOf(ELEMENT))
NO_HEADER = Inst(pse.ElementHeaderExecutorThatDoesNothing)


def is_do_nothing(x):
    return type(x) is pse.ElementHeaderExecutorThatDoesNothing


def all_instructions_applied(phase_contents, ghost):
    """the monitor has seen a successful apply for every instruction element of the phase"""
    xs = phase_contents.elements
    return (not ghost['failed']) and -1 <= ghost['last'] and ghost['last'] < len(xs) \
        and no_instruction_between(xs, ghost['last'] + 1, len(xs))


def stopped_at_failure(ghost, status):
    """the last apply failed (the monitor guarantees that none follows), `status` is its kind"""
    return ghost['failed'] and status is ghost['status']


FAILURE = Inst(Failure, _tuple=[EnumOf(ExecutionFailureStatus), Any_, Any_, Opt(Str)])

M.contract(P_PSE + ':execute_phase_prim',
           params=dict(phase_contents=PHASE, header_executor_for_comment=NO_HEADER,
                       header_executor_for_instruction=NO_HEADER, instruction_executor=Iface(ExecutorI)),
           requires=lambda header_executor_for_comment, header_executor_for_instruction:
           is_do_nothing(header_executor_for_comment) and is_do_nothing(header_executor_for_instruction),
           setup=_monitor_start(lambda args: args['phase_contents']._elements),
           modifies=MONITOR_FRAME,
           returns=Opt(FAILURE),
           ensures={
               'None: every instruction applied, in file order, all succeeded': lambda result, ghost, phase_contents:
               result is not None or all_instructions_applied(phase_contents, ghost),
               'failure: of the first failing instruction, nothing applied after it': lambda result, ghost:
               result is None or stopped_at_failure(ghost, result.status),
               'failure: of a kind the executor can report': lambda result, instruction_executor:
               result is None or can_report(instruction_executor, result.status),
               'failure: at an instruction element': lambda result, ghost, phase_contents:
               result is None or (0 <= ghost['last'] and ghost['last'] < len(phase_contents.elements)
                                  and is_instruction(phase_contents.elements[ghost['last']])),
               'failure: source location of the failing element': (lambda result, ghost, phase_contents:
               result is None or result.source_location is
               phase_contents.elements[ghost['last']].source_location_info.source_location_path, 'check-only'),
           },
           raises_only=())

M.loop(P_PSE + ':execute_phase_prim', 0,
       invariant=lambda _i, _xs, ghost:
       (not ghost['failed']) and -1 <= ghost['last'] and ghost['last'] < _i
       and no_instruction_between(_xs, ghost['last'] + 1, _i),
       modifies=dict(element='local', instruction_info='local', failure_info='local', **MONITOR_FRAME))


def statuses_of(executor):
    """the kinds of failure a step run with this executor can end with (all, for an executor we know nothing of)"""
    if type(executor) in REPORTS:
        return [m for m in ExecutionFailureStatus
                if m.name in REPORTS[type(executor)] + ('HARD_ERROR', 'INTERNAL_ERROR')]
    return list(ExecutionFailureStatus)


def instruction_failure_shape(step, statuses=tuple(ExecutionFailureStatus)):
    """PhaseStepFailure of an instruction step, as callers see it: carries the step it was given"""
    return Inst(PhaseStepFailure,
                _PhaseStepFailure__status=OneOf(*statuses),
                _PhaseStepFailure__failure_info=Inst(InstructionFailureInfo,
                                                     _FailureInfo__phase_step=Const(step),
                                                     _FailureInfo__failure_details=Any_,
                                                     _InstructionFailureInfo__source_location=Any_,
                                                     _InstructionFailureInfo__phase_step=Const(step),
                                                     _InstructionFailureInfo__element_description=Opt(Str)))


M.contract(P_PSE + ':execute_phase',
           params=dict(phase_contents=PHASE, header_executor_for_comment=NO_HEADER,
                       header_executor_for_instruction=NO_HEADER, instruction_executor=Iface(ExecutorI),
                       phase_step=Any_),
           requires=lambda header_executor_for_comment, header_executor_for_instruction:
           is_do_nothing(header_executor_for_comment) and is_do_nothing(header_executor_for_instruction),
           setup=_monitor_start(lambda args: args['phase_contents']._elements),
           modifies=MONITOR_FRAME, event='execute-phase',
           returns=Dependent(lambda interp, name, env:
                             Opt(instruction_failure_shape(env['phase_step'],
                                                           statuses_of(env['instruction_executor']))).make(interp, name)),
           ensures={
               'None: every instruction applied, in file order, all succeeded': lambda result, ghost, phase_contents:
               result is not None or all_instructions_applied(phase_contents, ghost),
               'failure: of the first failing instruction, nothing applied after it': lambda result, ghost:
               result is None or stopped_at_failure(ghost, result.status),
               'failure: of a kind the executor can report': lambda result, instruction_executor:
               result is None or can_report(instruction_executor, result.status),
               'failure names the step': lambda result, phase_step:
               result is None or result.failure_info.phase_step is phase_step,
           },
           raises_only=())


def step_failure_exception_shape():
    return Dependent(lambda interp, name, env:
                     Inst(PhaseStepFailureException,
                          failure=instruction_failure_shape(env['step'], statuses_of(env['instruction_executor']))
                          ).make(interp, name))


M.contract(P_PSE + ':run_instructions_phase_step',
           params=dict(step=Any_, instruction_executor=Iface(ExecutorI), phase_contents=PHASE),
           setup=_monitor_start(lambda args: args['phase_contents']._elements),
           modifies=MONITOR_FRAME,
           event='run-step',
           ensures={
               'returns: every instruction applied, in file order, all succeeded': lambda ghost, phase_contents:
               all_instructions_applied(phase_contents, ghost),
           },
           raises={PhaseStepFailureException: {
               'shape': step_failure_exception_shape(),
               'ensures': lambda exc, step, ghost, instruction_executor:
               stopped_at_failure(ghost, exc.failure.status) and exc.failure.failure_info.phase_step is step
               and can_report(instruction_executor, exc.failure.status)}},
           raises_only=())

# ====================================================================================== layers 3 and 4: _PartialExecutor
from exactly_lib.execution.partial_execution.impl import executor as pex, act_helper as pah, atc_execution as pax, \
    symbol_validation as psv
from exactly_lib.execution.partial_execution.configuration import ConfPhaseValues, TestCase
from exactly_lib.execution.partial_execution.result import PartialExeResult
from exactly_lib.execution.configuration import ExecutionConfiguration
from exactly_lib.test_case.phases.act.actor import Actor, ActionToCheck, ParseException
from exactly_lib.test_case.phases.cleanup import PreviousPhase
from exactly_lib.test_case.result import svh, sh, pfh, eh
from exactly_lib.util.name_and_value import NameAndValue
from exactly_lib.util.symbol_table import SymbolTable

P_EX = 'exactly_lib.execution.partial_execution.impl.executor'
P_AH = 'exactly_lib.execution.partial_execution.impl.act_helper'
P_AX = 'exactly_lib.execution.partial_execution.impl.atc_execution'
P_SV = 'exactly_lib.execution.partial_execution.impl.symbol_validation'

S = phase_step
SDS = 'SDS'     # the event of sandbox construction (not a phase step)

# the documented sequence of steps (cleanup/main, which may come after any step once the sandbox exists, left out)
CANONICAL = [
    S.ACT__PARSE,
    S.SETUP__VALIDATE_SYMBOLS, S.ACT__VALIDATE_SYMBOLS, S.BEFORE_ASSERT__VALIDATE_SYMBOLS,
    S.ASSERT__VALIDATE_SYMBOLS, S.CLEANUP__VALIDATE_SYMBOLS,
    S.SETUP__VALIDATE_PRE_SDS, S.ACT__VALIDATE_PRE_SDS, S.BEFORE_ASSERT__VALIDATE_PRE_SDS,
    S.ASSERT__VALIDATE_PRE_SDS, S.CLEANUP__VALIDATE_PRE_SDS,
    SDS,
    S.SETUP__MAIN,
    S.SETUP__VALIDATE_POST_SETUP, S.ACT__VALIDATE_POST_SETUP, S.BEFORE_ASSERT__VALIDATE_POST_SETUP,
    S.ASSERT__VALIDATE_POST_SETUP,
    S.ACT__VALIDATE_EXE_INPUT, S.ACT__PREPARE,
    S.ACT__EXECUTE,
    S.BEFORE_ASSERT__MAIN,
    S.ASSERT__MAIN,
]
UP_TO_ACT_EXECUTE = CANONICAL[:CANONICAL.index(S.ACT__EXECUTE) + 1]


# ----- results of instructions / of the action to check, and the kind of failure each stands for

SVH = Inst(svh.SuccessOrValidationErrorOrHardError, _tuple=[Opt(Bool), Opt(Any_)])
SH = Inst(sh.SuccessOrHardError, _tuple=[Opt(Any_)])
PFH = Inst(pfh.PassOrFailOrHardError, _tuple=[EnumOf(pfh.PassOrFailOrHardErrorEnum), Opt(Any_)])
EH = Inst(eh.ExitCodeOrHardError, _tuple=[Opt(Int), Opt(Any_)])


def svh_kind(r):
    """documented reading of a SuccessOrValidationErrorOrHardError (is_hard_error, failure_message)"""
    if r[1] is None:
        return None
    return 'VALIDATION_ERROR' if r[0] is False else 'HARD_ERROR'


def sh_kind(r):
    return None if r[0] is None else 'HARD_ERROR'


def pfh_kind(r):
    return None if r[0] is pfh.PassOrFailOrHardErrorEnum.PASS else r[0].name


def eh_kind(r):
    return None if r[0] is not None else 'HARD_ERROR'


def kind_of_raised(exc):
    return 'HARD_ERROR' if isinstance(exc, HardErrorException) else 'INTERNAL_ERROR'


RAISES = (_mk_hard_error, _mk_arbitrary)

# what an instruction can *report* through each executor class (proved of each `apply`, layer 2)
_SVH_KINDS, _SH_KINDS, _PFH_KINDS = ('VALIDATION_ERROR', 'HARD_ERROR'), ('HARD_ERROR',), ('FAIL', 'HARD_ERROR')
REPORTS = {
    psx.ConfigurationMainExecutor: _SVH_KINDS,
    psx.SetupValidatePreSdsExecutor: _SVH_KINDS, psx.BeforeAssertValidatePreSdsExecutor: _SVH_KINDS,
    psx.AssertValidatePreSdsExecutor: _SVH_KINDS, psx.CleanupValidatePreSdsExecutor: _SVH_KINDS,
    psx.SetupValidatePostSetupExecutor: _SVH_KINDS, psx.BeforeAssertValidatePostSetupExecutor: _SVH_KINDS,
    psx.AssertValidatePostSetupExecutor: _SVH_KINDS,
    psx.SetupMainExecutor: _SH_KINDS, psx.BeforeAssertMainExecutor: _SH_KINDS, psx.CleanupMainExecutor: _SH_KINDS,
    psx.AssertMainExecutor: _PFH_KINDS,
}
_RAISED_KINDS = ('HARD_ERROR', 'INTERNAL_ERROR')
# "that step's kind of failure": the kinds each step can end with
KINDS_OF_STEP = {
    S.CONFIGURATION__MAIN: _SVH_KINDS + _RAISED_KINDS,
    S.ACT__PARSE: ('SYNTAX_ERROR',) + _RAISED_KINDS,
    S.ACT__VALIDATE_SYMBOLS: ('VALIDATION_ERROR',) + _RAISED_KINDS,
    S.ACT__VALIDATE_PRE_SDS: _SVH_KINDS + _RAISED_KINDS, S.ACT__VALIDATE_POST_SETUP: _SVH_KINDS + _RAISED_KINDS,
    S.ACT__VALIDATE_EXE_INPUT: _RAISED_KINDS, S.ACT__PREPARE: _RAISED_KINDS, S.ACT__EXECUTE: _RAISED_KINDS,
    S.SETUP__MAIN: _RAISED_KINDS, S.BEFORE_ASSERT__MAIN: _RAISED_KINDS, S.CLEANUP__MAIN: _RAISED_KINDS,
    S.ASSERT__MAIN: _PFH_KINDS + _RAISED_KINDS,
}
for _s in (S.SETUP__VALIDATE_SYMBOLS, S.BEFORE_ASSERT__VALIDATE_SYMBOLS, S.ASSERT__VALIDATE_SYMBOLS,
           S.CLEANUP__VALIDATE_SYMBOLS):
    KINDS_OF_STEP[_s] = ('VALIDATION_ERROR',) + _RAISED_KINDS
for _s in (S.SETUP__VALIDATE_PRE_SDS, S.BEFORE_ASSERT__VALIDATE_PRE_SDS, S.ASSERT__VALIDATE_PRE_SDS,
           S.CLEANUP__VALIDATE_PRE_SDS, S.SETUP__VALIDATE_POST_SETUP, S.BEFORE_ASSERT__VALIDATE_POST_SETUP,
           S.ASSERT__VALIDATE_POST_SETUP):
    KINDS_OF_STEP[_s] = _SVH_KINDS + _RAISED_KINDS


# ----- environment objects (opaque; what they are is C04 / C11's subject)

class SymbolTableI(Interface):
    target_class = SymbolTable
    methods = {'copy': Method(returns=Iface(lambda: SymbolTableI))}


class SdsI(Interface):
    attrs = {'root_dir': Any_, 'act_dir': Any_, 'internal_tmp_dir': Any_, 'result': Any_}


class PreSdsEnvI(Interface):
    attrs = {'symbols': Iface(SymbolTableI), 'hds': Any_, 'proc_exe_settings': Any_, 'mem_buff_size': Any_}


class PostSdsEnvI(PreSdsEnvI):
    attrs = {'sds': Any_, 'tcds': Any_, 'tmp_dir__path_access': Any_}


class TmpSpaceFactoryI(Interface):
    methods = {name: Method(returns=Any_) for name in
               ('for_phase__main', 'for_phase__validation', 'instruction__main', 'instruction__validation')}


class InstructionSettingsI(Interface):
    methods = {'timeout_in_seconds': Method(returns=Opt(Int)), 'environ': Method(returns=Opt(Any_))}
    attrs = {'default_environ_getter': Any_}


class AtcInputI(Interface):
    """AdvWValidation[AtcExecutionInput]: `validate` gives an error message or None"""
    methods = {'validate': Method(returns=Opt(Any_), may_raise=RAISES, event='atc_input.validate'),
               'resolve': Method(returns=Any_, may_raise=RAISES)}


class SettingsHandlerI(Interface):
    attrs = {'builder': Any_}
    methods = {'as_atc_execution_input': Method(returns=Iface(AtcInputI))}


class AtcI(Interface):
    """The action to check: every step returns a value of its result type, raises HardErrorException
    or raises anything else."""
    target_class = ActionToCheck
    methods = {
        'symbol_usages': Method(returns=Any_, may_raise=RAISES, event='atc.symbol_usages'),
        'validate_pre_sds': Method(returns=SVH, may_raise=RAISES, event='atc.validate_pre_sds'),
        'validate_post_setup': Method(returns=SVH, may_raise=RAISES, event='atc.validate_post_setup'),
        'prepare': Method(returns=SH, may_raise=RAISES, event='atc.prepare'),
        'execute': Method(returns=EH, may_raise=RAISES, event='atc.execute'),
    }


def _mk_parse_exception(interp, o):
    e = ParseException.__new__(ParseException)
    e.cause = Any_.make(interp, 'parse_exception.cause')
    return e


class ActorI(Interface):
    target_class = Actor
    methods = {'parse': Method(returns=Iface(AtcI), may_raise=(_mk_parse_exception,) + RAISES, event='actor.parse')}


ATC_OUTCOME = Inst(ActionToCheckOutcome, _tuple=[Int])
ATC_EXECUTOR = Inst(pax.ActionToCheckExecutor,
                    atc=Iface(AtcI), environment_for_validate_post_setup=Iface(PostSdsEnvI),
                    environment_for_other_steps=Iface(PostSdsEnvI), os_services=Any_, tcds=Any_,
                    atc_input=Iface(AtcInputI), exe_atc_and_skip_assertions=Opt(Any_), _atc_outcome=Opt(ATC_OUTCOME))
ATC_EXECUTOR_NEW = Inst(pax.ActionToCheckExecutor,
                        atc=Iface(AtcI), environment_for_validate_post_setup=Iface(PostSdsEnvI),
                        environment_for_other_steps=Iface(PostSdsEnvI), os_services=Any_, tcds=Any_,
                        atc_input=Iface(AtcInputI), exe_atc_and_skip_assertions=Opt(Any_), _atc_outcome=Const(None))

EXE_CONF = Inst(ExecutionConfiguration,
                _tuple=[Opt(Any_), Any_, Iface(SymbolTableI), Opt(Any_), Any_, Int, Any_, Opt(Int)])
CONF_VALUES = Inst(ConfPhaseValues, _tuple=[Inst(NameAndValue, _tuple=[Str, Iface(ActorI)]), Any_])
TEST_CASE = Inst(TestCase, _tuple=[PHASE, PHASE, PHASE, PHASE, PHASE])


def _mk_act_helper(interp, name, actor_name, act_phase):
    h = object.__new__(pah.ActHelper)
    h._actor_name = actor_name
    h.act_phase = act_phase
    h.instructions = Any_.make(interp, name + '.instructions')
    h.act_source_str = Str.make(interp, name + '.act_source_str')
    return h


# assumed: the constructor of ActHelper stores its arguments; the list of act-phase instructions and their
# source text are derived values that only travel to Actor.parse and into error messages.
# (It raises if an element of [act] is not an ActPhaseInstruction: what the parser produces is.)
M.model(pah.ActHelper, lambda interp, args, kwargs: _mk_act_helper(interp, 'act_helper', *args, **kwargs))
M.trust('ActHelper.__init__ stores actor name and act phase; extracting the instructions of [act] and formatting '
        'their source does not raise (the act phase consists of ActPhaseInstructions, as the parser guarantees)')


def _mk_partial_executor(stage):
    """_PartialExecutor as __init__ leaves it ('initial'), or later: 'pre-sds' (environment for validation
    set), 'post-sds' (sandbox exists), 'act' (executor of the action to check constructed)."""

    def mk(interp, name):
        x = object.__new__(pex._PartialExecutor)
        exe_conf = EXE_CONF.make(interp, name + '.exe_conf')
        conf_values = CONF_VALUES.make(interp, name + '.conf_values')
        x.conf = pex.Configuration(exe_conf, conf_values, Any_.make(interp, name + '.mk_setup_settings_handler'))
        x.exe_conf = exe_conf
        x.conf_values = conf_values
        x._test_case = TEST_CASE.make(interp, name + '._test_case')
        x._setup_settings_handler = Iface(SettingsHandlerI).make(interp, name + '._setup_settings_handler')
        x._source_setup = None
        x._os_services = Any_.make(interp, name + '._os_services')
        x._act_phase_executor = None
        x._action_to_check = None
        x._instruction_environment_pre_sds = None
        x._PartialExecutor__sandbox_directory_structure = None
        x._action_to_check_outcome = None
        x._phase_tmp_space_factory = None
        x._act_helper = _mk_act_helper(interp, name + '._act_helper', conf_values.actor.name, x._test_case.act_phase)
        x._instruction_settings = Iface(InstructionSettingsI).make(interp, name + '._instruction_settings')
        if stage in ('pre-sds', 'post-sds', 'act'):
            x._action_to_check = Iface(AtcI).make(interp, name + '._action_to_check')
            x._instruction_environment_pre_sds = Iface(PreSdsEnvI).make(interp, name + '._env_pre_sds')
        if stage in ('post-sds', 'act'):
            x._PartialExecutor__sandbox_directory_structure = Iface(SdsI).make(interp, name + '.sds')
            x._phase_tmp_space_factory = Iface(TmpSpaceFactoryI).make(interp, name + '._phase_tmp_space_factory')
            x._PartialExecutor__post_sds_symbol_table = Iface(SymbolTableI).make(interp, name + '.post_sds_symbols')
        if stage == 'act':
            x._act_phase_executor = ATC_EXECUTOR.make(interp, name + '._act_phase_executor')
        return x

    return Custom(mk)


def act_failure_shape(step):
    return Inst(PhaseStepFailure,
                _PhaseStepFailure__status=OneOf(*[m for m in ExecutionFailureStatus if m.name in KINDS_OF_STEP[step]]),
                _PhaseStepFailure__failure_info=Inst(ActPhaseFailureInfo,
                                                     _FailureInfo__phase_step=Const(step),
                                                     _FailureInfo__failure_details=Any_,
                                                     _actor_name=Str, _phase_source=Str))


def at_stage(self, stage):
    """what the executor has set up when a step of that stage may run (the state the step's contract is proved
    for; proved at every call of the step)"""
    if stage == 'initial':
        return True
    ok = self._action_to_check is not None and self._instruction_environment_pre_sds is not None
    if stage in ('post-sds', 'act'):
        ok = ok and self._sds is not None and self._phase_tmp_space_factory is not None
    if stage == 'act':
        ok = ok and self._act_phase_executor is not None
    return ok


def result_state(self):
    """the state of the executor that the final result is built from"""
    return self._sds, self._action_to_check_outcome


def keeps_result_state(self, old):
    return self._sds is old[0] and self._action_to_check_outcome is old[1]


# ----- the step methods: (step constant, executor class, phase of the test case, stage at which it runs)

INSTRUCTION_STEPS = {
    '_setup__validate_pre_sds': (S.SETUP__VALIDATE_PRE_SDS, psx.SetupValidatePreSdsExecutor, 'setup_phase', 'pre-sds'),
    '_before_assert__validate_pre_sds': (S.BEFORE_ASSERT__VALIDATE_PRE_SDS, psx.BeforeAssertValidatePreSdsExecutor,
                                         'before_assert_phase', 'pre-sds'),
    '_assert__validate_pre_sds': (S.ASSERT__VALIDATE_PRE_SDS, psx.AssertValidatePreSdsExecutor, 'assert_phase',
                                  'pre-sds'),
    '_cleanup__validate_pre_sds': (S.CLEANUP__VALIDATE_PRE_SDS, psx.CleanupValidatePreSdsExecutor, 'cleanup_phase',
                                   'pre-sds'),
    '_setup__main': (S.SETUP__MAIN, psx.SetupMainExecutor, 'setup_phase', 'post-sds'),
    '_setup__validate_post_setup': (S.SETUP__VALIDATE_POST_SETUP, psx.SetupValidatePostSetupExecutor, 'setup_phase',
                                    'post-sds'),
    '_before_assert__validate_post_setup': (S.BEFORE_ASSERT__VALIDATE_POST_SETUP,
                                            psx.BeforeAssertValidatePostSetupExecutor, 'before_assert_phase', 'post-sds'),
    '_assert__validate_post_setup': (S.ASSERT__VALIDATE_POST_SETUP, psx.AssertValidatePostSetupExecutor,
                                     'assert_phase', 'post-sds'),
    '_before_assert__main': (S.BEFORE_ASSERT__MAIN, psx.BeforeAssertMainExecutor, 'before_assert_phase', 'post-sds'),
    '_assert__main': (S.ASSERT__MAIN, psx.AssertMainExecutor, 'assert_phase', 'post-sds'),
    '_cleanup_main': (S.CLEANUP__MAIN, psx.CleanupMainExecutor, 'cleanup_phase', 'post-sds'),
}


def run_steps(trace):
    """the phase steps run (events of run_instructions_phase_step), with their outcome events"""
    return [e for e in trace if e[0] in ('run-step', 'run-step:returned', 'run-step:raised')]


def runs_one_step(trace, step, executor_class, phase_contents):
    rs = run_steps(trace)
    return len(rs) == 2 and rs[0][0] == 'run-step' and rs[0][1]['step'] is step \
        and type(rs[0][1]['instruction_executor']) is executor_class and rs[0][1]['phase_contents'] is phase_contents


def _instruction_step_contract(method, step, executor_class, phase_attr, stage):
    params = dict(self=_mk_partial_executor(stage))
    if method == '_cleanup_main':
        params['previous_phase'] = EnumOf(PreviousPhase)
    same_step = lambda self, trace: \
        runs_one_step(trace, step, executor_class, getattr(self._test_case, phase_attr))
    ensures = {
        'runs exactly its phase step: constant, executor class, phase': same_step,
        'returns iff the phase step succeeded': lambda trace: run_steps(trace)[1][0] == 'run-step:returned',
        'keeps sandbox and outcome of the action to check': lambda self, old: keeps_result_state(self, old),
    }
    if method == '_cleanup_main':
        ensures['cleanup instructions are told the previous phase'] = lambda previous_phase, trace: \
            run_steps(trace)[0][1]['instruction_executor']._previous_phase is previous_phase
    M.contract('%s:_PartialExecutor.%s' % (P_EX, method), params=params, event=method,
               requires=lambda self: at_stage(self, stage),
               old=lambda self: result_state(self),
               ensures=ensures,
               raises={PhaseStepFailureException: {
                   'shape': Inst(PhaseStepFailureException,
                                 failure=instruction_failure_shape(step, [m for m in ExecutionFailureStatus
                                                                          if m.name in KINDS_OF_STEP[step]])),
                   'ensures': lambda self, exc, old, trace:
                   same_step(self, trace) and run_steps(trace)[1][0] == 'run-step:raised'
                   and exc is run_steps(trace)[1][2] and exc.failure.failure_info.phase_step is step
                   and exc.failure.status.name in KINDS_OF_STEP[step]
                   and keeps_result_state(self, old)}},
               raises_only=())


for _m, (_step, _cls, _attr, _stage) in INSTRUCTION_STEPS.items():
    _instruction_step_contract(_m, _step, _cls, _attr, _stage)


# ----- steps of the action to check

def _mk_psfe(interp, o):
    """a PhaseStepFailureException that an action raises itself (the closures of ActionToCheckExecutor do)"""
    return Inst(PhaseStepFailureException,
                failure=Inst(PhaseStepFailure, _PhaseStepFailure__status=EnumOf(ExecutionFailureStatus),
                             _PhaseStepFailure__failure_info=Any_)).make(interp, 'action.psfe')


class ActionI(Interface):
    methods = {'__call__': Method(returns=Any_, may_raise=(_mk_psfe,) + RAISES, event='action')}


FAILURE_CON = Inst(pse.PhaseStepFailureResultConstructor, _step=Any_, _actor_name=Str, _phase_source=Str)


def outcome_event(trace, name):
    """(kind, payload) of the single call of the opaque method with event `name`: ('returned', value) / ('raised', exc)"""
    e = [e for e in trace if e[0] in (name + ':returned', name + ':raised')][0]
    return e[0][len(name) + 1:], e[2]


M.contract(P_PSE + ':execute_action_and_catch_internal_error_exception',
           params=dict(action_that_raises_phase_step_or_hard_error_exception=Iface(ActionI), failure_con=FAILURE_CON),
           inline=True,
           ensures={
               'returns what the action returned': lambda result, trace:
               outcome_event(trace, 'action') == ('returned', result),
           },
           raises={PhaseStepFailureException: {'ensures': lambda exc, failure_con, trace:
           outcome_event(trace, 'action')[0] == 'raised' and (
               exc is outcome_event(trace, 'action')[1]
               if isinstance(outcome_event(trace, 'action')[1], PhaseStepFailureException) else
               (exc.failure.status.name == kind_of_raised(outcome_event(trace, 'action')[1])
                and exc.failure.failure_info.phase_step is failure_con._step))}},
           raises_only=())

_HARD_ERROR = Custom(lambda interp, name: _mk_hard_error(interp, None))
for _name, _status, _ex in (('hard_error', ExecutionFailureStatus.HARD_ERROR, _HARD_ERROR),
                            ('internal_error', ExecutionFailureStatus.INTERNAL_ERROR, Const(ArbitraryException())),
                            ('internal_error_msg', ExecutionFailureStatus.INTERNAL_ERROR, None)):
    M.contract('%s:PhaseStepFailureResultConstructor.%s' % (P_PSE, _name),
               params=dict(self=FAILURE_CON, ex=_ex, message=Opt(Str), msg=Str),
               ghosts=dict(status=Const(_status)), inline=True,
               ensures={'status and step': lambda self, status, result:
               result.status is status and result.failure_info.phase_step is self._step},
               raises_only=())

M.contract(P_PSE + ':PhaseStepFailureResultConstructor.apply',
           params=dict(self=FAILURE_CON, status=EnumOf(ExecutionFailureStatus), failure_details=Any_), inline=True,
           ensures={'status and step': lambda self, status, result:
           result.status is status and result.failure_info.phase_step is self._step
           and isinstance(result.failure_info, ActPhaseFailureInfo)},
           raises_only=())

M.contract(P_AH + ':ActHelper.failure_constructor',
           params=dict(self=Custom(lambda interp, name: _mk_act_helper(interp, name, Str.make(interp, name + '.actor'),
                                                                        PHASE.make(interp, name + '.act'))),
                       step=Any_), inline=True,
           ensures={'constructor of failures of the step': lambda step, result:
           type(result) is pse.PhaseStepFailureResultConstructor and result._step is step},
           raises_only=())

# owned by C04 (stand-ins; see notes/C01.md): the parts of the executor that touch the file system
M.contract(P_EX + ':_PartialExecutor._env_vars__read_only', trusted=True,
           params=dict(self=_mk_partial_executor('pre-sds')), returns=Opt(Any_))
M.contract(P_AX + ':ActionToCheckExecutor._do_execute', trusted=True,
           params=dict(self=ATC_EXECUTOR), returns=EH, event='atc-execute',
           modifies={'self._atc_outcome': Opt(ATC_OUTCOME)},
           ensures={'an exit code is registered as outcome': lambda self, result:
           (not result.is_exit_code) or self._atc_outcome is not None},
           raises={HardErrorException: {'shape': _HARD_ERROR}, ArbitraryException: {}})
M.trust('stand-ins for contracts owned by C04: _PartialExecutor._env_vars__read_only returns a mapping or None; '
        'ActionToCheckExecutor._do_execute returns an ExitCodeOrHardError, has registered the outcome when it is an '
        'exit code, and may raise HardErrorException or any other exception (from the ATC or from file operations)')

# (atc method, its event, result kind, stage of the executor, object the method is called on)
ATC_STEPS = {
    '_act__validate_pre_sds': (S.ACT__VALIDATE_PRE_SDS, 'atc.validate_pre_sds', svh_kind, 'pre-sds'),
    '_act__validate_post_setup': (S.ACT__VALIDATE_POST_SETUP, 'atc.validate_post_setup', svh_kind, 'act'),
    '_act__validate_act_execution_input': (S.ACT__VALIDATE_EXE_INPUT, 'atc_input.validate',
                                           lambda r: None if r is None else 'HARD_ERROR', 'act'),
    '_act__prepare': (S.ACT__PREPARE, 'atc.prepare', sh_kind, 'act'),
}


def calls_of(trace, name):
    return [e for e in trace if e[0] == name]


def the_atc_of(self, method):
    if method == '_act__validate_pre_sds':
        return self._action_to_check
    if method == '_act__validate_act_execution_input':
        return self._act_phase_executor.atc_input
    return self._act_phase_executor.atc


def failure_kind_of_call(trace, event, kind_of_result):
    """None if the call succeeded, else the name of the status the property wants reported"""
    kind, payload = outcome_event(trace, event)
    return kind_of_result(payload) if kind == 'returned' else kind_of_raised(payload)


def _atc_step_contract(method, step, event, kind_of_result, stage):
    M.contract('%s:_PartialExecutor.%s' % (P_EX, method), params=dict(self=_mk_partial_executor(stage)),
               requires=lambda self: at_stage(self, stage),
               event=method, old=lambda self: result_state(self),
               ensures={
                   'calls the method of the action to check once; it succeeded': lambda self, trace:
                   len(calls_of(trace, event)) == 1 and calls_of(trace, event)[0][1] is the_atc_of(self, method)
                   and failure_kind_of_call(trace, event, kind_of_result) is None,
                   'keeps sandbox and outcome of the action to check': lambda self, old: keeps_result_state(self, old),
               },
               raises={PhaseStepFailureException: {
                   'shape': Inst(PhaseStepFailureException, failure=act_failure_shape(step)),
                   'ensures': lambda self, exc, old, trace:
                   len(calls_of(trace, event)) == 1 and calls_of(trace, event)[0][1] is the_atc_of(self, method)
                   and exc.failure.status.name == failure_kind_of_call(trace, event, kind_of_result)
                   and exc.failure.status.name in KINDS_OF_STEP[step]
                   and exc.failure.failure_info.phase_step is step
                   and keeps_result_state(self, old)}},
               raises_only=())


for _m, (_step, _event, _kind, _stage) in ATC_STEPS.items():
    _atc_step_contract(_m, _step, _event, _kind, _stage)

M.contract(P_EX + ':_PartialExecutor._act__execute', params=dict(self=_mk_partial_executor('act')),
           requires=lambda self: at_stage(self, 'act'),
           event='_act__execute', old=lambda self: result_state(self), returns=Const(None),
           modifies={'self._act_phase_executor._atc_outcome': Opt(ATC_OUTCOME)},
           ensures={
               'executes the action to check once; it gave an exit code': lambda self, trace:
               len(calls_of(trace, 'atc-execute')) == 1
               and calls_of(trace, 'atc-execute')[0][1]['self'] is self._act_phase_executor
               and eh_kind(outcome_event(trace, 'atc-execute')[1]) is None,
               'the outcome of the action to check is registered': lambda self:
               self._act_phase_executor.action_to_check_outcome is not None,
               'keeps sandbox and outcome of the action to check': lambda self, old: keeps_result_state(self, old),
           },
           raises={PhaseStepFailureException: {
               'shape': Inst(PhaseStepFailureException, failure=act_failure_shape(S.ACT__EXECUTE)),
               'ensures': lambda self, exc, old, trace:
               len(calls_of(trace, 'atc-execute')) == 1
               and exc.failure.status.name == failure_kind_of_call(trace, 'atc-execute', eh_kind)
               and exc.failure.status.name in KINDS_OF_STEP[S.ACT__EXECUTE]
               and exc.failure.failure_info.phase_step is S.ACT__EXECUTE
               and keeps_result_state(self, old)}},
           raises_only=())


def _new_atc_executor(interp, name, env):
    self = env['self']
    return Inst(pax.ActionToCheckExecutor,
                atc=self._action_to_check, environment_for_validate_post_setup=Iface(PostSdsEnvI),
                environment_for_other_steps=Iface(PostSdsEnvI), os_services=self._os_services, tcds=Any_,
                atc_input=Iface(AtcInputI), exe_atc_and_skip_assertions=self.exe_conf[3],
                _atc_outcome=None).make(interp, name)


M.contract(P_EX + ':_PartialExecutor._construct_and_set_act_phase_executor',
           params=dict(self=_mk_partial_executor('post-sds')), old=lambda self: result_state(self),
           requires=lambda self: at_stage(self, 'post-sds'),
           modifies={'self._act_phase_executor': Dependent(_new_atc_executor)},
           ensures={
               'a fresh executor of the parsed action to check, without outcome': lambda self:
               type(self._act_phase_executor) is pax.ActionToCheckExecutor
               and self._act_phase_executor.atc is self._action_to_check
               and self._act_phase_executor.action_to_check_outcome is None
               and self._act_phase_executor.exe_atc_and_skip_assertions is self.exe_conf.exe_atc_and_skip_assertions,
               'no step is run': lambda trace: trace == [],
               'keeps sandbox and outcome of the action to check': lambda self, old: keeps_result_state(self, old),
           },
           raises_only=())

M.contract(P_EX + ':_PartialExecutor._setup_pre_sds_environment',
           params=dict(self=_mk_partial_executor('initial'), atc=Iface(AtcI), symbols=Iface(SymbolTableI)),
           old=lambda self: result_state(self),
           modifies={'self._action_to_check': Dependent(lambda interp, name, env: env['atc']),
                     'self._instruction_environment_pre_sds': Iface(PreSdsEnvI)},
           ensures={
               'stores the parsed action to check': lambda self, atc: self._action_to_check is atc,
               'no step is run': lambda trace: trace == [],
               'keeps sandbox and outcome of the action to check': lambda self, old: keeps_result_state(self, old),
           },
           raises_only=())

# owned by C04 (stand-in): construction of the sandbox; the only thing C01 needs is the event and that a sandbox
# exists afterwards.  OSError: the file system may refuse.
M.contract(P_EX + ':_PartialExecutor._setup_post_sds_environment', trusted=True,
           params=dict(self=_mk_partial_executor('pre-sds')), event=SDS,
           requires=lambda self: at_stage(self, 'pre-sds'),
           modifies={'self._PartialExecutor__sandbox_directory_structure': Iface(SdsI),
                     'self._phase_tmp_space_factory': Iface(TmpSpaceFactoryI),
                     'self._PartialExecutor__post_sds_symbol_table': Iface(SymbolTableI)},
           may_raise=(OSError,))
M.trust('stand-in for the contract owned by C04: _setup_post_sds_environment creates the sandbox (event SDS), sets '
        'the sandbox, the tmp-space factory and the post-sds symbol table, or raises OSError')

# ----- act parse and symbol validation

ACT_HELPER = Custom(lambda interp, name: _mk_act_helper(interp, name, Str.make(interp, name + '.actor'),
                                                        PHASE.make(interp, name + '.act')))

M.contract(P_AH + ':ActHelper.parse', params=dict(self=ACT_HELPER, actor=Iface(ActorI)),
           event='act-parse', returns=Iface(AtcI),
           ensures={'the action to check is what the actor parsed from the instructions of [act]':
                    lambda self, actor, result, trace:
                    calls_of(trace, 'actor.parse') == [('actor.parse', actor, (self.instructions,))]
                    and outcome_event(trace, 'actor.parse') == ('returned', result)},
           raises={PhaseStepFailureException: {
               'shape': Inst(PhaseStepFailureException, failure=act_failure_shape(S.ACT__PARSE)),
               'ensures': lambda exc, actor, trace:
               len(calls_of(trace, 'actor.parse')) == 1 and outcome_event(trace, 'actor.parse')[0] == 'raised'
               and exc.failure.status.name == ('SYNTAX_ERROR' if isinstance(outcome_event(trace, 'actor.parse')[1],
                                                                            ParseException)
                                               else kind_of_raised(outcome_event(trace, 'actor.parse')[1]))
               and exc.failure.status.name in KINDS_OF_STEP[S.ACT__PARSE]
               and exc.failure.failure_info.phase_step is S.ACT__PARSE}},
           raises_only=())

# owned by C08 (stand-in): checking the symbol usages of one instruction against the symbol table
M.contract('exactly_lib.execution.impl.symbol_validation:validate_symbol_usages', trusted=True,
           params=dict(symbol_usages=Any_, symbols=Iface(SymbolTableI)),
           returns=Opt(Inst(PartialInstructionControlledFailureInfo,
                            _tuple=[Const(PartialControlledFailureEnum.VALIDATION_ERROR), Any_])),
           event='validate_symbol_usages')
M.trust('stand-in for the contract owned by C08: validate_symbol_usages returns None or a VALIDATION_ERROR failure info '
        'and does not raise')
REPORTS[psv.ValidateSymbolsExecutor] = ('VALIDATION_ERROR',)


def _mk_symbols_validator(interp, name):
    from pyvc.interp import BoundMethod
    v = object.__new__(psv.SymbolsValidator)
    v._symbols = Iface(SymbolTableI).make(interp, name + '._symbols')
    v._test_case = TEST_CASE.make(interp, name + '._test_case')
    v._action_to_check = Iface(AtcI).make(interp, name + '._action_to_check')
    helper = _mk_act_helper(interp, name + '.act_helper', Str.make(interp, name + '.actor'), v._test_case.act_phase)
    v._mk_atc_failure_con = BoundMethod(pah.ActHelper.__dict__['failure_constructor'], helper, pah.ActHelper)
    x = object.__new__(psv.ValidateSymbolsExecutor)
    x._ValidateSymbolsExecutor__symbols = v._symbols
    v._validation_executor = x
    return v


SYMBOLS_VALIDATOR = Custom(_mk_symbols_validator)

M.contract(P_SV + ':SymbolsValidator._validate_atc', params=dict(self=SYMBOLS_VALIDATOR), event='_validate_atc',
           ensures={'the symbol usages of the action to check are valid': lambda self, trace:
           calls_of(trace, 'atc.symbol_usages') == [('atc.symbol_usages', self._action_to_check, ())]
           and len(calls_of(trace, 'validate_symbol_usages')) == 1
           and calls_of(trace, 'validate_symbol_usages')[0][1]['symbols'] is self._symbols
           and outcome_event(trace, 'validate_symbol_usages')[1] is None},
           raises={PhaseStepFailureException: {
               'shape': Inst(PhaseStepFailureException, failure=act_failure_shape(S.ACT__VALIDATE_SYMBOLS)),
               'ensures': lambda self, exc, trace:
               calls_of(trace, 'atc.symbol_usages') == [('atc.symbol_usages', self._action_to_check, ())]
               and exc.failure.failure_info.phase_step is S.ACT__VALIDATE_SYMBOLS
               and exc.failure.status.name in KINDS_OF_STEP[S.ACT__VALIDATE_SYMBOLS]
               and exc.failure.status.name == (
                   kind_of_raised(outcome_event(trace, 'atc.symbol_usages')[1])
                   if outcome_event(trace, 'atc.symbol_usages')[0] == 'raised'
                   else outcome_event(trace, 'validate_symbol_usages')[1].status.name)}},
           raises_only=())


def step_events(trace):
    """events of the steps: starts only"""
    return [e for e in trace if e[0] in STEP_OF_EVENT or e[0] == 'run-step']


M.contract(P_SV + ':SymbolsValidator.validate', params=dict(self=SYMBOLS_VALIDATOR), inline=True,
           ensures={'all five phases, in order, with the one table of symbols': lambda self, trace:
           [(step_of(e), e[1].get('phase_contents'), e[1].get('instruction_executor')) for e in step_events(trace)] == [
               (S.SETUP__VALIDATE_SYMBOLS, self._test_case.setup_phase, self._validation_executor),
               (S.ACT__VALIDATE_SYMBOLS, None, None),
               (S.BEFORE_ASSERT__VALIDATE_SYMBOLS, self._test_case.before_assert_phase, self._validation_executor),
               (S.ASSERT__VALIDATE_SYMBOLS, self._test_case.assert_phase, self._validation_executor),
               (S.CLEANUP__VALIDATE_SYMBOLS, self._test_case.cleanup_phase, self._validation_executor)]},
           raises={PhaseStepFailureException: {'ensures': lambda self, exc, trace:
           exc is trace[-1][2] and step_of(step_events(trace)[-1]) is exc.failure.failure_info.phase_step}},
           raises_only=())

# ----- events -> steps

STEP_OF_EVENT = {'act-parse': S.ACT__PARSE, '_validate_atc': S.ACT__VALIDATE_SYMBOLS, SDS: SDS,
                 '_act__execute': S.ACT__EXECUTE}
STEP_OF_EVENT.update({m: v[0] for m, v in INSTRUCTION_STEPS.items()})
STEP_OF_EVENT.update({m: v[0] for m, v in ATC_STEPS.items()})


def step_of(e):
    return e[1]['step'] if e[0] == 'run-step' else STEP_OF_EVENT[e[0]]


# ====================================================================================== layer 4: the protocol

def steps_of(trace):
    """The steps of an execution in order: (step, start event, 'returned' / 'raised', payload of the outcome).
    (The outcome event of a step follows its start event immediately: steps do not nest.)"""
    out = []
    for i, e in enumerate(trace):
        if e[0] in STEP_OF_EVENT or e[0] == 'run-step':
            o = trace[i + 1]
            out.append((step_of(e), e, o[0][len(e[0]) + 1:], o[2]))
    return out


def is_cleanup(s):
    return s[0] is S.CLEANUP__MAIN


def failed(s):
    return s[2] == 'raised'


def forward(steps):
    """the steps that make forward progress (everything but cleanup/main)"""
    return [s for s in steps if not is_cleanup(s)]


def sandbox_exists(steps):
    return any(s[0] == SDS and not failed(s) for s in steps)


def in_documented_order(steps):
    names = [s[0] for s in forward(steps)]
    return names == CANONICAL[:len(names)]


def halts_at_first_failure(steps):
    return all(not failed(s) for s in forward(steps)[:-1])


def runs_to_the_end_unless_a_step_fails(steps, skip_assertions):
    fw = forward(steps)
    return failed(fw[-1]) or [s[0] for s in fw] == (UP_TO_ACT_EXECUTE if skip_assertions else CANONICAL)


def phase_that_ran_last(steps):
    last = forward(steps)[-1][0]
    if last is S.ASSERT__MAIN:
        return PreviousPhase.ASSERT
    if last is S.BEFORE_ASSERT__MAIN:
        return PreviousPhase.BEFORE_ASSERT
    if last is S.ACT__EXECUTE:
        return PreviousPhase.ACT
    return PreviousPhase.SETUP      # setup/main, post-setup validation, preparation of the action to check


def cleanup_exactly_once_iff_sandbox(steps):
    cs = [s for s in steps if is_cleanup(s)]
    if not sandbox_exists(steps):
        return cs == []
    return len(cs) == 1 and steps[-1] is cs[0] and cs[0][1][1]['previous_phase'] is phase_that_ran_last(steps)


def phase_step_failures(steps):
    return [s for s in steps if failed(s) and s[0] != SDS]


def reports(result, s):
    """the result carries the failure of step s: its status, its failure info (which names the step)"""
    f = s[3].failure
    return result.status is f.status and result.failure_info is f.failure_info \
        and result.failure_info.phase_step is s[0]


def outcome_is_earliest_failure_or_cleanup_failure(result, steps):
    fs = phase_step_failures(steps)
    if not fs:
        return result.status is None and result.failure_info is None
    return result.status is not None and (reports(result, fs[0]) or (is_cleanup(fs[-1]) and reports(result, fs[-1])))


def act_execute_of(steps):
    return [s for s in steps if s[0] is S.ACT__EXECUTE]


def atc_outcome_iff_executed(result, steps):
    ae = act_execute_of(steps)
    if not ae:
        return result.action_to_check_outcome is None
    return failed(ae[0]) or result.action_to_check_outcome is not None


def failure_is_of_the_kind_of_its_step(result):
    return result.status is None or result.status.name in KINDS_OF_STEP[result.failure_info.phase_step]


def complete_execution_has_atc_outcome(result):
    """success or assertion failure (the verdicts PASS, FAIL, XPASS, XFAIL of C02): the action to check was executed"""
    return not (result.status is None or result.status is ExecutionFailureStatus.FAIL) \
        or result.action_to_check_outcome is not None


BEFORE_THE_SANDBOX = CANONICAL[:CANONICAL.index(SDS)]    # act parse, symbol validation and pre-sds validation


def invalid_case_has_no_effects(result, steps):
    """(C03) If act parse or the validation of symbols / pre-sds validation of any phase -- up to the last
    instruction of [cleanup] -- fails: only steps of that kind have run (no sandbox, no main or post-setup step
    of any phase, nothing of the action to check beyond parse and validation) and the outcome is that failure."""
    last = forward(steps)[-1]
    if not (failed(last) and any(last[0] is v for v in BEFORE_THE_SANDBOX)):
        return True
    return all(any(s[0] is v for v in BEFORE_THE_SANDBOX) for s in steps) \
        and not result.has_sds and result.action_to_check_outcome is None and reports(result, last)


PROTOCOL = {
    'order: steps run in the documented order (all validation before the sandbox and any main step)':
        lambda trace: in_documented_order(steps_of(trace)),
    'halt: no forward step after one that did not succeed':
        lambda trace: halts_at_first_failure(steps_of(trace)),
    'progress: every step runs unless an earlier one fails':
        lambda self, trace: runs_to_the_end_unless_a_step_fails(steps_of(trace),
                                                                self.exe_conf.exe_atc_and_skip_assertions is not None),
    'cleanup: exactly once iff the sandbox exists, as the last step, told the phase that ran last':
        lambda trace: cleanup_exactly_once_iff_sandbox(steps_of(trace)),
    'outcome: success iff no step failed, else the earliest failure or the failure of cleanup':
        lambda result, trace: outcome_is_earliest_failure_or_cleanup_failure(result, steps_of(trace)),
    'outcome: has the sandbox iff it was created': lambda self, result, trace:
    result.sds is self._sds and result.has_sds == sandbox_exists(steps_of(trace)),
    'outcome: has the outcome of the action to check if it was executed, none if execution was not reached':
        lambda result, trace: atc_outcome_iff_executed(result, steps_of(trace)),
    "outcome: the kind of failure is one of the named step's kinds (FAIL only from assert/main)":
        lambda result: failure_is_of_the_kind_of_its_step(result),
    'outcome: success and assertion failure come with the outcome of the action to check':
        lambda result: complete_execution_has_atc_outcome(result),
    'invalid case (C03): a failing parse / validation step before the sandbox means nothing else has run':
        lambda result, trace: invalid_case_has_no_effects(result, steps_of(trace)),
}

M.contract(P_EX + ':_PartialExecutor.execute', params=dict(self=_mk_partial_executor('initial')), inline=True,
           ensures=PROTOCOL,
           raises={OSError: {'ensures': lambda trace:
           in_documented_order(steps_of(trace)) and halts_at_first_failure(steps_of(trace))
           and steps_of(trace)[-1][0] == SDS and failed(steps_of(trace)[-1])}},
           raises_only=())

M.contract(P_EX + ':parse_atc_and_validate_symbols',
           params=dict(actor=Inst(NameAndValue, _tuple=[Str, Iface(ActorI)]), predefined_symbols=Iface(SymbolTableI),
                       test_case=TEST_CASE), inline=True,
           ensures={'act parse, then symbol validation of all phases': lambda trace, test_case:
           [s[0] for s in steps_of(trace)] == CANONICAL[:6] and not any(failed(s) for s in steps_of(trace)),
                    'gives the parsed action to check': lambda result, trace:
                    result[0] is steps_of(trace)[0][3]},
           raises={PhaseStepFailureException: {'ensures': lambda exc, trace:
           in_documented_order(steps_of(trace)) and halts_at_first_failure(steps_of(trace))
           and failed(steps_of(trace)[-1]) and exc is steps_of(trace)[-1][3]}},
           raises_only=())


# ====================================================================================== layer 2: the executor classes

def _instruction_iface(main_returns):
    class I(Interface):
        """An instruction of one phase: every step returns a value of its result type, raises
        HardErrorException or raises anything else."""
        target_class = TestCaseInstruction
        methods = {
            'validate_pre_sds': Method(returns=SVH, may_raise=RAISES, event='instruction.validate_pre_sds'),
            'validate_post_setup': Method(returns=SVH, may_raise=RAISES, event='instruction.validate_post_setup'),
            'main': Method(returns=main_returns, may_raise=RAISES, event='instruction.main'),
            'symbol_usages': Method(returns=Any_, may_raise=RAISES, event='instruction.symbol_usages'),
        }

    return I


CONF_I, SETUP_I, BEFORE_ASSERT_I, ASSERT_I, CLEANUP_I = (_instruction_iface(t) for t in (SVH, SH, SH, PFH, SH))


class EnvIterI(Interface):
    """the iterator of per-instruction environments (one fresh environment per instruction)"""
    methods = {'__next__': Method(returns=Any_, event='next-env')}


def _env_of_trace(trace):
    return [e for e in trace if e[0] == 'next-env:returned'][0][2]


_PRE = dict(_instruction_environment=Any_)
_POST = dict(_instruction_environments=Iface(EnvIterI))
_MAIN = dict(_instruction_environments=Iface(EnvIterI), _instruction_settings=Any_, _os_services=Any_)

# class -> (fields, instruction interface, method, kind of its result, the arguments it must be called with)
EXECUTORS = {
    psx.ConfigurationMainExecutor: (dict(_phase_environment=Any_), CONF_I, 'main', svh_kind,
                                    lambda self, trace: (self._phase_environment,)),
    psx.SetupValidatePreSdsExecutor: (_PRE, SETUP_I, 'validate_pre_sds', svh_kind,
                                      lambda self, trace: (self._instruction_environment,)),
    psx.BeforeAssertValidatePreSdsExecutor: (_PRE, BEFORE_ASSERT_I, 'validate_pre_sds', svh_kind,
                                             lambda self, trace: (self._instruction_environment,)),
    psx.AssertValidatePreSdsExecutor: (_PRE, ASSERT_I, 'validate_pre_sds', svh_kind,
                                       lambda self, trace: (self._instruction_environment,)),
    psx.CleanupValidatePreSdsExecutor: (_PRE, CLEANUP_I, 'validate_pre_sds', svh_kind,
                                        lambda self, trace: (self._instruction_environment,)),
    psx.SetupValidatePostSetupExecutor: (_POST, SETUP_I, 'validate_post_setup', svh_kind,
                                         lambda self, trace: (_env_of_trace(trace),)),
    psx.BeforeAssertValidatePostSetupExecutor: (_POST, BEFORE_ASSERT_I, 'validate_post_setup', svh_kind,
                                                lambda self, trace: (_env_of_trace(trace),)),
    psx.AssertValidatePostSetupExecutor: (_POST, ASSERT_I, 'validate_post_setup', svh_kind,
                                          lambda self, trace: (_env_of_trace(trace),)),
    psx.SetupMainExecutor: (dict(_settings_builder=Any_, **_MAIN), SETUP_I, 'main', sh_kind,
                            lambda self, trace: (_env_of_trace(trace), self._instruction_settings, self._os_services,
                                                 self._settings_builder)),
    psx.BeforeAssertMainExecutor: (_MAIN, BEFORE_ASSERT_I, 'main', sh_kind,
                                   lambda self, trace: (_env_of_trace(trace), self._instruction_settings,
                                                        self._os_services)),
    psx.AssertMainExecutor: (_MAIN, ASSERT_I, 'main', pfh_kind,
                             lambda self, trace: (_env_of_trace(trace), self._instruction_settings,
                                                  self._os_services)),
    psx.CleanupMainExecutor: (dict(_previous_phase=EnumOf(PreviousPhase), **_MAIN), CLEANUP_I, 'main', sh_kind,
                              lambda self, trace: (_env_of_trace(trace), self._instruction_settings,
                                                   self._os_services, self._previous_phase)),
}


def _executor_contract(cls, fields, iface, method, kind_of_result, expected_args):
    event = 'instruction.' + method
    instruction_events = ['instruction.' + m for m in iface.methods]

    def calls_exactly(self, instruction, trace):
        """one call of one method of the instruction -- the step's -- with the arguments the executor holds;
        the environment is a fresh one from the executor's iterator where the step gets one per instruction"""
        return [e for e in trace if e[0] in instruction_events] == [(event, instruction, expected_args(self, trace))] \
            and len(calls_of(trace, 'next-env')) == (1 if '_instruction_environments' in fields else 0)

    M.contract('%s:%s.apply' % (P_PSX, cls.__name__),
               params=dict(self=Inst(cls, **fields), instruction=Iface(iface)), returns=Opt(FAIL_INFO),
               ensures={
                   "calls the step's method of the instruction, once, with the executor's arguments":
                       lambda self, instruction, trace: calls_exactly(self, instruction, trace),
                   'None iff the instruction succeeded, else the kind of its failure': lambda result, trace:
                   (result is None and kind_of_result(outcome_event(trace, event)[1]) is None)
                   or (result is not None and result.status.name == kind_of_result(outcome_event(trace, event)[1])),
                   'reports only the kinds listed for the class': lambda result:
                   result is None or result.status.name in REPORTS[cls],
               },
               raises={HardErrorException: {'ensures': lambda self, instruction, exc, trace:
               calls_exactly(self, instruction, trace) and outcome_event(trace, event) == ('raised', exc)},
                       ArbitraryException: {'ensures': lambda self, instruction, exc, trace:
                       calls_exactly(self, instruction, trace) and outcome_event(trace, event) == ('raised', exc)}},
               raises_only=())


for _cls, _spec in EXECUTORS.items():
    _executor_contract(_cls, *_spec)

for _f, _shape, _kind in (('_from_success_or_validation_error_or_hard_error', SVH, svh_kind),
                          ('_from_success_or_hard_error', SH, sh_kind),
                          ('_from_pass_or_fail_or_hard_error', PFH, pfh_kind)):
    M.contract('%s:%s' % (P_PSX, _f), params=dict(res=_shape), ghosts=dict(kind=Const(_kind)), inline=True,
               ensures={'None iff success, else the kind of failure': lambda res, kind, result:
               (result is None and kind(res) is None) or (result is not None and result.status.name == kind(res)),
                        'carries the message': lambda res, result: result is None or result.error_message is res[-1]},
               raises_only=())

M.contract(P_SV + ':ValidateSymbolsExecutor.apply',
           params=dict(self=Inst(psv.ValidateSymbolsExecutor, _ValidateSymbolsExecutor__symbols=Iface(SymbolTableI)),
                       symbol_user=Iface(SETUP_I)), returns=Opt(FAIL_INFO), inline=True,
           ensures={'checks the symbol usages of the instruction against the one table': lambda self, symbol_user, trace:
           calls_of(trace, 'instruction.symbol_usages') == [('instruction.symbol_usages', symbol_user, ())]
           and len(calls_of(trace, 'validate_symbol_usages')) == 1
           and calls_of(trace, 'validate_symbol_usages')[0][1]['symbols'] is self._ValidateSymbolsExecutor__symbols
           and calls_of(trace, 'validate_symbol_usages')[0][1]['symbol_usages']
           is outcome_event(trace, 'instruction.symbol_usages')[1],
                    'gives its verdict': lambda result, trace: result is outcome_event(trace, 'validate_symbol_usages')[1]},
           raises={HardErrorException: {}, ArbitraryException: {}},
           raises_only=())


# ====================================================================================== helpers of the protocol

M.contract(P_EX + ':_PartialExecutor._final_failure_result_from',
           params=dict(self=_mk_partial_executor('post-sds'), failure=instruction_failure_shape(S.SETUP__MAIN)),
           inline=True,
           ensures={'the failure, the sandbox, the outcome of the action to check': lambda self, failure, result:
           type(result) is PartialExeResult and result.status is failure.status
           and result.failure_info is failure.failure_info and result.sds is self._sds
           and result.action_to_check_outcome is self._action_to_check_outcome},
           raises_only=())

M.contract(P_EX + ':_PartialExecutor._final_pass_result', params=dict(self=_mk_partial_executor('post-sds')),
           inline=True,
           ensures={'success, the sandbox, the outcome of the action to check': lambda self, result:
           type(result) is PartialExeResult and result.status is None and result.failure_info is None
           and result.sds is self._sds and result.action_to_check_outcome is self._action_to_check_outcome},
           raises_only=())


class StepActionI(Interface):
    """a step method as `_sequence_with_cleanup` sees it: returns, or raises PhaseStepFailureException
    (nothing else: `raises_only` of every step method)"""
    methods = {'__call__': Method(returns=Any_, may_raise=(_mk_psfe,), event='action')}


def _action_events(trace):
    return [e for e in trace if e[0] in ('action', '_cleanup_main')]


def _raised(trace):
    return [e for e in trace if e[0].endswith(':raised')]


M.contract(P_EX + ':_PartialExecutor._sequence_with_cleanup',
           params=dict(self=_mk_partial_executor('post-sds'), previous_phase=EnumOf(PreviousPhase),
                       actions=FixedList(Iface(StepActionI), Iface(StepActionI), Iface(StepActionI))), inline=True,
           ensures={'all actions, in order, no cleanup': lambda actions, trace:
           [(e[0], e[1]) for e in _action_events(trace)] == [('action', a) for a in actions] and _raised(trace) == []},
           raises={PhaseStepFailureException: {'ensures': lambda self, previous_phase, actions, exc, trace:
           # the actions in order up to the first that fails, then cleanup (told the previous phase), nothing else
           [e[1] for e in _action_events(trace)[:-1]] == actions[:len(_action_events(trace)) - 1]
           and _action_events(trace)[-1][0] == '_cleanup_main'
           and _action_events(trace)[-1][1]['previous_phase'] is previous_phase
           and _raised(trace)[0][0] == 'action:raised'
           and _raised(trace)[0] is [e for e in trace if e[0].startswith('action:')][-1]
           # the failure of the action, unless cleanup fails
           and exc is _raised(trace)[-1][2]}},
           raises_only=())

M.contract(P_EX + ':_PartialExecutor._finish_with_cleanup_phase',
           params=dict(self=_mk_partial_executor('act'), previous_phase=EnumOf(PreviousPhase),
                       failure_from_previous_step=Opt(instruction_failure_shape(S.ASSERT__MAIN))), inline=True,
           ensures={
               'cleanup exactly once, told the previous phase': lambda previous_phase, trace:
               len(calls_of(trace, '_cleanup_main')) == 1
               and calls_of(trace, '_cleanup_main')[0][1]['previous_phase'] is previous_phase
               and len(trace) == 2,
               'failure of cleanup, else the given failure, else success':
                   lambda self, failure_from_previous_step, result, trace:
                   (result.status is trace[1][2].failure.status and result.failure_info is trace[1][2].failure.failure_info)
                   if trace[1][0] == '_cleanup_main:raised' else
                   ((result.status is None and result.failure_info is None) if failure_from_previous_step is None else
                    (result.status is failure_from_previous_step.status
                     and result.failure_info is failure_from_previous_step.failure_info)),
           },
           raises_only=())

M.contract(P_EX + ':_PartialExecutor._continue_from_before_assert', params=dict(self=_mk_partial_executor('act')),
           inline=True,
           ensures={
               'before-assert, assert unless that failed, cleanup told the phase that ran last': lambda trace:
               [(s[0], s[1][1].get('previous_phase')) for s in steps_of(trace)] in (
                   [(S.BEFORE_ASSERT__MAIN, None), (S.CLEANUP__MAIN, PreviousPhase.BEFORE_ASSERT)],
                   [(S.BEFORE_ASSERT__MAIN, None), (S.ASSERT__MAIN, None), (S.CLEANUP__MAIN, PreviousPhase.ASSERT)])
               and halts_at_first_failure(steps_of(trace))
               and (failed(steps_of(trace)[0]) or len(steps_of(trace)) == 3),
               'outcome: success iff no step failed, else the earliest failure or the failure of cleanup':
                   lambda result, trace: outcome_is_earliest_failure_or_cleanup_failure(result, steps_of(trace)),
           },
           raises_only=())



class EnvironI(Interface):
    """the mapping of environment variables: only copied (dict(environ))"""
    methods = {'__dict_copy__': Method(returns=Any_)}


class MkSettingsHandlerI(Interface):
    methods = {'__call__': Method(returns=Iface(SettingsHandlerI))}


def _mk_configuration(interp, name):
    exe_conf = Inst(ExecutionConfiguration,
                    _tuple=[Opt(Iface(EnvironI)), Any_, Iface(SymbolTableI), Opt(Any_), Any_, Int, Any_,
                            Opt(Int)]).make(interp, name + '.exe_conf')
    return pex.Configuration(exe_conf, CONF_VALUES.make(interp, name + '.conf_values'),
                             Iface(MkSettingsHandlerI).make(interp, name + '.mk_setup_settings_handler'))


# the entry point of partial execution: a fresh _PartialExecutor (its __init__ is interpreted) and `execute`
M.contract(P_EX + ':execute',
           params=dict(configuration=Custom(_mk_configuration), test_case=TEST_CASE), inline=True,
           ensures={
               'order: steps run in the documented order (all validation before the sandbox and any main step)':
                   lambda trace: in_documented_order(steps_of(trace)),
               'halt: no forward step after one that did not succeed':
                   lambda trace: halts_at_first_failure(steps_of(trace)),
               'progress: every step runs unless an earlier one fails': lambda configuration, trace:
               runs_to_the_end_unless_a_step_fails(steps_of(trace),
                                                   configuration.exe_conf.exe_atc_and_skip_assertions is not None),
               'cleanup: exactly once iff the sandbox exists, as the last step, told the phase that ran last':
                   lambda trace: cleanup_exactly_once_iff_sandbox(steps_of(trace)),
               'outcome: success iff no step failed, else the earliest failure or the failure of cleanup':
                   lambda result, trace: outcome_is_earliest_failure_or_cleanup_failure(result, steps_of(trace)),
               'outcome: has the sandbox iff it was created': lambda result, trace:
               result.has_sds == sandbox_exists(steps_of(trace)),
               'outcome: has the outcome of the action to check if it was executed, none if execution was not reached':
                   lambda result, trace: atc_outcome_iff_executed(result, steps_of(trace)),
               "outcome: the kind of failure is one of the named step's kinds (FAIL only from assert/main)":
                   lambda result: failure_is_of_the_kind_of_its_step(result),
               'outcome: success and assertion failure come with the outcome of the action to check':
                   lambda result: complete_execution_has_atc_outcome(result),
               'invalid case (C03): a failing parse / validation step before the sandbox means nothing else has run':
                   lambda result, trace: invalid_case_has_no_effects(result, steps_of(trace)),
               'the phases of the given test case': lambda test_case, trace:
               all(s[1][1]['phase_contents'] is test_case.cleanup_phase for s in steps_of(trace)
                   if s[0] is S.CLEANUP__VALIDATE_SYMBOLS),
           },
           raises={OSError: {'ensures': lambda trace:
           in_documented_order(steps_of(trace)) and halts_at_first_failure(steps_of(trace))
           and steps_of(trace)[-1][0] == SDS and failed(steps_of(trace)[-1])}},
           raises_only=())


# ====================================================================================== validated order = executed order
# "A symbol is visible to exactly the instructions that follow its definition in EXECUTION order ... any violation is
# reported as VALIDATION_ERROR before anything executes": the validation of the symbol usages (one growing table
# over the phases) predicts the execution only if the phases it goes through are the phases that are executed, in
# the same order.  Stated on the executor: when no step fails, the phases whose symbol usages were validated are
# the phases whose main step runs.  (Carries C08 only; stated here because it is a statement about the protocol of this module.)

_PHASE_OF_SYMBOL_STEP = {S.SETUP__VALIDATE_SYMBOLS: 'setup', S.ACT__VALIDATE_SYMBOLS: 'act',
                         S.BEFORE_ASSERT__VALIDATE_SYMBOLS: 'before-assert',
                         S.ASSERT__VALIDATE_SYMBOLS: 'assert', S.CLEANUP__VALIDATE_SYMBOLS: 'cleanup'}
_PHASE_OF_MAIN_STEP = {S.SETUP__MAIN: 'setup', S.ACT__EXECUTE: 'act',
                       S.BEFORE_ASSERT__MAIN: 'before-assert', S.ASSERT__MAIN: 'assert',
                       S.CLEANUP__MAIN: 'cleanup'}


def validated_phases_are_the_executed_ones(steps):
    if any([failed(s) for s in steps]):
        return True
    validated = [_PHASE_OF_SYMBOL_STEP[s[0]] for s in steps if s[0] in _PHASE_OF_SYMBOL_STEP]
    executed = [_PHASE_OF_MAIN_STEP[s[0]] for s in steps if s[0] in _PHASE_OF_MAIN_STEP]
    return validated == executed


_ACT_ONLY_REPLAY = '''
import subprocess, tempfile, pathlib
import exactly_lib
runner = pathlib.Path(exactly_lib.__file__).parent.parent / 'default-main-program-runner.py'
case = ('[act]\\n$ true\\n[assert]\\ndef string t = x\\n[cleanup]\\n'
        'file @[EXACTLY_TMP]@/@[t]@.txt = "@[t]@"\\n')
with tempfile.TemporaryDirectory() as d:
    d = pathlib.Path(d)
    (d / 'c.case').write_text(case)
    out = {}
    for option in ((), ('--act',)):
        p = subprocess.run([sys.executable, '-W', 'ignore', str(runner)] + list(option) + ['c.case'], cwd=str(d),
                           capture_output=True, text=True, env=dict(os.environ, PYTHONPATH=str(runner.parent)))
        out[option] = (p.returncode, (p.stdout + p.stderr).split('\\n')[0])
        print(option or '(all phases)', out[option])
if out[()] == (0, 'PASS') and out[('--act',)][0] == 129:
    print('--act validates the symbols of all five phases but executes setup, act, cleanup: [cleanup] refers to a '
          'symbol that the skipped [assert] defines -- accepted by the validation, INTERNAL_ERROR when it runs')
    sys.exit(1)
sys.exit(0)
'''

def execute_as_seen_by_the_symbols(executor):
    """Harness: the execution of the partial executor (its body is interpreted: contract `inline` of C01)"""
    return executor.execute()


M.contract('contracts.C01_protocol:execute_as_seen_by_the_symbols', props=('C08',),
           params=dict(executor=_mk_partial_executor('initial')),
           cover=False, replay=lambda model, rf: _ACT_ONLY_REPLAY,
           ensures={'the phases whose symbol usages are validated are the phases that are executed, in that order':
                    lambda trace: validated_phases_are_the_executed_ones(steps_of(trace))},
           may_raise=(OSError,))


@M.check('constants')
def _constants(ctx):
    """The "integer values must correspond" comments of the three enums, as finite obligations
    (read from the imported current tree)."""
    for m in PartialControlledFailureEnum:
        ok = any(x.value == m.value for x in ExecutionFailureStatus) and ExecutionFailureStatus(m.value).name == m.name
        ctx.obligation('PartialControlledFailureEnum.%s -> ExecutionFailureStatus of the same name' % m.name, ok,
                       'enumeration')
    for m in pfh.PassOrFailOrHardErrorEnum:
        if m is pfh.PassOrFailOrHardErrorEnum.PASS:
            continue
        ok = any(x.value == m.value for x in PartialControlledFailureEnum) \
            and PartialControlledFailureEnum(m.value).name == m.name
        ctx.obligation('PassOrFailOrHardErrorEnum.%s -> PartialControlledFailureEnum of the same name' % m.name, ok,
                       'enumeration')
    for m in svh.SuccessOrValidationErrorOrHardErrorEnum:
        if m is svh.SuccessOrValidationErrorOrHardErrorEnum.SUCCESS:
            continue
        ok = any(x.value == m.value for x in ExecutionFailureStatus) and ExecutionFailureStatus(m.value).name == m.name
        ctx.obligation('SuccessOrValidationErrorOrHardErrorEnum.%s -> ExecutionFailureStatus of the same name'
                       % m.name, ok, 'enumeration')
    from exactly_lib.execution.full_execution.result import FullExeResultStatus
    for m in ExecutionFailureStatus:
        ok = any(x.value == m.value for x in FullExeResultStatus) and FullExeResultStatus(m.value).name == m.name
        ctx.obligation('ExecutionFailureStatus.%s -> FullExeResultStatus of the same name' % m.name, ok, 'enumeration')
    ctx.obligation('the documented sequence has no step twice and ends with assert/main',
                   len(set(map(str, CANONICAL))) == len(CANONICAL) and CANONICAL[-1] is S.ASSERT__MAIN, 'enumeration')
    all_steps = [v for k, v in vars(S).items() if isinstance(v, S.PhaseStep)]
    ctx.obligation('every phase step constant except conf/main and cleanup/main is in the documented sequence',
                   all(any(v is c for c in CANONICAL) or v in (S.CONFIGURATION__MAIN, S.CLEANUP__MAIN)
                       for v in all_steps) and len(all_steps) == len(CANONICAL) - 1 + 2, 'enumeration',
                   detail={'steps': [str(v) for v in all_steps]})


# ====================================================================================== full execution
from exactly_lib.execution.full_execution import execution as fex
from exactly_lib.execution.full_execution.result import FullExeResult, FullExeResultStatus
from exactly_lib.test_case import test_case_doc
from exactly_lib.test_case.phases.configuration import ConfigurationBuilder
from exactly_lib.test_case.test_case_status import TestCaseStatus
from contracts.C02_outcome import verdict      # the documented table status x assertion outcome -> verdict (C02)

P_FEX = 'exactly_lib.execution.full_execution.execution'

CONF_KINDS = [m for m in ExecutionFailureStatus if m.name in KINDS_OF_STEP[S.CONFIGURATION__MAIN]]


class ConfigurationBuilderI(Interface):
    """the builder as it is after conf/main (the instructions of [conf] set status, actor, home directories)"""
    target_class = ConfigurationBuilder
    attrs = {'test_case_status': EnumOf(TestCaseStatus), 'actor': Any_, 'hds': Any_}


FULL_TEST_CASE = Inst(test_case_doc.TestCase, _tuple=[PHASE, PHASE, PHASE, PHASE, PHASE, PHASE])

M.contract(P_FEX + ':execute_configuration_phase',
           params=dict(phase_environment=Iface(ConfigurationBuilderI), configuration_phase=PHASE),
           event='conf-main', modifies=MONITOR_FRAME,
           returns=Opt(instruction_failure_shape(S.CONFIGURATION__MAIN, CONF_KINDS)),
           ensures={
               'runs conf/main on the configuration phase, with the builder as environment':
                   lambda phase_environment, configuration_phase, result, trace:
                   len(trace) == 2 and trace[0][0] == 'execute-phase'
                   and trace[0][1]['phase_step'] is S.CONFIGURATION__MAIN
                   and trace[0][1]['phase_contents'] is configuration_phase
                   and type(trace[0][1]['instruction_executor']) is psx.ConfigurationMainExecutor
                   and trace[0][1]['instruction_executor']._phase_environment is phase_environment
                   and trace[1] == ('execute-phase:returned', trace[0][1], result),
               "failure: names conf/main, of one of that step's kinds": lambda result:
               result is None or (result.failure_info.phase_step is S.CONFIGURATION__MAIN
                                  and result.status.name in KINDS_OF_STEP[S.CONFIGURATION__MAIN]),
           },
           raises_only=())

M.contract(P_FEX + ':new_configuration_phase_failure_from',
           params=dict(phase_result=instruction_failure_shape(S.CONFIGURATION__MAIN, CONF_KINDS)), inline=True,
           ensures={'the failure under the status of the same name, no sandbox, no outcome of the action to check':
                    lambda phase_result, result:
                    result.status.name == phase_result.status.name and result.failure_info is phase_result.failure_info
                    and not result.has_sds and result.action_to_check_outcome is None},
           raises_only=())

PARTIAL_RESULT = Inst(PartialExeResult,
                      _PartialExeResult__status=Opt(EnumOf(ExecutionFailureStatus)),
                      _ResultBase__sds=Opt(Any_),
                      _ResultBase__action_to_check_outcome=Opt(ATC_OUTCOME),
                      _ResultBase__failure_info=Opt(Any_))

# owned by C04 (stand-in): partial execution with the working directory preserved and the sandbox removed
# afterwards unless it is to be kept.  It returns what executor.execute (above) returns and raises what that raises.
M.contract('exactly_lib.execution.partial_execution.execution:execute', trusted=True,
           params=dict(test_case=TEST_CASE, full_exe_input_conf=Any_, conf_phase_values=Any_, setup_handler=Any_,
                       is_keep_sandbox=Bool),
           event='partial-execution', returns=PARTIAL_RESULT, may_raise=(OSError,))
M.trust('stand-in for the contract owned by C04: partial_execution.execution.execute returns the result of '
        'executor.execute(Configuration(conf, conf_phase_values, setup_handler), test_case) and raises only what that raises')


def _partial_executions(trace):
    return [e for e in trace if e[0] == 'partial-execution']


def _is_partial_execution_of(e, conf, configuration_builder, is_keep_sandbox, test_case):
    b = e[1]
    return tuple(b['test_case']) == (test_case.setup_phase, test_case.act_phase, test_case.before_assert_phase,
                                     test_case.assert_phase, test_case.cleanup_phase) \
        and b['full_exe_input_conf'] is conf and b['is_keep_sandbox'] is is_keep_sandbox \
        and tuple(b['conf_phase_values']) == (configuration_builder.actor, configuration_builder.hds)


def _full_outcome(trace, conf, configuration_builder, is_keep_sandbox, test_case, result):
    conf_failure = trace[1][2]
    if conf_failure is not None:
        # a failing configuration phase is the outcome and nothing else runs
        return len(trace) == 2 and result.status.name == conf_failure.status.name \
            and result.failure_info is conf_failure.failure_info \
            and not result.has_sds and result.action_to_check_outcome is None
    if configuration_builder.test_case_status is TestCaseStatus.SKIP:
        return len(trace) == 2 and result.status is FullExeResultStatus.SKIPPED and result.failure_info is None \
            and not result.has_sds and result.action_to_check_outcome is None
    # otherwise: one partial execution of the five phases, its outcome under the documented translation
    partial = trace[3][2]
    return len(trace) == 4 and trace[2][0] == 'partial-execution' and trace[3][0] == 'partial-execution:returned' \
        and _is_partial_execution_of(trace[2], conf, configuration_builder, is_keep_sandbox, test_case) \
        and result.status.name == verdict(configuration_builder.test_case_status, partial.status) \
        and result.sds is partial.sds and result.failure_info is partial.failure_info \
        and result.action_to_check_outcome is partial.action_to_check_outcome


M.contract(P_FEX + ':execute',
           params=dict(conf=Any_, configuration_builder=Iface(ConfigurationBuilderI), is_keep_sandbox=Bool,
                       test_case=FULL_TEST_CASE),
           returns=Inst(FullExeResult, _FullExeResult__status=EnumOf(FullExeResultStatus), _ResultBase__sds=Opt(Any_),
                        _ResultBase__action_to_check_outcome=Opt(ATC_OUTCOME), _ResultBase__failure_info=Opt(Any_)),
           event='full-execution',
           ensures={
               'conf/main runs first, on the configuration phase with the builder':
                   lambda configuration_builder, test_case, trace:
                   trace[0][0] == 'conf-main' and trace[0][1]['phase_environment'] is configuration_builder
                   and trace[0][1]['configuration_phase'] is test_case.configuration_phase
                   and trace[1][0] == 'conf-main:returned',
               'conf failure / SKIP end the execution; else one partial execution, outcome by the documented table':
                   lambda conf, configuration_builder, is_keep_sandbox, test_case, result, trace:
                   _full_outcome(trace, conf, configuration_builder, is_keep_sandbox, test_case, result),
               'never a success when a step failed': lambda result, trace:
               result.status not in (FullExeResultStatus.PASS, FullExeResultStatus.XPASS)
               or (trace[1][2] is None and trace[3][2].status is None),
           },
           raises={OSError: {'ensures': lambda trace: trace[-1][0] == 'partial-execution:raised'}},
           raises_only=())

# shared with C02 (its contracts, reused: the translation of the partial outcome is part of "never a success
# when an executed step failed")
from contracts import C02_outcome as _c02

for _c in _c02.M.contracts:
    if _c.qname in ('exactly_lib.execution.full_execution.result:translate_status',
                    'exactly_lib.execution.full_execution.result:new_from_result_of_partial_execution',
                    'exactly_lib.execution.full_execution.result:new_skipped'):
        _c.props = tuple(sorted(set(_c.props) | {'C01'}))


# ====================================================================================== bounded cross-check (native)

@M.bounded('native fault injection')
def _native_fault_injection(ctx):
    """The real full_execution.execute on stub instructions / a stub actor (contracts/native_c01.py): no fault,
    every single fault (step x instruction position x kind of failure), every post-sandbox fault combined with
    every failing cleanup instruction, for 1..2 instructions per phase, status PASS / FAIL / SKIP, with and
    without `exe_atc_and_skip_assertions`; the clauses of C01 (and the corollary of C03) evaluated natively on
    the recorded calls.  Cross-checks the modular proof -- including its trusted stand-ins -- against reality."""
    import os
    from contracts import native_c01
    bound = 2 if ctx.tier == 'quick' else 3
    cases, failures = native_c01.main(bound)
    verif = os.path.dirname(os.path.dirname(os.path.abspath(__file__)))
    out = []
    for faults, n, status, skip, bad, got in failures:
        replay = ('import sys\nsys.path.insert(0, %r)\nfrom contracts import native_c01 as N\n'
                  'from exactly_lib.execution import phase_step as S\n'
                  'from exactly_lib.test_case.test_case_status import TestCaseStatus\n'
                  'faults = [%s]\nrun, result = N.execute(faults, %d, TestCaseStatus.%s, %r)\n'
                  'bad = N.check(run, result, %d, TestCaseStatus.%s, %r)\nprint(result.status, bad)\n'
                  'sys.exit(1 if bad else 0)\n'
                  % (verif, ', '.join('N.Fault([s for s in vars(S).values() if str(s) == %r][0], %r, %r)'
                                      % (str(f.step), f.position, f.kind) for f in faults),
                     n, status.name, skip, n, status.name, skip))
        out.append({'input': '%r n=%d status=%s skip=%r' % (faults, n, status.name, skip),
                    'expected': 'all clauses of C01', 'actual': '%s; violated: %s' % (got, bad), 'replay': replay})
    ctx.bounded_result('exactly_lib.execution.full_execution.execution:execute',
                       'instructions per phase <= %d; single faults and fault x failing cleanup' % bound,
                       cases, True, out,
                       note='act/validate-exe-input is not injectable through the public interfaces used here')


# Assumed summaries of this module that follow from contracts PROVED for another property (Module.implied_by, ENGINE.md):
# the refinement obligations are generated by this property's check and the proved contract is re-proved here.
M.implied_by('exactly_lib.execution.partial_execution.impl.executor:_PartialExecutor._env_vars__read_only', 'C04')
