"""C05 rests on facts proved for other properties (DESIGN A.4: "a property that rests on a fact proved for another
property must re-prove it"):

 * `filter` / `grep` are text transformers of C05's statement; that `filter` selects exactly the lines its line matcher
   accepts (the read-ahead optimisation via the interval of the matcher loses no line) and `filter -line-nums` are proved
   for C13 (contracts/C13_filter.py, C13b_line_nums.py): those contracts carry C05 too (seeded change C05-s7: `union` of
   intervals too narrow => `filter ( line-num <= 2 || line-num >= 5 )` loses lines);
 * the logical operators freeze the (transformed) model: a text larger than the memory buffer goes through
   `SpooledTextFile`, proved for C14 (seeded change C05-s9: `writelines` drops the line that triggers the roll over).
   Only the buffer class is shared: the contents classes around it have listed known findings of C14 (texts with `\\r`
   through a file), which are reported under C14 and, for `equals`, under C05 already."""
from pyvc.api import Module

M = Module('C05')


def _share():
    from contracts.common import share_contracts
    share_contracts('C05', 'contracts.C13_filter', lambda q: True)
    share_contracts('C05', 'contracts.C13b_line_nums', lambda q: True)
    share_contracts('C05', 'contracts.C14_text_value', lambda q: 'spooled_file:SpooledTextFile.' in q)


M.after_load = _share
M.shared_checks = [('C13', 'operators')]
