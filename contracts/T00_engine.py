"""T00 -- engine self-test: tiny functions with contracts that must verify (ok_*) or be refuted (bad_*).
Not a property of the repository; run by pyvc.selftest to validate the verifier itself."""
from pyvc.api import Module, Int, Nat, Bool, Str, Opt, ListOf, FixedList, OneOf, Inst, MapOf
from contracts.common import implies, iff, forall_range, exists_range, prefix_fold

M = Module('T00')
P = 'contracts.T00_engine'


def ok_first_line(s):
    i = s.find('\n')
    if i == -1:
        return s
    return s[:i]


M.contract(P + ':ok_first_line', params=dict(s=Str), returns=Str,
           ensures={'prefix-without-newline': lambda s, result: s.startswith(result) and '\n' not in result,
                    'whole-or-followed-by-newline': lambda s, result: result == s or s[len(result)] == '\n'},
           raises_only=())


def bad_first_line(s):
    i = s.find('\n')
    if i == -1:
        return s
    return s[:i + 1]


M.contract(P + ':bad_first_line', params=dict(s=Str), returns=Str,
           ensures={'prefix-without-newline': lambda s, result: s.startswith(result) and '\n' not in result},
           raises_only=())


def ok_consume(s, n):
    """line-number bookkeeping in the style of ParseSource.consume"""
    if n > len(s):
        raise ValueError('too many')
    head = s[:n]
    rest = s[n:]
    return head.count('\n'), rest


M.contract(P + ':ok_consume', params=dict(s=Str, n=Nat),
           raises={ValueError: {'when': lambda s, n: n > len(s)}},
           ensures={'count-additive': lambda s, n, result: result[0] + result[1].count('\n') == s.count('\n'),
                    'rest-is-suffix': lambda s, n, result: s.endswith(result[1]) and len(result[1]) == len(s) - n},
           raises_only=())


def ok_sum_to(n):
    total = 0
    i = 0
    while i < n:
        i += 1
        total += i
    return total


M.contract(P + ':ok_sum_to', params=dict(n=Nat), returns=Int,
           ensures={'gauss': lambda n, result: 2 * result == n * (n + 1)}, raises_only=())
M.loop(P + ':ok_sum_to', 0, invariant=lambda i, total, n: 0 <= i and i <= n and 2 * total == i * (i + 1),
       modifies=dict(i=Int, total=Int), decreases=lambda i, n: n - i)


def bad_sum_to(n):
    total = 0
    i = 0
    while i < n:
        total += i
        i += 1
    return total


M.contract(P + ':bad_sum_to', params=dict(n=Nat), returns=Int,
           ensures={'gauss': lambda n, result: 2 * result == n * (n + 1)}, raises_only=())
M.loop(P + ':bad_sum_to', 0, invariant=lambda i, total, n: 0 <= i and i <= n and 2 * total == i * (i + 1),
       modifies=dict(i=Int, total=Int))


def ok_all_positive(xs):
    for x in xs:
        if x <= 0:
            return False
    return True


M.contract(P + ':ok_all_positive', params=dict(xs=ListOf(Int)), returns=Bool,
           ensures={'forall': lambda xs, result: iff(result, forall_range(0, len(xs), lambda j: xs[j] > 0))},
           raises_only=())
M.loop(P + ':ok_all_positive', 0, invariant=lambda _i, xs: forall_range(0, _i, lambda j: xs[j] > 0),
       modifies=dict(x='local'))


def bad_all_positive(xs):
    for x in xs:
        if x < 0:
            return False
    return True


M.contract(P + ':bad_all_positive', params=dict(xs=ListOf(Int)), returns=Bool,
           ensures={'forall': lambda xs, result: iff(result, forall_range(0, len(xs), lambda j: xs[j] > 0))},
           raises_only=())
M.loop(P + ':bad_all_positive', 0, invariant=lambda _i, xs: forall_range(0, _i, lambda j: xs[j] > 0),
       modifies=dict(x='local'))


def ok_try_finally(flag, log):
    try:
        if flag:
            raise KeyError('k')
        log.append('body')
    except KeyError:
        log.append('handler')
    finally:
        log.append('finally')
    return log


M.contract(P + ':ok_try_finally', params=dict(flag=Bool, log=FixedList()),
           ensures={'order': lambda flag, result: result == (['handler', 'finally'] if flag else ['body', 'finally'])},
           raises_only=())


def ok_gen(n):
    def g():
        yield 1
        if n > 0:
            yield 2
        yield 3

    return list(g())


M.contract(P + ':ok_gen', params=dict(n=Int),
           ensures={'items': lambda n, result: result == ([1, 2, 3] if n > 0 else [1, 3])}, raises_only=())


def ok_floor_div(a, b):
    return a // b, a % b


M.contract(P + ':ok_floor_div', params=dict(a=Int, b=Int),
           raises={ZeroDivisionError: {'when': lambda b: b == 0}},
           ensures={'euclid': lambda a, b, result: result[0] * b + result[1] == a,
                    'sign-of-remainder': lambda b, result: (0 <= result[1] < b) if b > 0 else (b < result[1] <= 0)},
           raises_only=())


# ---- symbolic maps (dict view), frame/havoc of mutable arguments, ghost history function

def ok_map_ops(d, k, v):
    """dict operations on a map of unbounded contents"""
    had = k in d
    before = d.get(k, '')
    d[k] = v
    e = dict(d)
    removed = e.pop(k)
    if 'x' in e:
        del e['x']
    return had, before, removed, e


M.contract(P + ':ok_map_ops', params=dict(d=MapOf(Str, Str), k=Str, v=Str), ghosts=dict(q=Str), modifies=('d',),
           old=lambda d: dict(d),
           ensures={'d updated at k only': lambda d, k, v, q, old:
           d[k] == v and iff(q in d, q == k or q in old) and (q == k or q not in old or d[q] == old[q]),
                    'results': lambda k, v, result, old:
                    iff(result[0], k in old) and result[1] == (old[k] if k in old else '') and result[2] == v,
                    'copy is independent': lambda d, k, q, result: k not in result[3] and k in d and 'x' not in result[3]
                                                                   and iff(q in result[3], q in d and q != k and q != 'x')},
           raises_only=())


def ok_put_all(d, ks):
    for k in ks:
        _put(d, k)


def _put(d, k):
    d[k] = k + '!'


def _put_step(d, k):
    r = dict(d)
    r[k] = k + '!'
    return r


M.contract(P + ':_put', params=dict(d=MapOf(Str, Str), k=Str), modifies=('d',), old=lambda d: dict(d),
           ensures={'put': lambda d, k, old: d == _put_step(old, k)}, raises_only=())
M.contract(P + ':ok_put_all', params=dict(d=MapOf(Str, Str), ks=ListOf(Str)), modifies=('d',), old=lambda d: dict(d),
           ensures={'fold': lambda d, ks, old: d == prefix_fold(_put_step, old, ks, len(ks))}, raises_only=())
M.loop(P + ':ok_put_all', 0, invariant=lambda _i, d, ks, old: d == prefix_fold(_put_step, old, ks, _i),
       modifies=dict(k='local', d='in-place'))

EXPECTED_REFUTED = {
    P + ':bad_first_line : ensures[prefix-without-newline]',
    P + ':bad_sum_to : loop#0 invariant[preserved]',
    P + ':bad_all_positive : loop#0 invariant[preserved]',
}


def ok_join_args(cmd, args):
    """str.join over a concatenation with a sequence of symbolic length (shell command lines)"""
    return ' '.join([cmd] + args)


M.contract(P + ':ok_join_args', params=dict(cmd=Str, args=ListOf(Str)), returns=Str,
           ensures={'no-args: the command itself': lambda cmd, args, result: implies(len(args) == 0, result == cmd),
                    'one-arg: separated by one space': lambda cmd, args, result:
                    (not len(args) == 1) or result == cmd + ' ' + args[0],
                    'starts-with-the-command': lambda cmd, result: result.startswith(cmd),
                    'same-expression-same-value': lambda cmd, args, result: result == ' '.join([cmd] + list(args))},
           raises_only=())


def ok_copy_append(xs, x):
    """list(xs) is a new list: appending to it leaves xs alone (stdin parts + act stdin)"""
    ys = list(xs)
    before = tuple(ys)
    ys.append(x)
    return ys, before


M.contract(P + ':ok_copy_append', params=dict(xs=ListOf(Int), x=Int), ghosts=dict(j=Int),
           ensures={'appended-last': lambda xs, x, result: len(result[0]) == len(xs) + 1 and result[0][len(xs)] == x,
                    'prefix-kept': lambda xs, result, j: (not (0 <= j < len(xs))) or result[0][j] == xs[j],
                    'snapshot-unchanged': lambda xs, result: len(result[1]) == len(xs)},
           raises_only=())


def ok_numbered(lines):
    n = 0
    for line in lines:
        n += 1
        yield n, line


from pyvc.api import IterOf  # noqa: E402

M.contract(P + ':ok_numbered', params=dict(lines=IterOf(Str)), yields=ListOf(FixedList(Int, Str, as_tuple=True)),
           ensures={'all-lines-numbered-from-1': lambda lines, yielded:
           len(yielded) == len(lines.xs) and forall_range(0, len(yielded), lambda k:
           yielded[k][0] == k + 1 and yielded[k][1] == lines.xs[k])},
           raises_only=())
M.loop(P + ':ok_numbered', 0,
       invariant=lambda _i, n, lines, yielded: n == _i and len(yielded) == _i and forall_range(
           0, len(yielded), lambda k: yielded[k][0] == k + 1 and yielded[k][1] == lines.xs[k]),
       modifies=dict(n=Int, line='local', yielded='len'))


def bad_numbered(lines):
    n = 0
    for line in lines:
        yield n, line
        n += 1


M.contract(P + ':bad_numbered', params=dict(lines=IterOf(Str)), yields=ListOf(FixedList(Int, Str, as_tuple=True)),
           ensures={'all-lines-numbered-from-1': lambda lines, yielded:
           len(yielded) == len(lines.xs) and forall_range(0, len(yielded), lambda k:
           yielded[k][0] == k + 1 and yielded[k][1] == lines.xs[k])},
           raises_only=())
M.loop(P + ':bad_numbered', 0,
       invariant=lambda _i, n, lines, yielded: n == _i and len(yielded) == _i and forall_range(
           0, len(yielded), lambda k: yielded[k][0] == k + 1 and yielded[k][1] == lines.xs[k]),
       modifies=dict(n=Int, line='local', yielded='len'))

EXPECTED_REFUTED.add(P + ':bad_numbered : loop#0 invariant[preserved]')


def ok_collect_positive(xs):
    out = []
    for x in xs:
        if x > 0:
            out.append(x)
    return out


from pyvc.api import MListOf  # noqa: E402

M.contract(P + ':ok_collect_positive', params=dict(xs=ListOf(Int)), returns=MListOf(Int),
           ensures={'only-positive': lambda result: forall_range(0, len(result), lambda k: result[k] > 0),
                    'not-longer': lambda xs, result: len(result) <= len(xs)},
           raises_only=())
M.loop(P + ':ok_collect_positive', 0,
       invariant=lambda _i, out: len(out) <= _i and forall_range(0, len(out), lambda k: out[k] > 0),
       modifies=dict(out=MListOf(Int), x='local'))


def ok_out_param(xs, acc):
    for x in xs:
        acc.append((x, x + 1))
    return len(acc)


M.contract(P + ':ok_out_param', params=dict(xs=ListOf(Int), acc=MListOf(FixedList(Int, Int, as_tuple=True))),
           old=lambda acc: len(acc), returns=Int, modifies=('acc',),
           ensures={'appended': lambda xs, acc, old, result: result == old + len(xs) and len(acc) == result
                    and forall_range(0, len(xs), lambda k: acc[old + k][1] == xs[k] + 1)},
           raises_only=())
M.loop(P + ':ok_out_param', 0,
       invariant=lambda _i, xs, acc, old: len(acc) == old + _i and forall_range(
           0, _i, lambda k: acc[old + k][1] == xs[k] + 1),
       modifies=dict(acc=MListOf(FixedList(Int, Int, as_tuple=True)), x='local'))


def ok_int_round_trip(n):
    """exit codes are stored as text and read back (also negative ones: killed by a signal)"""
    return int(str(n))


M.contract(P + ':ok_int_round_trip', params=dict(n=Int), returns=Int,
           ensures={'int(str(n)) == n': lambda n, result: result == n}, raises_only=())


def ok_build_argv(interpreter_args, source_file, args):
    """argv built with `+=` / append on a fresh list (file interpreter actor)"""
    arguments = []
    arguments += interpreter_args
    arguments.append(source_file)
    arguments += args
    return arguments


M.contract(P + ':ok_build_argv', params=dict(interpreter_args=ListOf(Str), source_file=Str, args=ListOf(Str)),
           ghosts=dict(j=Int),
           ensures={'length': lambda interpreter_args, args, result: len(result) == len(interpreter_args) + 1 + len(args),
                    'interpreter-args-first': lambda interpreter_args, result, j:
                    (not (0 <= j < len(interpreter_args))) or result[j] == interpreter_args[j],
                    'then-the-source-file': lambda interpreter_args, source_file, result:
                    result[len(interpreter_args)] == source_file,
                    'then-the-arguments': lambda interpreter_args, args, result, j:
                    (not (0 <= j < len(args))) or result[len(interpreter_args) + 1 + j] == args[j],
                    'inputs-unchanged': lambda interpreter_args, args, old: (len(interpreter_args), len(args)) == old},
           old=lambda interpreter_args, args: (len(interpreter_args), len(args)),
           raises_only=())


# ---- mutable lists of records with optional fields (MListOf(Inst(...))) and of elements of a sequence of
# interface objects (MListOf(RefTo(...)))

class _Rec:
    def __init__(self, a, b):
        self.a = a
        self.b = b


def ok_collect_records(xs):
    out = []
    for x in xs:
        out.append(_Rec(x, None if x < 0 else x + 1))
    return out


from pyvc.api import Inst, Opt, RefTo, Interface, Iface  # noqa: E402

_REC = Inst(_Rec, a=Int, b=Opt(Int))


def _rec_ok(r, x):
    return r.a == x and (r.b is None) == (x < 0)


M.contract(P + ':ok_collect_records', params=dict(xs=ListOf(Int)), returns=MListOf(_REC),
           ensures={'one-record-per-item': lambda xs, result: len(result) == len(xs) and forall_range(
               0, len(xs), lambda k: _rec_ok(result[k], xs[k]))},
           raises_only=())
M.loop(P + ':ok_collect_records', 0,
       invariant=lambda _i, xs, out: len(out) == _i and forall_range(0, _i, lambda k: _rec_ok(out[k], xs[k])),
       modifies=dict(out=MListOf(_REC), x='local'))


def bad_collect_records(xs):
    out = []
    for x in xs:
        out.append(_Rec(x, None if x <= 0 else x + 1))
    return out


M.contract(P + ':bad_collect_records', params=dict(xs=ListOf(Int)), returns=MListOf(_REC),
           ensures={'one-record-per-item': lambda xs, result: len(result) == len(xs) and forall_range(
               0, len(xs), lambda k: _rec_ok(result[k], xs[k]))},
           raises_only=())
M.loop(P + ':bad_collect_records', 0,
       invariant=lambda _i, xs, out: len(out) == _i and forall_range(0, _i, lambda k: _rec_ok(out[k], xs[k])),
       modifies=dict(out=MListOf(_REC), x='local'))

EXPECTED_REFUTED.add(P + ':bad_collect_records : loop#0 invariant[preserved]')


class _ItemI(Interface):
    attrs = {'weight': Int}


def ok_heavy_items(items):
    out = []
    for it in items:
        if it.weight > 10:
            out.append(it)
    return out


_ITEM_REF = RefTo(_ItemI, 'items[]')

M.contract(P + ':ok_heavy_items', params=dict(items=ListOf(Iface(_ItemI))), returns=MListOf(_ITEM_REF),
           ensures={'only-heavy': lambda result: forall_range(0, len(result), lambda k: result[k].weight > 10),
                    'not-longer': lambda items, result: len(result) <= len(items)},
           raises_only=())
M.loop(P + ':ok_heavy_items', 0,
       invariant=lambda _i, out: len(out) <= _i and forall_range(0, len(out), lambda k: out[k].weight > 10),
       modifies=dict(out=MListOf(_ITEM_REF), it='local'))


# ---- names assigned in a loop that its specification does not declare (a temporary introduced by a later edit)
def ok_undeclared_temporary(xs):
    for x in xs:
        positive = x > 0          # not declared in the loop specification: a loop-local temporary
        if not positive:
            return False
    return True


M.contract(P + ':ok_undeclared_temporary', params=dict(xs=ListOf(Int)), returns=Bool,
           ensures={'all-positive': lambda xs, result: result == forall_range(0, len(xs), lambda j: xs[j] > 0)})
M.loop(P + ':ok_undeclared_temporary', 0, invariant=lambda _i, xs: forall_range(0, _i, lambda j: xs[j] > 0),
       modifies=dict(x='local'))


def bad_undeclared_carried(xs):
    seen_bad = False
    for x in xs:
        if seen_bad:              # reads what an earlier iteration stored; the specification says nothing about it
            return False
        seen_bad = x <= 0
    return True


M.contract(P + ':bad_undeclared_carried', params=dict(xs=ListOf(Int)), returns=Bool, cover=False, raises_only=(),
           ensures={'never-false': lambda result: result is True})
M.loop(P + ':bad_undeclared_carried', 0, invariant=lambda _i, xs: True, modifies=dict(x='local'))
# the undeclared name is unbound at the loop head: the read is a limit of the verifier (unsupported), nothing is
# proved about the function
EXPECTED_UNDECIDED = [P + ':bad_undeclared_carried: unsupported: the loop carries a value in']


# ---- symbolic maps: len (cardinality of the key set), optional values, dict comprehension that copies (F15)

def ok_map_len(d, k):
    """len of a dict of unbounded contents; a key- and value-preserving comprehension over items() is a copy"""
    n = len(d)
    e = {key: v for key, v in d.items()}
    if k in e:
        was = e[k]
        del e[k]
        return n - len(e), was, len(e) == 0
    e[k] = None
    return len(e) - n, e[k], len(e) == 0


def bad_map_len(d, k):
    e = dict(d)
    e[k] = None
    return len(e) - len(d)


def bad_map_comp_changes_keys(d):
    return {key + '!': v for key, v in d.items()}


M.contract(P + ':ok_map_len', params=dict(d=MapOf(Str, Opt(Int)), k=Str), ghosts=dict(q=Str), old=lambda d: dict(d),
           ensures={'one key more or less': lambda result: result[0] == 1,
                    'optional values': lambda d, k, result: (result[1] is None) if k not in d else
                    ((result[1] is None) == (d[k] is None) and (result[1] is None or result[1] == d[k])),
                    'empty iff no key': lambda d, k, q, result:
                    (not result[2]) or k in d or q not in d,
                    'the map itself is not changed': lambda d, old: d == old}, raises_only=())
M.contract(P + ':bad_map_len', params=dict(d=MapOf(Str, Opt(Int)), k=Str), returns=Int,
           ensures={'one-more': lambda result: result == 1}, raises_only=())
M.contract(P + ':bad_map_comp_changes_keys', params=dict(d=MapOf(Str, Int)), cover=False,
           ensures={'never-false': lambda result: True}, raises_only=())
EXPECTED_REFUTED.add(P + ':bad_map_len : ensures[one-more]')
EXPECTED_UNDECIDED.append(P + ':bad_map_comp_changes_keys: unsupported: dict comprehension over a symbolic map that')


# ---- items_of(map(f, xs)) over a symbolic sequence: the element-wise image, when f is pure and total (F15)
from contracts.common import items_of

def ok_lazy_map(xs):
    return map(_twice, xs)


def bad_lazy_map(xs):
    return map(_twice, xs)


def _twice(x):
    return 2 * x


M.contract(P + ':ok_lazy_map', params=dict(xs=ListOf(Int)),
           ensures={'image': lambda xs, result: len(items_of(result)) == len(xs)
                    and forall_range(0, len(xs), lambda k: items_of(result)[k] == 2 * xs[k])}, raises_only=())
M.contract(P + ':bad_lazy_map', params=dict(xs=ListOf(Int)),
           ensures={'image+1': lambda xs, result:
           forall_range(0, len(xs), lambda k: items_of(result)[k] == 2 * xs[k] + 1)}, raises_only=())
EXPECTED_REFUTED.add(P + ':bad_lazy_map : ensures[image+1]')
