"""T00 -- engine self-test: tiny functions with contracts that must verify (ok_*) or be refuted (bad_*).
Not a property of the repository; run by pyvc.selftest to validate the verifier itself."""
from pyvc.api import Module, Int, Nat, Bool, Str, Opt, ListOf, FixedList, OneOf, Inst
from contracts.common import implies, iff, forall_range, exists_range

M = Module('T00')
P = 'contracts.T00_engine'


def ok_first_line(s):
    i = s.find('\n')
    if i == -1:
        return s
    return s[:i]


M.contract(P + ':ok_first_line', params=dict(s=Str), returns=Str,
           ensures={'prefix-without-newline': lambda s, result: s.startswith(result) and '\n' not in result,
                    'whole-or-followed-by-newline': lambda s, result: result == s or s[len(result)] == '\n'},
           raises_only=())


def bad_first_line(s):
    i = s.find('\n')
    if i == -1:
        return s
    return s[:i + 1]


M.contract(P + ':bad_first_line', params=dict(s=Str), returns=Str,
           ensures={'prefix-without-newline': lambda s, result: s.startswith(result) and '\n' not in result},
           raises_only=())


def ok_consume(s, n):
    """line-number bookkeeping in the style of ParseSource.consume"""
    if n > len(s):
        raise ValueError('too many')
    head = s[:n]
    rest = s[n:]
    return head.count('\n'), rest


M.contract(P + ':ok_consume', params=dict(s=Str, n=Nat),
           raises={ValueError: {'when': lambda s, n: n > len(s)}},
           ensures={'count-additive': lambda s, n, result: result[0] + result[1].count('\n') == s.count('\n'),
                    'rest-is-suffix': lambda s, n, result: s.endswith(result[1]) and len(result[1]) == len(s) - n},
           raises_only=())


def ok_sum_to(n):
    total = 0
    i = 0
    while i < n:
        i += 1
        total += i
    return total


M.contract(P + ':ok_sum_to', params=dict(n=Nat), returns=Int,
           ensures={'gauss': lambda n, result: 2 * result == n * (n + 1)}, raises_only=())
M.loop(P + ':ok_sum_to', 0, invariant=lambda i, total, n: 0 <= i and i <= n and 2 * total == i * (i + 1),
       modifies=dict(i=Int, total=Int), decreases=lambda i, n: n - i)


def bad_sum_to(n):
    total = 0
    i = 0
    while i < n:
        total += i
        i += 1
    return total


M.contract(P + ':bad_sum_to', params=dict(n=Nat), returns=Int,
           ensures={'gauss': lambda n, result: 2 * result == n * (n + 1)}, raises_only=())
M.loop(P + ':bad_sum_to', 0, invariant=lambda i, total, n: 0 <= i and i <= n and 2 * total == i * (i + 1),
       modifies=dict(i=Int, total=Int))


def ok_all_positive(xs):
    for x in xs:
        if x <= 0:
            return False
    return True


M.contract(P + ':ok_all_positive', params=dict(xs=ListOf(Int)), returns=Bool,
           ensures={'forall': lambda xs, result: iff(result, forall_range(0, len(xs), lambda j: xs[j] > 0))},
           raises_only=())
M.loop(P + ':ok_all_positive', 0, invariant=lambda _i, xs: forall_range(0, _i, lambda j: xs[j] > 0),
       modifies=dict(x='local'))


def bad_all_positive(xs):
    for x in xs:
        if x < 0:
            return False
    return True


M.contract(P + ':bad_all_positive', params=dict(xs=ListOf(Int)), returns=Bool,
           ensures={'forall': lambda xs, result: iff(result, forall_range(0, len(xs), lambda j: xs[j] > 0))},
           raises_only=())
M.loop(P + ':bad_all_positive', 0, invariant=lambda _i, xs: forall_range(0, _i, lambda j: xs[j] > 0),
       modifies=dict(x='local'))


def ok_try_finally(flag, log):
    try:
        if flag:
            raise KeyError('k')
        log.append('body')
    except KeyError:
        log.append('handler')
    finally:
        log.append('finally')
    return log


M.contract(P + ':ok_try_finally', params=dict(flag=Bool, log=FixedList()),
           ensures={'order': lambda flag, result: result == (['handler', 'finally'] if flag else ['body', 'finally'])},
           raises_only=())


def ok_gen(n):
    def g():
        yield 1
        if n > 0:
            yield 2
        yield 3

    return list(g())


M.contract(P + ':ok_gen', params=dict(n=Int),
           ensures={'items': lambda n, result: result == ([1, 2, 3] if n > 0 else [1, 3])}, raises_only=())


def ok_floor_div(a, b):
    return a // b, a % b


M.contract(P + ':ok_floor_div', params=dict(a=Int, b=Int),
           raises={ZeroDivisionError: {'when': lambda b: b == 0}},
           ensures={'euclid': lambda a, b, result: result[0] * b + result[1] == a,
                    'sign-of-remainder': lambda b, result: (0 <= result[1] < b) if b > 0 else (b < result[1] <= 0)},
           raises_only=())

EXPECTED_REFUTED = {
    P + ':bad_first_line : ensures[prefix-without-newline]',
    P + ':bad_sum_to : loop#0 invariant[preserved]',
    P + ':bad_all_positive : loop#0 invariant[preserved]',
}


def ok_numbered(lines):
    n = 0
    for line in lines:
        n += 1
        yield n, line


from pyvc.api import IterOf  # noqa: E402

M.contract(P + ':ok_numbered', params=dict(lines=IterOf(Str)), yields=ListOf(FixedList(Int, Str, as_tuple=True)),
           ensures={'all-lines-numbered-from-1': lambda lines, yielded:
           len(yielded) == len(lines.xs) and forall_range(0, len(yielded), lambda k:
           yielded[k][0] == k + 1 and yielded[k][1] == lines.xs[k])},
           raises_only=())
M.loop(P + ':ok_numbered', 0,
       invariant=lambda _i, n, lines, yielded: n == _i and len(yielded) == _i and forall_range(
           0, len(yielded), lambda k: yielded[k][0] == k + 1 and yielded[k][1] == lines.xs[k]),
       modifies=dict(n=Int, line='local', yielded='len'))


def bad_numbered(lines):
    n = 0
    for line in lines:
        yield n, line
        n += 1


M.contract(P + ':bad_numbered', params=dict(lines=IterOf(Str)), yields=ListOf(FixedList(Int, Str, as_tuple=True)),
           ensures={'all-lines-numbered-from-1': lambda lines, yielded:
           len(yielded) == len(lines.xs) and forall_range(0, len(yielded), lambda k:
           yielded[k][0] == k + 1 and yielded[k][1] == lines.xs[k])},
           raises_only=())
M.loop(P + ':bad_numbered', 0,
       invariant=lambda _i, n, lines, yielded: n == _i and len(yielded) == _i and forall_range(
           0, len(yielded), lambda k: yielded[k][0] == k + 1 and yielded[k][1] == lines.xs[k]),
       modifies=dict(n=Int, line='local', yielded='len'))

EXPECTED_REFUTED.add(P + ':bad_numbered : loop#0 invariant[preserved]')


def ok_collect_positive(xs):
    out = []
    for x in xs:
        if x > 0:
            out.append(x)
    return out


from pyvc.api import MListOf  # noqa: E402

M.contract(P + ':ok_collect_positive', params=dict(xs=ListOf(Int)), returns=MListOf(Int),
           ensures={'only-positive': lambda result: forall_range(0, len(result), lambda k: result[k] > 0),
                    'not-longer': lambda xs, result: len(result) <= len(xs)},
           raises_only=())
M.loop(P + ':ok_collect_positive', 0,
       invariant=lambda _i, out: len(out) <= _i and forall_range(0, len(out), lambda k: out[k] > 0),
       modifies=dict(out=MListOf(Int), x='local'))


def ok_out_param(xs, acc):
    for x in xs:
        acc.append((x, x + 1))
    return len(acc)


M.contract(P + ':ok_out_param', params=dict(xs=ListOf(Int), acc=MListOf(FixedList(Int, Int, as_tuple=True))),
           old=lambda acc: len(acc), returns=Int,
           ensures={'appended': lambda xs, acc, old, result: result == old + len(xs) and len(acc) == result
                    and forall_range(0, len(xs), lambda k: acc[old + k][1] == xs[k] + 1)},
           raises_only=())
M.loop(P + ':ok_out_param', 0,
       invariant=lambda _i, xs, acc, old: len(acc) == old + _i and forall_range(
           0, _i, lambda k: acc[old + k][1] == xs[k] + 1),
       modifies=dict(acc=MListOf(FixedList(Int, Int, as_tuple=True)), x='local'))
