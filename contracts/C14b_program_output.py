"""C14 (extension T14) -- texts that are the OUTPUT OF A PROGRAM: `impls/types/string_source/command_output/*` and the
contents classes of `transformed_by_program`.

These are `ContentsViaWriteTo` / `ContentsViaFile` whose writer / file creator starts a child process that is GIVEN THE
OPEN FILE and writes through its descriptor.  The write model (pyvc/textio.py `BufferedOutI`, `child_writes`): an
output has the ghost `written` (what the file holds once everything is flushed, in that order) and its unflushed
suffix `pending`; a child process writes its text after what has been FLUSHED -- what Python wrote before and did not
flush ends up AFTER the child's text (the defect fixed by 2ed9b4b: `output.flush()` before the process is started).

The program is the environment: a command has ghost denotations `OUT(stdin text)`, `ERR(stdin text)`, `EXIT(stdin
text)` -- the texts it writes to stdout / stderr and its exit code are functions of the text it reads (a program
whose output varies over time is outside the property: that is what freeze() is for; same assumption as SSCI.txt).

Proved here: every writer / file creator appends EXACTLY the program's text to the output it is given (so it
implements `WriterI` of contracts/C14_text_value.py with txt := that text), returns only when the exit code is
acceptable, and lets nothing but HardErrorException escape; and the contents classes over these REAL writers satisfy
the interface contract I_SSC (as_str / as_lines / as_file / write_to see one text, re-readable)."""
import subprocess

try:
    import z3
except ImportError:      # replays run under the repository's interpreter, without z3
    z3 = None

from pyvc import textio
from pyvc.api import (Module, Interface, Method, Iface, Inst, Int, Bool, Str, Opt, Const, Union, ListOf, Any_,
                      InPlaceBy, new_opaque)
from pyvc.textio import PathI, TextOutI, TextFileI, BufferedOutI
from pyvc.values import Opaque, to_z3, wrap
from contracts.common import implies, iff, is_opaque
from contracts.text_spec import is_split_nl
from contracts.C14_text_value import (DirFileSpaceI, SSC, file_text, file_stored, written, decoded, ctx_lines, _res)

from exactly_lib.impls.types.string_source.command_output import exit_ignored, exit_relevant
from exactly_lib.impls.types.string_source.contents import contents_via_write_to, contents_via_file
from exactly_lib.impls.types.utils.command_w_stdin import CommandWStdin
from exactly_lib.test_case.command_executor import CommandExecutor
from exactly_lib.test_case.hard_error import HardErrorException
from exactly_lib.type_val_prims.program.command import Command
from exactly_lib.util.process_execution.execution_elements import ProcessExecutionSettings

M = Module('C14')

P_EXI = 'exactly_lib.impls.types.string_source.command_output.exit_ignored'
P_EXR = 'exactly_lib.impls.types.string_source.command_output.exit_relevant'
P_CVWT = 'exactly_lib.impls.types.string_source.contents.contents_via_write_to'
P_CVF = 'exactly_lib.impls.types.string_source.contents.contents_via_file'
P_CWCP = 'exactly_lib.impls.types.string_source.contents.contents_with_cached_path'


# ============================================================================== the environment: programs, executor, stdin

class StructureI(Interface):
    """a structure renderer / builder (only handed on to error messages)"""
    methods = {'build': Method(returns=Any_), 'render': Method(returns=Any_)}


class CommandI(Interface):
    """A command = a program: what it writes and how it exits are functions of the text it reads."""
    target_class = Command
    methods = {'OUT': Method(returns=Str, pure=True), 'ERR': Method(returns=Str, pure=True),
               'EXIT': Method(returns=Int, pure=True),
               'new_structure_builder': Method(returns=Iface(StructureI)), 'structure': Method(returns=Any_)}


class StdinPartsI(Interface):
    """the stdin parts of a command (a sequence of sources): ghost `txt`, the concatenation of their texts
    (that as_stdin.of_sequence gives a file with that text is C10 / the concatenation part of C14)"""
    attrs = {'txt': Str}


class StdinFileI(Interface):
    """the open file a process reads its stdin from: ghost `txt`"""
    attrs = {'txt': Str}


class _StdinCtx:
    """ContextManager[ProcessExecutionFile] of as_stdin: gives the file, does not swallow exceptions"""

    def __init__(self, f):
        self.f = f

    def __enter__(self):
        return self.f

    def __exit__(self, *exc):
        return None


def _of_sequence(interp, args, kwargs):
    parts = _res(interp, args[0])
    f = new_opaque(interp, StdinFileI, parts._pv_uid + '.as-stdin')
    f._pv_attrs['txt'] = interp.reg.opaque_getattr(interp, parts, 'txt')
    return _StdinCtx(f)


from exactly_lib.impls.types.string_source import as_stdin          # noqa: E402

M.model(as_stdin.of_sequence, _of_sequence)
M.trust('as_stdin.of_sequence(parts, mem_buff_size) gives a context manager for an open file that holds the '
        'concatenated texts of the parts (ghost `txt` of the parts; the construction itself -- concat + as_file -- is '
        'under contract in contracts/C14_text_value.py / C10)')


def _text_read_from(interp, f):
    """the text a child process reads from what it is given as stdin"""
    f = _res(interp, f)
    if isinstance(f, textio.STextReader):
        return wrap(f.text)
    if isinstance(f, Opaque) and f._pv_iface is StdinFileI:
        return interp.reg.opaque_getattr(interp, f, 'txt')
    if isinstance(f, int) and f == subprocess.DEVNULL:
        return ''
    from pyvc.path import Unsupported
    raise Unsupported('stdin of a process: %r' % (f,))


def _std_files(files):
    return files.stdin, files.output.out, files.output.err


def _mk_hard_error(interp):
    from pyvc.values import OpaqueVal
    return HardErrorException(OpaqueVal(interp.st.fresh_name('hard-error-message')))


def _execute(interp, self, args, kwargs):
    """CommandExecutor.execute(command, settings, files): the process cannot be started / times out (HardErrorException,
    nothing written), or it runs: it reads its stdin, writes OUT / ERR of that text THROUGH THE DESCRIPTORS of the
    files it is given (pyvc.textio.child_writes) and the exit code is returned."""
    from pyvc.interp import PyRaise
    from pyvc.path import Unsupported
    command, settings, files = list(args) + [kwargs[k] for k in ('command', 'settings', 'files')[len(args):]]
    command = _res(interp, command)
    if interp.st.choose(2) == 1:
        raise PyRaise(_mk_hard_error(interp))
    stdin_f, out_f, err_f = interp.call(_std_files, [files])
    t = _text_read_from(interp, stdin_f)
    for f, what in ((out_f, 'OUT'), (err_f, 'ERR')):
        f = _res(interp, f)
        if isinstance(f, int) and f == subprocess.DEVNULL:
            continue
        if not isinstance(f, Opaque):
            raise Unsupported('a process is given %r as an output file' % (f,))
        textio.child_writes(interp, f, interp.reg.call_opaque(interp, command, what, [t], {}))
    return interp.reg.call_opaque(interp, command, 'EXIT', [t], {})


class ExecutorI(Interface):
    target_class = CommandExecutor
    methods = {'execute': Method(model=_execute)}


class TextReaderI(Interface):
    """TextFromFileReader for error messages: reads (an initial part of) the given file"""
    methods = {'read': Method(returns=Str)}


SETTINGS = Inst(ProcessExecutionSettings, _tuple=[Opt(Int), Opt(Any_)])
COMMAND_W_STDIN = Inst(CommandWStdin, command=Iface(CommandI), stdin=Iface(StdinPartsI))

M.contract('exactly_lib.impls.types.utils.command_w_stdin:CommandWStdin.structure', trusted=True,
           params=dict(self=Any_), returns=Any_)
M.trust('CommandWStdin.structure() only builds the description of the command for an error message (no text is read)')

M.assume('a program is constant: the texts a command writes to stdout / stderr and its exit code are functions of the '
         'text it reads from stdin (CommandI.OUT / ERR / EXIT); a process that cannot be started or times out is a '
         'HardErrorException of CommandExecutor.execute and writes nothing; the child process writes through the '
         'descriptor of the file it is given, i.e. after what has been flushed (pyvc/textio.py child_writes)')


# ============================================================================== the text of a writer / file creator

def prog_stdin(w):
    return w._command.stdin.txt


def prog_txt(w):
    """the text a program writer / file creator produces (raw: as it is written to the file)"""
    if isinstance(w, exit_ignored.StderrWriter):
        return w._command.command.ERR(prog_stdin(w))
    if isinstance(w, (exit_ignored.StdoutWriter, exit_relevant.StdoutWriter)):
        return w._command.command.OUT(prog_stdin(w))
    if isinstance(w, exit_relevant.StderrFileCreator):
        return w._command.command.ERR(prog_stdin(w))
    raise ValueError('prog_txt: unexpected class %r' % (type(w),))


def prog_exit(w):
    return w._command.command.EXIT(prog_stdin(w))


def _writer_shape(cls, **extra):
    return Inst(cls, _command=COMMAND_W_STDIN, _proc_exe_settings=SETTINGS, _command_executor=Iface(ExecutorI), **extra)


EXIT_IGNORED_WRITER = Union(_writer_shape(exit_ignored.StdoutWriter), _writer_shape(exit_ignored.StderrWriter))
EXIT_RELEVANT_WRITER = _writer_shape(exit_relevant.StdoutWriter, _stderr_msg_reader=Iface(TextReaderI))
STDERR_FILE_CREATOR = _writer_shape(exit_relevant.StderrFileCreator, _stderr_msg_reader=Iface(TextReaderI))


def _havoc_out(interp, out, tag):
    """what an output holds after a callee has written to it: arbitrary (the ensures say what)"""
    g = out._pv_ghost
    t = interp.st.fresh_str(tag + '.written')
    if 'path' in g:
        textio.set_stored(interp, g['path'], t)
        k = interp.st.fresh_int(tag + '.pos')
        interp.st.assume(z3.And(k >= 0, k <= z3.Length(t)))
        g['pos'] = k
    else:
        g['written'] = t
        if 'pending' in g or (isinstance(out._pv_iface, type) and issubclass(out._pv_iface, BufferedOutI)):
            p = interp.st.fresh_str(tag + '.pending')
            interp.st.assume(z3.SuffixOf(p, t))
            g['pending'] = p


_APPENDS = 'appends exactly the text of the program (what was written before is flushed before the child writes)'

M.contract(P_EXI + ':_WriterBase.write',
           params=dict(self=EXIT_IGNORED_WRITER, tmp_file_space=Iface(DirFileSpaceI), output=Iface(BufferedOutI)),
           old=lambda output: written(output),
           modifies={'output': InPlaceBy(_havoc_out)},
           ensures={_APPENDS: lambda self, output, old: written(output) == old + prog_txt(self)},
           raises_only=(HardErrorException,))

M.contract(P_EXR + ':StdoutWriter.write',
           params=dict(self=EXIT_RELEVANT_WRITER, tmp_file_space=Iface(DirFileSpaceI), output=Iface(BufferedOutI)),
           old=lambda output: written(output),
           modifies={'output': InPlaceBy(_havoc_out)},
           ensures={_APPENDS: lambda self, output, old: written(output) == old + prog_txt(self),
                    'returns only if the exit code is 0': lambda self: prog_exit(self) == 0},
           raises_only=(HardErrorException,))

M.contract(P_EXR + ':StderrFileCreator.create',
           params=dict(self=STDERR_FILE_CREATOR, tmp_file_space=Iface(DirFileSpaceI)), returns=Iface(PathI),
           ensures={'the new file holds exactly what the program wrote to stderr':
                    lambda self, result: file_stored(result) == prog_txt(self),
                    'returns only if the exit code is 0': lambda self: prog_exit(self) == 0},
           raises_only=(HardErrorException,))
