"""C14 (extension T14) -- texts that are the OUTPUT OF A PROGRAM: `impls/types/string_source/command_output/*` and the
contents classes of `transformed_by_program`.

These are `ContentsViaWriteTo` / `ContentsViaFile` whose writer / file creator starts a child process that is GIVEN THE
OPEN FILE and writes through its descriptor.  The write model (pyvc/textio.py `BufferedOutI`, `child_writes`): an
output has the ghost `written` (what the file holds once everything is flushed, in that order) and its unflushed
suffix `pending`; a child process writes its text after what has been FLUSHED -- what Python wrote before and did not
flush ends up AFTER the child's text (the defect fixed by 2ed9b4b: `output.flush()` before the process is started).

The program is the environment: a command has ghost denotations `OUT(stdin text)`, `ERR(stdin text)`, `EXIT(stdin
text)` -- the texts it writes to stdout / stderr and its exit code are functions of the text it reads (a program
whose output varies over time is outside the property: that is what freeze() is for; same assumption as SSCI.txt).

Proved here: every writer / file creator appends EXACTLY the program's text to the output it is given (so it
implements `WriterI` of contracts/C14_text_value.py with txt := that text), returns only when the exit code is
acceptable, and lets nothing but HardErrorException escape; and the contents classes over these REAL writers satisfy
the interface contract I_SSC (as_str / as_lines / as_file / write_to see one text, re-readable)."""
import subprocess

try:
    import z3
except ImportError:      # replays run under the repository's interpreter, without z3
    z3 = None

from pyvc import textio
from pyvc.api import (Module, Interface, Method, Iface, Inst, Int, Bool, Str, Opt, Const, Union, ListOf, Any_,
                      InPlaceBy, new_opaque)
from pyvc.textio import PathI, TextOutI, TextFileI, BufferedOutI
from pyvc.values import Opaque, to_z3, wrap
from contracts.common import implies, iff, is_opaque
from contracts.text_spec import is_split_nl
from contracts.C14_text_value import (txt_of, implements_i_ssc, DirFileSpaceI, SSC, file_text, file_stored, written, decoded, ctx_lines, _res,
                                      SPOOLED, sio_value, spooled_ok, _havoc_spooled)
from exactly_lib.util.file_utils import spooled_file

from exactly_lib.impls.types.string_source.command_output import exit_ignored, exit_relevant
from exactly_lib.impls.types.string_source.contents import contents_via_write_to, contents_via_file
from exactly_lib.impls.types.utils.command_w_stdin import CommandWStdin
from exactly_lib.test_case.command_executor import CommandExecutor
from exactly_lib.test_case.hard_error import HardErrorException
from exactly_lib.type_val_prims.program.command import Command
from exactly_lib.util.process_execution.execution_elements import ProcessExecutionSettings

M = Module('C14')

P_EXI = 'exactly_lib.impls.types.string_source.command_output.exit_ignored'
P_EXR = 'exactly_lib.impls.types.string_source.command_output.exit_relevant'
P_CVWT = 'exactly_lib.impls.types.string_source.contents.contents_via_write_to'
P_CVF = 'exactly_lib.impls.types.string_source.contents.contents_via_file'
P_CWCP = 'exactly_lib.impls.types.string_source.contents.contents_with_cached_path'


# ============================================================================== the environment: programs, executor, stdin

class StructureI(Interface):
    """a structure renderer / builder (only handed on to error messages)"""
    methods = {'build': Method(returns=Any_), 'render': Method(returns=Any_)}


class CommandI(Interface):
    """A command = a program: what it writes and how it exits are functions of the text it reads."""
    target_class = Command
    methods = {'OUT': Method(returns=Str, pure=True), 'ERR': Method(returns=Str, pure=True),
               'EXIT': Method(returns=Int, pure=True),
               'new_structure_builder': Method(returns=Iface(StructureI)), 'structure': Method(returns=Any_)}


class StdinPartsI(Interface):
    """the stdin parts of a command (a sequence of sources): ghost `txt`, the concatenation of their texts
    (that as_stdin.of_sequence gives a file with that text is C10 / the concatenation part of C14)"""
    attrs = {'txt': Str}


class StdinFileI(Interface):
    """the open file a process reads its stdin from: ghost `txt`"""
    attrs = {'txt': Str}


class _StdinCtx:
    """ContextManager[ProcessExecutionFile] of as_stdin: gives the file, does not swallow exceptions"""

    def __init__(self, f):
        self.f = f

    def __enter__(self):
        return self.f

    def __exit__(self, *exc):
        return None


def _of_sequence(interp, args, kwargs):
    parts = _res(interp, args[0])
    f = new_opaque(interp, StdinFileI, parts._pv_uid + '.as-stdin')
    f._pv_attrs['txt'] = interp.reg.opaque_getattr(interp, parts, 'txt')
    return _StdinCtx(f)


from exactly_lib.impls.types.string_source import as_stdin          # noqa: E402

M.model(as_stdin.of_sequence, _of_sequence)
M.trust('as_stdin.of_sequence(parts, mem_buff_size) gives a context manager for an open file that holds the '
        'concatenated texts of the parts (ghost `txt` of the parts; the construction itself -- concat + as_file -- is '
        'under contract in contracts/C14_text_value.py / C10)')


def _text_read_from(interp, f):
    """the text a child process reads from what it is given as stdin"""
    f = _res(interp, f)
    if isinstance(f, textio.STextReader):
        return wrap(f.text)
    if isinstance(f, Opaque) and f._pv_iface is StdinFileI:
        return interp.reg.opaque_getattr(interp, f, 'txt')
    if isinstance(f, int) and f == subprocess.DEVNULL:
        return ''
    from pyvc.path import Unsupported
    raise Unsupported('stdin of a process: %r' % (f,))


def _std_files(files):
    return files.stdin, files.output.out, files.output.err


def _mk_hard_error(interp):
    from pyvc.values import OpaqueVal
    return HardErrorException(OpaqueVal(interp.st.fresh_name('hard-error-message')))


def _execute(interp, self, args, kwargs):
    """CommandExecutor.execute(command, settings, files): the process cannot be started / times out (HardErrorException,
    nothing written), or it runs: it reads its stdin, writes OUT / ERR of that text THROUGH THE DESCRIPTORS of the
    files it is given (pyvc.textio.child_writes) and the exit code is returned."""
    from pyvc.interp import PyRaise
    from pyvc.path import Unsupported
    command, settings, files = list(args) + [kwargs[k] for k in ('command', 'settings', 'files')[len(args):]]
    command = _res(interp, command)
    if interp.st.choose(2) == 1:
        raise PyRaise(_mk_hard_error(interp))
    stdin_f, out_f, err_f = interp.call(_std_files, [files])
    t = _text_read_from(interp, stdin_f)
    for f, what in ((out_f, 'OUT'), (err_f, 'ERR')):
        f = _res(interp, f)
        if isinstance(f, int) and f == subprocess.DEVNULL:
            continue
        if isinstance(f, spooled_file.SpooledTextFile):
            # subprocess asks the file for its descriptor: the REAL `fileno()` rolls the buffer over to disk
            # (contract of `_rollover`); the child then writes through the descriptor of the file on disk
            interp.call(interp.getattr(f, 'fileno'), [], {})
            f = _res(interp, f._file)
        if not isinstance(f, Opaque):
            raise Unsupported('a process is given %r as an output file' % (f,))
        textio.child_writes(interp, f, interp.reg.call_opaque(interp, command, what, [t], {}))
    return interp.reg.call_opaque(interp, command, 'EXIT', [t], {})


class ExecutorI(Interface):
    target_class = CommandExecutor
    methods = {'execute': Method(model=_execute)}


class TextReaderI(Interface):
    """TextFromFileReader for error messages: reads (an initial part of) the given file"""
    methods = {'read': Method(returns=Str)}


SETTINGS = Inst(ProcessExecutionSettings, _tuple=[Opt(Int), Opt(Any_)])
COMMAND_W_STDIN = Inst(CommandWStdin, command=Iface(CommandI), stdin=Iface(StdinPartsI))

M.contract('exactly_lib.impls.types.utils.command_w_stdin:CommandWStdin.structure', trusted=True,
           params=dict(self=Any_), returns=Any_)
M.trust('CommandWStdin.structure() only builds the description of the command for an error message (no text is read)')

M.assume('a program is constant: the texts a command writes to stdout / stderr and its exit code are functions of the '
         'text it reads from stdin (CommandI.OUT / ERR / EXIT); a process that cannot be started or times out is a '
         'HardErrorException of CommandExecutor.execute and writes nothing; the child process writes through the '
         'descriptor of the file it is given, i.e. after what has been flushed (pyvc/textio.py child_writes)')


# ============================================================================== the text of a writer / file creator

def prog_stdin(w):
    return w._command.stdin.txt


def prog_txt(w):
    """the text a program writer / file creator produces (raw: as it is written to the file)"""
    if isinstance(w, exit_ignored.StderrWriter):
        return w._command.command.ERR(prog_stdin(w))
    if isinstance(w, (exit_ignored.StdoutWriter, exit_relevant.StdoutWriter)):
        return w._command.command.OUT(prog_stdin(w))
    if isinstance(w, exit_relevant.StderrFileCreator):
        return w._command.command.ERR(prog_stdin(w))
    if type(w).__name__ == '_WriterOfTransformed':
        return writer_of_transformed_txt(w)
    raise ValueError('prog_txt: unexpected class %r' % (type(w),))


def prog_exit(w):
    return w._command.command.EXIT(prog_stdin(w))


def _writer_shape(cls, **extra):
    return Inst(cls, _command=COMMAND_W_STDIN, _proc_exe_settings=SETTINGS, _command_executor=Iface(ExecutorI), **extra)


EXIT_IGNORED_WRITER = Union(_writer_shape(exit_ignored.StdoutWriter), _writer_shape(exit_ignored.StderrWriter))
EXIT_RELEVANT_WRITER = _writer_shape(exit_relevant.StdoutWriter, _stderr_msg_reader=Iface(TextReaderI))
STDERR_FILE_CREATOR = _writer_shape(exit_relevant.StderrFileCreator, _stderr_msg_reader=Iface(TextReaderI))


def _havoc_out(interp, out, tag):
    """what an output holds after a callee has written to it: arbitrary (the ensures say what)"""
    g = out._pv_ghost
    t = interp.st.fresh_str(tag + '.written')
    if 'path' in g:
        textio.set_stored(interp, g['path'], t)
        k = interp.st.fresh_int(tag + '.pos')
        interp.st.assume(z3.And(k >= 0, k <= z3.Length(t)))
        g['pos'] = k
    else:
        g['written'] = t
        if 'pending' in g or (isinstance(out._pv_iface, type) and issubclass(out._pv_iface, BufferedOutI)):
            p = interp.st.fresh_str(tag + '.pending')
            interp.st.assume(z3.SuffixOf(p, t))
            g['pending'] = p


def out_written(out):
    """what has been written to an output: a TextIO with a buffer, or a SpooledTextFile (frozen__from_write)"""
    if is_opaque(out):
        return written(out)
    # (not `spooled_written`: that observation flushes the file object, which is exactly what the writer has to do)
    return sio_value(out._file) if out._path is None else file_stored(out._path)


def _havoc_any_out(interp, out, tag):
    if isinstance(out, spooled_file.SpooledTextFile):
        return _havoc_spooled(interp, out, tag)
    return _havoc_out(interp, out, tag)


ANY_OUT = Union(Iface(BufferedOutI), SPOOLED)
_SPOOLED_OK = 'a SpooledTextFile is left on disk, in a state from which writing goes on at the end (spooled_ok)'


def _spooled_left_ok(out):
    """... and it is ON DISK: the child process was given its descriptor (`fileno()` rolls the buffer over)"""
    return is_opaque(out) or (spooled_ok(out) and out._path is not None)


_APPENDS = 'appends exactly the text of the program (what was written before is flushed before the child writes)'

M.contract(P_EXI + ':_WriterBase.write',
           params=dict(self=EXIT_IGNORED_WRITER, tmp_file_space=Iface(DirFileSpaceI), output=ANY_OUT),
           old=lambda output: out_written(output),
           modifies={'output': InPlaceBy(_havoc_any_out)},
           ensures={_APPENDS: lambda self, output, old: out_written(output) == old + prog_txt(self),
                    _SPOOLED_OK: lambda output: _spooled_left_ok(output)},
           may_raise=(HardErrorException,), raises_only=(HardErrorException,))

M.contract(P_EXR + ':StdoutWriter.write',
           params=dict(self=EXIT_RELEVANT_WRITER, tmp_file_space=Iface(DirFileSpaceI), output=ANY_OUT),
           old=lambda output: out_written(output),
           modifies={'output': InPlaceBy(_havoc_any_out)},
           ensures={_APPENDS: lambda self, output, old: out_written(output) == old + prog_txt(self),
                    _SPOOLED_OK: lambda output: _spooled_left_ok(output),
                    'returns only if the exit code is 0': lambda self: prog_exit(self) == 0},
           may_raise=(HardErrorException,), raises_only=(HardErrorException,))

M.contract(P_EXR + ':StderrFileCreator.create',
           params=dict(self=STDERR_FILE_CREATOR, tmp_file_space=Iface(DirFileSpaceI)), returns=Iface(PathI),
           ensures={'the new file holds exactly what the program wrote to stderr':
                    lambda self, result: file_stored(result) == prog_txt(self),
                    'returns only if the exit code is 0': lambda self: prog_exit(self) == 0},
           may_raise=(HardErrorException,), raises_only=(HardErrorException,))


# ============================================================================== transformed by a program (`run`, `-transformed-by PROGRAM`)
# transformed_by_program: ContentsViaWriteTo over `_WriterOfTransformed(_TransformationWriter(...).write, contents of
# the model)`.  The program reads the FILE of the model (C14: it decodes to the model's text) and is given the open
# output file as stdout: the text is OUT(text of the model).

from exactly_lib.impls.types.string_transformer.impl.sources import transformed_by_program as tbp            # noqa: E402
from exactly_lib.impls.types.string_transformer.impl.sources import transformed_string_sources as tss_impl  # noqa: E402
from exactly_lib.test_case.app_env import ApplicationEnvironment                                            # noqa: E402
from exactly_lib.test_case.os_services import OsServices                                                    # noqa: E402

P_TBP = 'exactly_lib.impls.types.string_transformer.impl.sources.transformed_by_program'
P_TSSI = 'exactly_lib.impls.types.string_transformer.impl.sources.transformed_string_sources'


class OsServicesI(Interface):
    target_class = OsServices
    attrs = {'command_executor': Iface(ExecutorI)}


M.contract('exactly_lib.common.err_msg.std_err_contents:InitialPartReaderWithRestIndicator.read', trusted=True,
           params=dict(self=Any_, f=Any_), returns=Str)
M.trust('std_err_contents.InitialPartReaderWithRestIndicator.read only reads (an initial part of) the given open file, '
        'for an error message')

APP_ENV = Inst(ApplicationEnvironment, _os_services=Iface(OsServicesI), _process_execution_settings=SETTINGS,
               _tmp_files_space=Iface(DirFileSpaceI), _mem_buff_size=Int)
TRANSFORMATION_WRITER = Inst(tbp._TransformationWriter, environment=APP_ENV, _ignore_exit_code=Bool,
                             transformer=Iface(CommandI))


def transformed_txt(tw, source):
    """what the transforming program writes: OUT of the text of the source (which it reads from the source's file)"""
    return tw.transformer.OUT(source.txt)


M.contract(P_TBP + ':_TransformationWriter.write',
           params=dict(self=TRANSFORMATION_WRITER, source=SSC, output=ANY_OUT),
           old=lambda output: out_written(output),
           modifies={'output': InPlaceBy(_havoc_any_out)},
           ensures={_APPENDS: lambda self, source, output, old: out_written(output) == old + transformed_txt(self, source),
                    _SPOOLED_OK: lambda output: _spooled_left_ok(output),
                    'returns only if the exit code is 0 or ignored': lambda self, source:
                    self._ignore_exit_code or self.transformer.EXIT(source.txt) == 0},
           may_raise=(HardErrorException,), raises_only=(HardErrorException,))


def _mk_writer_of_transformed(interp, name):
    """_WriterOfTransformed as transformed_by_command makes it: the callable is the bound method `write` of a
    _TransformationWriter"""
    w = Inst(tss_impl._WriterOfTransformed, _source=SSC).make(interp, name)
    tw = TRANSFORMATION_WRITER.make(interp, name + '.tw')
    w._write_transformed = tw.write
    return w


from pyvc.api import Custom          # noqa: E402

WRITER_OF_TRANSFORMED = Custom(_mk_writer_of_transformed)


def writer_of_transformed_txt(w):
    return transformed_txt(w._write_transformed.__self__, w._source)


M.contract(P_TSSI + ':_WriterOfTransformed.write',
           params=dict(self=WRITER_OF_TRANSFORMED, tmp_file_space=Iface(DirFileSpaceI), output=ANY_OUT),
           old=lambda output: out_written(output),
           modifies={'output': InPlaceBy(_havoc_any_out)},
           ensures={_APPENDS: lambda self, output, old: out_written(output) == old + writer_of_transformed_txt(self),
                    _SPOOLED_OK: lambda output: _spooled_left_ok(output)},
           may_raise=(HardErrorException,), raises_only=(HardErrorException,))


# ============================================================================== the contents classes over the REAL writers
# txt := the program's text as decoded from the file it is stored in (every reader of these classes goes through
# that file), exactly as for ContentsViaWriteTo over an abstract writer in contracts/C14_text_value.py.
# Every read may end in HardErrorException (the program cannot be run / exits with a non-zero code where that
# matters): `raises_only=(HardErrorException,)`; the clauses are about the reads that return.

def _starter(c):
    if isinstance(c, contents_via_file.ContentsViaFile):
        return c._file_creator
    return c._writer


def raw_txt(c):
    """the text as the program writes it"""
    return prog_txt(_starter(c))


def prog_txt_of(c):
    """the text of contents that are the output of a program"""
    return decoded(raw_txt(c))


def prog_cached_path_ok(c):
    """class invariant: a cached path holds the text -- and, as it was made by the program, holds it as written"""
    return c._as_file_path is None or (file_text(c._as_file_path) == prog_txt_of(c)
                                       and file_stored(c._as_file_path) == raw_txt(c))


PROGRAM_WRITER = Union(EXIT_IGNORED_WRITER, EXIT_RELEVANT_WRITER, WRITER_OF_TRANSFORMED)
CONTENTS_VIA_PROGRAM = Inst(contents_via_write_to.ContentsViaWriteTo, _invariant=prog_cached_path_ok,
                            _tmp_file_space=Iface(DirFileSpaceI), _writer=PROGRAM_WRITER, _file_name=Opt(Str),
                            _as_file_path=Opt(Iface(PathI)))
CONTENTS_VIA_STDERR_FILE = Inst(contents_via_file.ContentsViaFile, _invariant=prog_cached_path_ok,
                                _ContentsViaFile__tmp_file_space=Iface(DirFileSpaceI),
                                _file_creator=STDERR_FILE_CREATOR, _as_file_path=Opt(Iface(PathI)))


def _reread(at=None):
    if at is None:
        d = {'re-readable: the text is what it was before (output of the program)': lambda self, old: prog_txt_of(self) == old}
    else:
        d = {'re-readable: the text is what it was before (output of the program)': lambda self, old: prog_txt_of(self) == old[at]}
    d['re-readable: the class invariant holds afterwards (output of the program)'] = lambda self: prog_cached_path_ok(self)
    return d


for _q, _shape in ((P_CVWT + ':ContentsViaWriteTo', CONTENTS_VIA_PROGRAM), (P_CVF + ':ContentsViaFile', CONTENTS_VIA_STDERR_FILE)):
    M.contract(_q + '.as_str', params=dict(self=_shape), inline=True,
               old=lambda self: prog_txt_of(self),
               ensures={'as_str == txt (output of the program)': lambda self, result: result == prog_txt_of(self),
                        **_reread()},
               raises_only=(HardErrorException,))
    M.contract(_q + '.as_lines', params=dict(self=_shape), inline=True,
               old=lambda self: prog_txt_of(self),
               ensures={'lines == split_nl(txt) (output of the program)':
                        lambda self, yielded: is_split_nl(ctx_lines(yielded), prog_txt_of(self)),
                        **_reread()},
               raises_only=(HardErrorException,))
    M.contract(_q + '.tmp_file_space', params=dict(self=_shape), inline=True,
               ensures={'the space it was given': lambda self, result: is_opaque(result)}, raises_only=())

M.contract(P_CVF + ':ContentsViaFile.write_to', params=dict(self=CONTENTS_VIA_STDERR_FILE, output=ANY_OUT),
           inline=True, old=lambda self, output: (out_written(output), prog_txt_of(self)),
           ensures={'appends txt (output of the program)':
                    lambda self, output, old: out_written(output) == old[0] + prog_txt_of(self),
                    'a SpooledTextFile is left in a state from which writing goes on at the end (spooled_ok)':
                    lambda output: is_opaque(output) or spooled_ok(output),
                    **_reread(at=1)},
           raises_only=(HardErrorException,))

M.contract(P_CVWT + ':ContentsViaWriteTo.write_to', params=dict(self=CONTENTS_VIA_PROGRAM, output=ANY_OUT),
           inline=True, old=lambda self, output: (out_written(output), prog_txt_of(self), self._as_file_path),
           ensures={'once the file exists: appends txt (output of the program)':
                    lambda self, output, old: old[2] is None or out_written(output) == old[0] + prog_txt_of(self),
                    'before the file exists: appends the text as the program writes it':
                    lambda self, output, old: old[2] is not None or out_written(output) == old[0] + raw_txt(self),
                    'a SpooledTextFile is left in a state from which writing goes on at the end (spooled_ok)':
                    lambda output: is_opaque(output) or spooled_ok(output),
                    **_reread(at=1)},
           raises_only=(HardErrorException,))

M.contract(P_CWCP + ':ContentsWithCachedPathFromWriteToBase._to_file', params=dict(self=CONTENTS_VIA_PROGRAM), inline=True,
           requires=lambda self: self._as_file_path is None,        # the only caller: as_file, when nothing is cached
           ensures={'file decodes to txt (output of the program)': lambda self, result: file_text(result) == prog_txt_of(self),
                    'the file stores the text as the program wrote it': lambda self, result: file_stored(result) == raw_txt(self)},
           raises_only=(HardErrorException,))

M.contract(P_CVF + ':ContentsViaFile._to_file', params=dict(self=CONTENTS_VIA_STDERR_FILE), inline=True,
           requires=lambda self: self._as_file_path is None,
           ensures={'file decodes to txt (output of the program)': lambda self, result: file_text(result) == prog_txt_of(self),
                    'the file stores the text as the program wrote it': lambda self, result: file_stored(result) == raw_txt(self)},
           raises_only=(HardErrorException,))

M.contract(P_CWCP + ':StringSourceContentsWithCachedPath.as_file',
           params=dict(self=Union(CONTENTS_VIA_PROGRAM, CONTENTS_VIA_STDERR_FILE)), inline=True,
           old=lambda self: (prog_txt_of(self), self._as_file_path),
           ensures={'file decodes to txt (output of the program)': lambda self, result: file_text(result) == prog_txt_of(self),
                    'the path is cached (output of the program)': lambda self, result: self._as_file_path is result,
                    'the file is made once: a cached path is kept (the program is run once)': lambda self, result, old:
                    old[1] is None or result is old[1],
                    'a new file stores the text as the program wrote it': lambda self, result, old:
                    old[1] is not None or file_stored(result) == raw_txt(self),
                    **_reread(at=0)},
           raises_only=(HardErrorException,))


# ============================================================================== construction: the objects are in the proved shapes

from pyvc.api import EnumOf          # noqa: E402
from exactly_lib.impls.types.string_source.command_output import string_source as cmd_string_source          # noqa: E402
from exactly_lib.util.process_execution.process_output_files import ProcOutputFile                           # noqa: E402

P_CSS = 'exactly_lib.impls.types.string_source.command_output.string_source'


def _is_program_contents(c):
    """one of the contents classes proved above over one of the writers / file creators proved above"""
    if type(c) is contents_via_file.ContentsViaFile:
        return type(c._file_creator) is exit_relevant.StderrFileCreator
    return type(c) is contents_via_write_to.ContentsViaWriteTo \
        and type(c._writer) in (exit_ignored.StdoutWriter, exit_ignored.StderrWriter, exit_relevant.StdoutWriter)


def channel_txt(channel, command):
    """what the program writes to the captured channel"""
    t = command.stdin.txt
    return command.command.ERR(t) if channel is ProcOutputFile.STDERR else command.command.OUT(t)


M.contract(P_CSS + ':_contents',
           params=dict(ignore_exit_code=Bool, output_channel_to_capture=EnumOf(ProcOutputFile), command=COMMAND_W_STDIN,
                       proc_exe_settings=SETTINGS, command_executor=Iface(ExecutorI), tmp_file_space=Iface(DirFileSpaceI)),
           ensures={'implements I_SSC: one of the classes / writers proved above, nothing cached (the class invariant holds)':
                    lambda result: _is_program_contents(result) and result._as_file_path is None
                    and prog_cached_path_ok(result),
                    'its text is what the program writes to the captured channel':
                    lambda output_channel_to_capture, command, result:
                    raw_txt(result) == channel_txt(output_channel_to_capture, command),
                    'the exit code matters unless it is to be ignored': lambda ignore_exit_code, result:
                    ignore_exit_code == (type(_starter(result)) in (exit_ignored.StdoutWriter, exit_ignored.StderrWriter))},
           raises_only=())


# ============================================================================== freezing the output of a program
# `_FreezingStringSourceContents._new_frozen` -> frozen__from_write(size, _ContentsWriter(contents), ...): the writer
# is given a SpooledTextFile.  A program writer hands it to the child process: subprocess asks for `fileno()`, the REAL
# SpooledTextFile rolls over to disk (whatever the size of the buffer) and the child writes into the file on disk.
# So -- other than for writers that only call write / writelines (contracts/C14_text_value.py, where that branch is
# infeasible) -- a SHORT output of a program is frozen as `_StringSourceContentsOfConstStrAndExistingPath`.

from exactly_lib.impls.types.string_source import cached_frozen          # noqa: E402
from exactly_lib.impls.types.string_source.contents import frozen, contents_of_str          # noqa: E402

PROGRAM_CONTENTS_WRITER = Inst(cached_frozen._ContentsWriter,
                               _contents=Union(CONTENTS_VIA_PROGRAM, CONTENTS_VIA_STDERR_FILE))

M.contract('exactly_lib.impls.types.string_source.contents.frozen:frozen__from_write',
           params=dict(mem_buff_size=Int, writer=PROGRAM_CONTENTS_WRITER, tmp_file_space=Iface(DirFileSpaceI),
                       file_name=Opt(Str)),
           requires=lambda mem_buff_size: mem_buff_size >= 1,
           old=lambda writer: (prog_txt_of(writer._contents), writer._contents._as_file_path),
           ensures={
               'the frozen text is the text of the program output, whatever the size of the buffer':
               lambda writer, result, old: txt_of(result) == old[0],
               'implements I_SSC (frozen output of a program)': lambda result: implements_i_ssc(result),
               'the program is not run again when its output is in a file already': lambda writer, old:
               old[1] is None or writer._contents._as_file_path is old[1],
               'output that the program itself wrote is frozen on disk (a short one: as string and file)':
               lambda writer, result, old: old[1] is not None or isinstance(writer._contents, contents_via_file.ContentsViaFile)
               or not isinstance(result, contents_of_str.ContentsOfStr),
           },
           may_raise=(HardErrorException,), raises_only=(HardErrorException,))


# ============================================================================== construction of the transformed source

def _mk_write_of_transformation_writer(interp, name):
    return TRANSFORMATION_WRITER.make(interp, name + '.tw').write


from contracts.C14_text_value import SS          # noqa: E402

M.contract(P_TSSI + ':transformed_string_source_from_writer',
           params=dict(write=Custom(_mk_write_of_transformation_writer), model=SS, get_transformer_structure=Any_,
                       mem_buff_size=Int, file_name=Opt(Str)),
           ensures={
               'a source that is not frozen, with contents of the class proved above, nothing cached':
               lambda result: type(result) is cached_frozen.StringSourceWithCachedFrozen and not result._is_frozen
               and type(result.contents()) is contents_via_write_to.ContentsViaWriteTo
               and result.contents()._as_file_path is None and prog_cached_path_ok(result.contents()),
               'the writer is the given one, over the contents of the model': lambda write, model, result:
               type(result.contents()._writer) is tss_impl._WriterOfTransformed
               and result.contents()._writer._write_transformed.__self__ is write.__self__
               and result.contents()._writer._source.txt == model.txt,
               'the text of the transformed source is what the program writes given the text of the model':
               lambda write, model, result:
               prog_txt_of(result.contents()) == decoded(write.__self__.transformer.OUT(model.txt)),
           },
           raises_only=())
