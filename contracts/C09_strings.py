"""C09 -- string syntax: quoting, concatenation, here-documents denote one exact string.
See DESIGN.md section 3 / C09 and notes/C09.md."""
from pyvc.api import (Module, Interface, Method, Iface, Inst, Int, Nat, Pos, Bool, Str, Opt, OneOf, Const, Union,
                      ListOf, FixedList, Any_, EnumOf, Custom)
from contracts.common import implies, iff, all_chars

from exactly_lib.symbol import symbol_syntax
from exactly_lib.section_document.element_parsers.instruction_parser_exceptions import \
    SingleInstructionInvalidArgumentException

M = Module('C09')

P_SYM = 'exactly_lib.symbol.symbol_syntax'


# ------------------------------------------------------------------------------ the documented syntax
# A symbol reference is  @[NAME]@  where NAME is a non-empty sequence of identifier characters
# (alphanumeric characters and '_').  `str.isalnum` on one character is an uninterpreted predicate of the
# engine whose value on every ASCII character is CPython's (so '@', '[' and ']' are known not to be
# identifier characters).

def ident_char(c):
    return c.isalnum() or c == '_'


def valid_name(name):
    return name != '' and all_chars(name, ident_char)


def render_ref(name):
    return '@[' + name + ']@'


# ------------------------------------------------------------------------------ symbol_syntax: names

M.contract(P_SYM + ':_is_identifier', params=dict(s=Str), returns=Bool, inline=True,
           ensures={'identifier-character': lambda s, result: result == ident_char(s)},
           raises_only=())

M.contract(P_SYM + ':symbol_reference_syntax_for_name', params=dict(name=Str), returns=Str,
           ensures={'rendering': lambda name, result: result == render_ref(name)}, raises_only=())

M.contract(P_SYM + ':is_symbol_name', params=dict(s=Str), returns=Bool,
           ensures={'non-empty-identifier-characters': lambda s, result: result == valid_name(s)},
           raises_only=())
M.loop(P_SYM + ':is_symbol_name', 0,
       invariant=lambda _i, s: 0 <= _i and _i <= len(s) and all_chars(s[:_i], ident_char),
       modifies=dict(i='local', ch='local'))

def ident_run(t):
    """the longest prefix of t that consists of identifier characters"""
    from itertools import takewhile
    return ''.join(takewhile(ident_char, t))


M.contract(P_SYM + ':_extract_symbol_name', params=dict(s=Str, start_idx=Nat),
           requires=lambda s, start_idx: start_idx <= len(s),
           returns=Str,
           ensures={
               'is-the-identifier-run': lambda s, start_idx, result: result == ident_run(s[start_idx:]),
               'is-prefix-of-rest': lambda s, start_idx, result:
               start_idx + len(result) <= len(s) and s[start_idx:start_idx + len(result)] == result,
               'identifier-characters': lambda s, start_idx, result:
               all_chars(result, ident_char) and all_chars(s[start_idx:start_idx + len(result)], ident_char),
               # why the search may continue after the name of a failed candidate: no delimiter character of a
               # reference is an identifier character, so no `@[` can start inside `[` + name
               'no-delimiter-inside': lambda result: '@' not in result and '[' not in result and ']' not in result,
               'maximal': lambda s, start_idx, result:
               start_idx + len(result) == len(s)
               or not ident_char(s[start_idx + len(result):start_idx + len(result) + 1]),
           },
           raises_only=())


# ------------------------------------------------------------------------------ symbol_syntax: whole-token references

def ref_shaped(token):
    """token is  @[ X ]@  for some string X (the two delimiters do not overlap)"""
    return len(token) >= 4 and token.startswith('@[') and token.endswith(']@')


M.contract(P_SYM + ':parse_symbol_reference__from_str', params=dict(token=Str), returns=Opt(Str),
           raises={SingleInstructionInvalidArgumentException: {
               'when': lambda token: ref_shaped(token) and not valid_name(token[2:len(token) - 2])}},
           ensures={
               'none-iff-not-a-reference': lambda token, result: (result is None) == (not ref_shaped(token)),
               'name-of-the-reference': lambda token, result:
               result is None or (token == render_ref(result) and valid_name(result)),
           },
           raises_only=())

M.contract(P_SYM + ':parse_maybe_symbol_reference', params=dict(unquoted_token_str=Str), returns=Opt(Str),
           ensures={
               'none-iff-not-a-valid-reference': lambda unquoted_token_str, result:
               (result is None) == (not (ref_shaped(unquoted_token_str)
                                         and valid_name(unquoted_token_str[2:len(unquoted_token_str) - 2]))),
               'name-of-the-reference': lambda unquoted_token_str, result:
               result is None or (unquoted_token_str == render_ref(result) and valid_name(result)),
           },
           raises_only=())


# ------------------------------------------------------------------------------ symbol_syntax: finding references

FOUND = FixedList(Int, Str, Str, as_tuple=True)


def ref_starts_at(s, k):
    """a symbol reference  @[NAME]@  starts at position k of s.  NAME is the maximal run of identifier
    characters after `@[` (']' is not an identifier character, so no shorter NAME can be followed by `]@`)."""
    if not (0 <= k and k + 2 <= len(s)):
        return False
    if s[k:k + 1] != '@':
        return False
    if s[k + 1:k + 2] != '[':
        return False
    name = ident_run(s[k + 2:])
    return name != '' and s.startswith(']@', k + 2 + len(name))


M.contract(P_SYM + ':_find_symbol_reference', params=dict(s=Str), returns=FOUND,
           ensures={
               'not-found-shape': lambda result: result[0] != -1 or (result[1] == '' and result[2] == ''),
               'conservation': lambda s, result:
               result[0] == -1 or (0 <= result[0] and s == s[:result[0]] + render_ref(result[1]) + result[2]),
               'valid-name': lambda result: result[0] == -1 or valid_name(result[1]),
           },
           raises_only=())
M.loop(P_SYM + ':_find_symbol_reference', 0,
       invariant=lambda s, sym_ref_pos:
       sym_ref_pos == -1 or (0 <= sym_ref_pos and sym_ref_pos + 2 <= len(s)
                             and s[sym_ref_pos:sym_ref_pos + 2] == '@['),
       modifies=dict(sym_ref_pos=Int, symbol_name='local', pos_after_symbol_name='local', rest='local'),
       decreases=lambda s, sym_ref_pos: len(s) - sym_ref_pos if sym_ref_pos != -1 else -1)


# ------------------------------------------------------------------------------ symbol_syntax: fragments
# The list of fragments of a string is described by measures (left folds, pyvc.api.Measure):
#   rendered   -- the string the fragments denote when every symbol fragment is written back as  @[name]@
#   well_formed -- every symbol fragment has a valid name, no constant fragment is empty
#   separated  -- (no two constant fragments are adjacent, the last fragment is a constant)

from pyvc.api import Measure, MListOf  # noqa: E402

FRAG = Inst(symbol_syntax.Fragment, value=Str, is_symbol=Bool)
FRAGMENTS = MListOf(FRAG)


def render(f):
    return render_ref(f.value) if f.is_symbol else f.value


def _rendered_step(acc, f):
    return acc + render(f)


def _well_formed_step(ok, f):
    return ok and (valid_name(f.value) if f.is_symbol else f.value != '')


def _separated_step(st, f):
    return (st[0] and not (st[1] and not f.is_symbol), not f.is_symbol)


def _symbol_count_step(n, f):
    return n + (1 if f.is_symbol else 0)


symbol_count = Measure('symbol_count', 0, _symbol_count_step, Nat)      # number of symbol fragments
rendered = Measure('rendered', '', _rendered_step, Str)
well_formed = Measure('well_formed', True, _well_formed_step, Bool)
separated = Measure('separated', (True, False), _separated_step, FixedList(Bool, Bool, as_tuple=True))

def single_fragment_link(frags):
    """when there is exactly one fragment the measures are those of that fragment (links the measures of a
    list that comes out of a contract to its element)"""
    return len(frags) != 1 or (rendered(frags) == render(frags[0])
                               and well_formed(frags) == _well_formed_step(True, frags[0]))


M.contract(P_SYM + ':_extract_fragment', params=dict(s=Str),
           requires=lambda s: s != '',
           returns=Union(FixedList(Str, FixedList(FRAG), as_tuple=True),
                         FixedList(Str, FixedList(FRAG, FRAG), as_tuple=True)),
           ensures={
               'conservation': lambda s, result: rendered(result[1]) + result[0] == s,
               'well-formed': lambda result: well_formed(result[1]),
               'separated': lambda result: separated(result[1])[0],
               'a-trailing-constant-ends-the-string': lambda result: (not separated(result[1])[1]) or result[0] == '',
               'progress': lambda s, result: len(result[0]) < len(s),
               'no-reference-syntax-no-symbols': lambda s, result: '@[' in s or symbol_count(result[1]) == 0,
           },
           raises_only=())

M.contract(P_SYM + ':split', params=dict(s=Str), old=lambda s: s, returns=FRAGMENTS,
           ensures={
               'conservation': lambda s, result: rendered(result) == s,
               'well-formed': lambda result: well_formed(result),
               'no-adjacent-constants': lambda result: separated(result)[0],
               'single-fragment': lambda result: single_fragment_link(result),
               'no-reference-syntax-no-symbols': lambda s, result: '@[' in s or symbol_count(result) == 0,
           },
           raises_only=())
M.loop(P_SYM + ':split', 0,
       invariant=lambda s, ret_val, old:
       ('@[' in old or symbol_count(ret_val) == 0)
       and rendered(ret_val) + s == old and well_formed(ret_val) and separated(ret_val)[0]
       and ((not separated(ret_val)[1]) or s == '') and single_fragment_link(ret_val),
       modifies=dict(s=Str, fragments='local', ret_val=FRAGMENTS),
       decreases=lambda s: len(s))


# ------------------------------------------------------------------------------ tokens (util/parse/token.py)

from exactly_lib.util.parse.token import Token, TokenType, QuoteType  # noqa: E402

P_TOK = 'exactly_lib.util.parse.token'


def token_wf(t):
    """the invariant of the tokens a TokenStream makes (TokenStream.consume): the source text is not empty and
    the type is QUOTED exactly when the source text starts with a quote character"""
    return t[2] != '' and ((t[0] is TokenType.QUOTED) == (t[2][0] == '"' or t[2][0] == "'"))


def hard_quoted(t):
    """the documented hard-quoted form: the token's source text starts with a single quote"""
    return t[0] is TokenType.QUOTED and t[2][0] == "'"


ANY_TOKEN = Inst(Token, _tuple=[EnumOf(TokenType), Str, Str])
TOKEN = Inst(Token, _tuple=[EnumOf(TokenType), Str, Str], _invariant=token_wf)

M.contract(P_TOK + ':Token.is_plain', params=dict(self=ANY_TOKEN), returns=Bool, inline=True,
           ensures={'type-is-PLAIN': lambda self, result: result == (self[0] is TokenType.PLAIN)}, raises_only=())
M.contract(P_TOK + ':Token.is_quoted', params=dict(self=ANY_TOKEN), returns=Bool, inline=True,
           ensures={'type-is-QUOTED': lambda self, result: result == (self[0] is TokenType.QUOTED)}, raises_only=())
M.contract(P_TOK + ':Token.quote_type', params=dict(self=ANY_TOKEN), returns=EnumOf(QuoteType), inline=True,
           raises={IndexError: {'when': lambda self: self[2] == ''}},
           ensures={'decided-by-first-source-character': lambda self, result:
           (result is QuoteType.SOFT) == (self[2][0] == '"') and (result is QuoteType.HARD) == (self[2][0] != '"')},
           raises_only=())
M.contract(P_TOK + ':Token.is_hard_quote_type', params=dict(self=ANY_TOKEN), returns=Bool, inline=True,
           raises={IndexError: {'when': lambda self: self[2] == ''}},
           ensures={'decided-by-first-source-character': lambda self, result: result == (self[2][0] == "'")},
           raises_only=())

# ------------------------------------------------------------------------------ parse_string

from exactly_lib.impls.types.string_ import parse_string  # noqa: E402
from exactly_lib.definitions.test_case import reserved_words  # noqa: E402
from exactly_lib.section_document.element_parsers.token_stream import TokenStream  # noqa: E402
from exactly_lib.type_val_deps.types.string_.string_sdv import StringSdv  # noqa: E402
from exactly_lib.util.either import Either  # noqa: E402

P_PS = 'exactly_lib.impls.types.string_.parse_string'


def fragments_of_token(token, result):
    """what the documented syntax says about the fragments of one token: no substitution inside hard quotes
    (exactly one constant fragment with the token's characters), otherwise the fragments of the token's
    characters according to the symbol-reference syntax"""
    if hard_quoted(token):
        return len(result) == 1 and (not result[0].is_symbol) and result[0].value == token[1]
    return (rendered(result) == token[1] and well_formed(result) and separated(result)[0]
            and single_fragment_link(result))


def naked_text(x):
    """a naked fragment: no white space (not modelled further here), no quote characters"""
    return x != '' and "'" not in x and '"' not in x


_MIXED_QUOTING_REPLAY = """
from exactly_lib.impls.types.string_ import parse_string
from exactly_lib.section_document.element_parsers.token_stream import TokenStream
bad = []
for src, expected in (("a'@[x]@'", [('a@[x]@', False)]),          # the reference is inside hard quotes
                      ("'a'@[x]@", [('a', False), ('x', True)])):  # the reference is outside the hard quotes
    actual = [(f.value, f.is_symbol) for f in parse_string.parse_fragments_from_tokens(TokenStream(src))]
    print('%r: fragments %r, the documented syntax gives %r' % (src, actual, expected))
    if actual != expected:
        bad.append(src)
sys.exit(1 if bad else 0)
"""

M.contract(P_PS + ':parse_fragments_from_token', params=dict(token=TOKEN), returns=FRAGMENTS,
           ghosts=dict(x=Str, y=Str),
           ensures={
               # what the code implements: the quoting of a token is decided by its first source character
               'fragments-of-the-token': lambda token, result: fragments_of_token(token, result),
               # what the property demands for adjacent fragments of different forms ("references are substituted
               # everywhere except inside hard quotes"), for arbitrary texts x, y.  Both are REFUTED on the
               # unchanged tree (known finding "mixed quoting"): the token is treated as a whole.
               #   x'y'  (a naked fragment without reference syntax, then a hard-quoted fragment): no symbol
               # (check-only: refuted clauses must not be assumed by callers)
               'no-substitution-inside-a-hard-quoted-fragment': (
                   lambda token, x, y, result:
                   not (token[2] == x + "'" + y + "'" and token[1] == x + y and naked_text(x) and '@[' not in x
                        and "'" not in y) or symbol_count(result) == 0, 'check-only'),
               #   'y'@[x]@  (a hard-quoted fragment, then a naked reference): the reference is a symbol fragment
               'substitution-outside-hard-quotes': (
                   lambda token, x, y, result:
                   not (token[2] == "'" + y + "'" + render_ref(x) and token[1] == y + render_ref(x)
                        and valid_name(x) and "'" not in y) or symbol_count(result) >= 1, 'check-only'),
           },
           replay=lambda model, rf: _MIXED_QUOTING_REPLAY,
           raises_only=())


def is_single_sym_ref(fragments):
    return len(fragments) == 1 and fragments[0].is_symbol


M.contract(P_PS + ':_is_single_sym_ref', params=dict(fragments=FRAGMENTS), returns=Opt(Str), inline=True,
           ensures={'name-iff-single-symbol': lambda fragments, result:
           (result is None) == (not is_single_sym_ref(fragments))
           and (result is None or result == fragments[0].value)},
           raises_only=())

EITHER = Inst(Either)   # only is_left()/left()/right() are used in clauses (real _Left/_Right objects in proofs)

M.contract(P_PS + ':parse_sym_ref_or_fragments_from_token', params=dict(token=TOKEN),
           ensures={
               'hard-quoted-is-one-constant': lambda token, result:
               (not hard_quoted(token)) or (result.is_right() and fragments_of_token(token, result.right())),
               'plain-single-reference-is-the-name': lambda token, result:
               hard_quoted(token) or (not result.is_left()) or (
                       token[0] is TokenType.PLAIN and token[1] == render_ref(result.left())
                       and valid_name(result.left())),
               'otherwise-the-fragments': lambda token, result:
               hard_quoted(token) or (not result.is_right()) or fragments_of_token(token, result.right()),
           },
           raises_only=())


# ------------------------------------------------------------------------------ fragments -> string sdv

def sdv_render(x):
    """the text a fragment sdv stands for, in the reference syntax (x: a StringFragmentSdv made by parse_string)"""
    return x.string_constant if x.is_string_constant else render_ref(x.symbol_name)


M.contract(P_PS + ':fragment_sdv_from_fragment', params=dict(fragment=FRAG, reference_restrictions=Any_),
           inline=True,
           ensures={
               'same-kind-same-text': lambda fragment, result:
               result.is_string_constant == (not fragment.is_symbol) and sdv_render(result) == render(fragment),
               'restrictions-of-the-reference': lambda fragment, reference_restrictions, result:
               (not fragment.is_symbol) or result.references[0].restrictions is reference_restrictions,
           },
           raises_only=())

M.contract(P_PS + ':string_sdv_from_fragments',
           params=dict(fragments=FRAGMENTS, reference_restrictions=Any_), ghosts=dict(k=Nat), inline=True,
           ensures={
               'one-sdv-per-fragment-in-order': lambda fragments, k, result:
               len(result.fragments) == len(fragments)
               and (k >= len(fragments) or (
                       result.fragments[k].is_string_constant == (not fragments[k].is_symbol)
                       and sdv_render(result.fragments[k]) == render(fragments[k]))),
           },
           raises_only=())


# ------------------------------------------------------------------------------ TokenStream above the lexer
# The representation: `_source` (the text), `_source_io` (a StringIO over it: only its position matters here),
# `_start_pos` (where the head token starts = `position`), `_head_token`, `_head_syntax_error_description`.
# `consume` (shlex.get_token interleaved with tell/seek) is the bounded stand-in at the end of this module;
# the functions below are proved with the assumed frame contract of `consume`.

import io  # noqa: E402
import shlex  # noqa: E402
from exactly_lib.section_document.element_parsers import token_stream as _ts  # noqa: E402
from exactly_lib.section_document.element_parsers.token_stream import LookAheadState  # noqa: E402

P_TS = 'exactly_lib.section_document.element_parsers.token_stream'


class StringIOI(Interface):
    """io.StringIO over the source text: a position that tell() reads and seek(p) sets."""
    target_class = io.StringIO
    attrs = {'pos': Nat, 'text': Str}      # text: the characters the stream was made over (never changes)
    methods = {
        'tell': Method(model=lambda interp, self, args, kwargs: interp.getattr(self, 'pos')),
        'seek': Method(model=lambda interp, self, args, kwargs: _seek_model(interp, self, args)),
    }


def _seek_model(interp, sio, args):
    from pyvc.interp import PyRaise
    if interp.branch(interp.compare(__import__('ast').Lt, args[0], 0)):
        raise PyRaise(ValueError('Negative seek position'))
    interp.setattr(sio, 'pos', args[0])
    return args[0]


def ts_inv(self):
    """representation invariant of TokenStream: positions inside the source; a head token and a pending syntax
    error exclude each other (consume sets a head token only when no error is pending, and sets the head to
    None when it records an error)"""
    return (self._start_pos <= len(self._source) and self._source_io.pos <= len(self._source)
            and (self._head_token is None or self._head_syntax_error_description is None
                 or self._head_syntax_error_description == ''))


TS = Inst(TokenStream, _source=Str, _source_io=Iface(StringIOI), _lexer=Any_, _start_pos=Nat,
          _head_syntax_error_description=Opt(Str), _head_token=Opt(TOKEN), _invariant=ts_inv)

# shlex.shlex(stream, posix=True): the real constructor is run (on the opaque stream), so the attribute values
# below are the defaults of the installed CPython, not a copy of them
M.model(shlex.shlex, lambda interp, args, kwargs: shlex.shlex(*args, **kwargs))
M.trust('shlex.shlex.__init__ (CPython): run natively to obtain the default lexer attributes')

_NEW_LEXER_REPLAY = """
from exactly_lib.section_document.element_parsers.token_stream import TokenStream
ts = TokenStream('a#b c')
lexer = ts._new_lexer()
print('commenters of the lexer:', repr(lexer.commenters))
print("TokenStream('a#b c'): head.string =", repr(ts.head.string), ' head.source_string =', repr(ts.head.source_string))
ts.consume()
print('after consuming the head: is_null =', ts.is_null, ' remaining_source =', repr(ts.remaining_source))
# the documented naked string  a#b  denotes the characters a#b, and c is the next argument
sys.exit(1 if (lexer.commenters != '' or ts.head is None or ts.head.string != 'c') else 0)
"""

M.contract(P_TS + ':TokenStream._new_lexer', params=dict(self=TS), inline=True,
           ensures={
               'posix-mode': lambda result: result.posix is True,
               'split-on-white-space-only': lambda result: result.whitespace_split is True,
               'no-escape-character': lambda result: result.escape == '',
               'both-quote-characters': lambda result: result.quotes == '\'"',
               'white-space': lambda result: result.whitespace == ' \t\r\n',
               # the documented syntax has no comments inside instructions: every non-white-space character of
               # the source must belong to a token.  REFUTED on the unchanged tree ('#' stays a commenter)
               'no-comment-characters': lambda result: result.commenters == '',
               'reads-the-source': lambda self, result: result.instream is self._source_io,
           },
           replay=lambda model, rf: _NEW_LEXER_REPLAY,
           raises_only=())


def current_line_rest(source, pos):
    """the text from pos up to (not including) the next line break, or to the end"""
    i = source.find('\n', pos)
    return source[pos:] if i == -1 else source[pos:i]


def is_current_line_rest(source, pos, text):
    """text == current_line_rest(source, pos), stated without `find` (for proofs)"""
    return ('\n' not in text and pos + len(text) <= len(source) and source[pos:pos + len(text)] == text
            and (pos + len(text) == len(source) or source[pos + len(text)] == '\n'))


M.contract(P_TS + ':TokenStream.remaining_source', params=dict(self=TS), returns=Str, inline=True,
           ensures={'from-the-position': lambda self, result: result == self._source[self._start_pos:]},
           raises_only=())
M.contract(P_TS + ':TokenStream.is_at_end', params=dict(self=TS), returns=Bool, inline=True,
           ensures={'position-is-the-length': lambda self, result: result == (self._start_pos == len(self._source))},
           raises_only=())
M.contract(P_TS + ':TokenStream.remaining_part_of_current_line', params=dict(self=TS), returns=Str,
           ensures={'up-to-the-line-break': lambda self, result:
           result == current_line_rest(self._source, self._start_pos)},
           raises_only=())
M.contract(P_TS + ':TokenStream.look_ahead_state', params=dict(self=TS), returns=EnumOf(LookAheadState),
           inline=True,
           ensures={
               'has-token-iff-head': lambda self, result:
               (result is LookAheadState.HAS_TOKEN) == (self._head_token is not None),
               'syntax-error-iff-description': lambda self, result:
               (result is LookAheadState.SYNTAX_ERROR) == (self._head_token is None and
                                                           self._head_syntax_error_description is not None and
                                                           self._head_syntax_error_description != ''),
           },
           raises_only=())
M.contract(P_TS + ':TokenStream._revert_reading_of_newline', params=dict(self=TS),
           requires=lambda self: self._source_io.pos >= 1,
           old=lambda self: self._source_io.pos,
           modifies={'self._source_io.pos': Nat},
           ensures={'steps-back-over-one-line-break': lambda self, old:
           self._source_io.pos == (old - 1 if self._source[old - 1] == '\n' else old)},
           raises_only=())

# assumed frame of `consume` (see the bounded stand-in): the new head starts where the lexer stood
def same_token(a, b):
    return (a is None) == (b is None) and (a is None or (a[0] is b[0] and a[1] == b[1] and a[2] == b[2]))


M.contract(P_TS + ':TokenStream.consume', params=dict(self=TS), trusted=True,
           old=lambda self: (self._source_io.pos, self._head_token, self._source),
           modifies={'self._start_pos': Nat, 'self._head_token': Opt(TOKEN),
                     'self._head_syntax_error_description': Opt(Str), 'self._lexer': Any_,
                     'self._source_io.pos': Nat},
           raises={_ts.TokenSyntaxError: {'when': lambda self: self._head_syntax_error_description is not None
                                          and self._head_syntax_error_description != ''}},
           returns=Opt(TOKEN),
           ensures={'start-pos-is-the-lexer-position': lambda self, old:
           self._start_pos == old[0] and old[0] <= self._source_io.pos and self._source_io.pos <= len(self._source),
                    'returns-the-old-head': lambda old, result: same_token(result, old[1]),
                    'invariant': lambda self: ts_inv(self),
                    'consume-event': (lambda self, old, trace: trace.append(('consume', self, old[1])), 'effect')})
M.trust('TokenStream.consume: raises TokenSyntaxError exactly when a syntax error description is pending (its first statement); the value returned is the head token as it was (`ret_val = self._head_token`); the next statement is `self._start_pos = self._source_io.tell()`; '
        'the lexer only moves forward and not beyond the end (frame contract; token boundaries: bounded stand-in)')

def blank(text):
    return text == '' or text.isspace()


def note_skipped_text(ghost, text):
    """Ghost monitor for callers that DISCARD the text this function returns (the list element loop): if the
    monitor variable exists it stays true only while every skipped text is blank or a lone continuation token `\\`
    (surrounded by white space only)."""
    if 'skipped_only_blank_or_continuation' in ghost:
        ghost['skipped_only_blank_or_continuation'] = (ghost['skipped_only_blank_or_continuation']
                                                       and (blank(text) or text.strip() == '\\'))


M.contract(P_TS + ':TokenStream._consume_remaining_part_of_current_line',
           params=dict(self=TS, do_forward_to_next_line=Bool),
           old=lambda self: (self._start_pos, self._source),
           modifies={'self._start_pos': Nat, 'self._head_token': Opt(TOKEN),
                     'self._head_syntax_error_description': Opt(Str), 'self._lexer': Any_,
                     'self._source_io.pos': Nat},
           returns=Str,
           ensures={
               'source-unchanged': lambda self, old: self._source == old[1],
               'invariant': lambda self: ts_inv(self),
               'returns-the-rest-of-the-line': lambda old, result: result == current_line_rest(old[1], old[0]),
               'advances-to-the-line-break-or-past-it': lambda self, do_forward_to_next_line, old, result:
               self._start_pos == (old[0] + len(result) if old[0] + len(result) == len(old[1])
                                   else old[0] + len(result) + (1 if do_forward_to_next_line else 0)),
               'skipped-text-monitor': (lambda ghost, result: note_skipped_text(ghost, result), 'effect'),
           },
           raises_only=())


# ------------------------------------------------------------------------------ here-documents

from exactly_lib.impls.types.string_ import parse_rich_string  # noqa: E402
from exactly_lib.section_document.element_parsers.token_stream_parser import TokenParser  # noqa: E402

P_RS = 'exactly_lib.impls.types.string_.parse_rich_string'

TP = Inst(TokenParser, _token_stream=TS, _first_line_number=Int, error_message_format_map=Any_)

LINES = MListOf(Str)


def _cat_nl_step(acc, line):
    return acc + line + '\n'


cat_nl = Measure('cat_nl', '', _cat_nl_step, Str)       # every line followed by a line break


def _none_equal_step(ok, line, marker):
    return ok and line != marker


none_equal = Measure('none_equal', True, _none_equal_step, Bool)     # none_equal(lines, marker)


def join_lemma(lines):
    """'\\n'.join(lines) + '\\n' is every line followed by a line break (true of every non-empty list; carried as
    an invariant where the list is built because the two are different folds)"""
    return len(lines) == 0 or '\n'.join(lines) + '\n' == cat_nl(lines)


def marker_line_at(source, start, p, marker):
    """position p (>= start) is the beginning of a line (start itself counts) whose text is exactly marker"""
    return (start <= p and p <= len(source) and (p == start or source[p - 1] == '\n')
            and current_line_rest(source, p) == marker)


def split_events(trace):
    return [e for e in trace if e[0] == 'split']


# the text that is split into fragments is recorded as a ghost event at every use of split's contract
M.contracts[[c.qname for c in M.contracts].index(P_SYM + ':split')].event = 'split'

M.contract(P_RS + ':_sdv_from_lines', params=dict(lines=LINES),
           requires=lambda lines: join_lemma(lines),
           returns=Any_,
           ensures={
               # proved of the body: exactly one string is split into fragments, namely ...
               'splits-the-lines-each-followed-by-a-line-break': (lambda lines, trace:
                                                                  len(split_events(trace)) == 1 and
                                                                  split_events(trace)[0][1]['s'] == cat_nl(lines),
                                                                  'check-only'),
               # ... which is what callers see as the ghost event of this call
               'split-event': (lambda lines, trace: trace.append(('split', {'s': cat_nl(lines), 'lines': lines})),
                               'effect'),
           },
           raises_only=())

_TS_FRAME = {'token_parser._token_stream._start_pos': Nat,
             'token_parser._token_stream._head_token': Opt(TOKEN),
             'token_parser._token_stream._head_syntax_error_description': Opt(Str),
             'token_parser._token_stream._lexer': Any_,
             'token_parser._token_stream._source_io.pos': Nat}


def _hd_pos(token_parser):
    return token_parser._token_stream._start_pos


def _hd_source(token_parser):
    return token_parser._token_stream._source


M.contract(P_RS + ':HereDocParser._parse_contents', params=dict(marker=Str, token_parser=TP),
           requires=lambda marker: '\n' not in marker,
           old=lambda token_parser: (_hd_pos(token_parser), _hd_source(token_parser)),
           modifies=_TS_FRAME,
           returns=Any_,
           raises={parse_rich_string.HereDocumentContentsParsingException: {
               # unterminated: everything was read
               'ensures': lambda token_parser, old: _hd_pos(token_parser) == len(old[1])}},
           ensures={
               'source-unchanged': lambda token_parser, old: _hd_source(token_parser) == old[1],
               'stops-at-the-end-of-a-marker-line': lambda marker, token_parser, old:
               marker_line_at(old[1], old[0], _hd_pos(token_parser) - len(marker), marker),
               # proved of the body: exactly one string is split into fragments, namely ...
               'contents-is-the-text-before-the-marker-line': (
                   lambda marker, token_parser, old, trace:
                   len(split_events(trace)) == 1
                   and split_events(trace)[0][1]['s'] == old[1][old[0]:_hd_pos(token_parser) - len(marker)],
                   'check-only'),
               # the marker line that ends the document is the FIRST line that is exactly the marker: the contents
               # are lines each followed by a line break (clause above + invariant), none of which is the marker
               'no-contents-line-is-the-marker': (
                   lambda marker, trace: none_equal(split_events(trace)[0][1]['lines'], marker)
                   and cat_nl(split_events(trace)[0][1]['lines']) == split_events(trace)[0][1]['s'], 'check-only'),
               # ... which is what callers see as the ghost event of this call
               'split-event': (lambda marker, token_parser, old, trace: trace.append(
                   ('split', {'s': old[1][old[0]:_hd_pos(token_parser) - len(marker)]})), 'effect'),
           },
           raises_only=())
M.loop(P_RS + ':HereDocParser._parse_contents', 0,
       invariant=lambda marker, token_parser, here_doc, old:
       _hd_source(token_parser) == old[1]
       and old[0] <= _hd_pos(token_parser) and _hd_pos(token_parser) <= len(old[1])
       and (cat_nl(here_doc) == old[1][old[0]:_hd_pos(token_parser)]
            or (_hd_pos(token_parser) == len(old[1])
                and cat_nl(here_doc) == old[1][old[0]:_hd_pos(token_parser)] + '\n'))
       and join_lemma(here_doc)
       and none_equal(here_doc, marker)
       and (cat_nl(here_doc) == '' or cat_nl(here_doc).endswith('\n')),
       modifies=dict(_TS_FRAME, here_doc=LINES, line='local'))


# ------------------------------------------------------------------------------ here-document header

import re  # noqa: E402
from exactly_lib.definitions.primitives import string as _string_defs  # noqa: E402
from exactly_lib.impls.types.string_.parse_rich_string import HereDocParser  # noqa: E402

P_TP = 'exactly_lib.section_document.element_parsers.token_stream_parser'

_HERE_DOC_TOKEN_PATTERN = '(<<)([0-9a-zA-Z_-]+)'


class _MarkerMatch:
    """result of re.fullmatch(HERE_DOCUMENT_TOKEN_RE, s): only group(1), group(2) are modelled"""

    def __init__(self, s):
        self.s = s

    def group(self, n):
        if n == 1:
            return self.s[:2]
        if n == 2:
            return self.s[2:]
        raise IndexError('no such group')


def _fullmatch_model(interp, args, kwargs):
    """re.fullmatch(HERE_DOCUMENT_TOKEN_RE, s): the pattern text is read from the real module; it must be the
    one this model was written for: '<<' followed by one or more of [0-9a-zA-Z_-]"""
    import z3
    from pyvc.path import Unsupported
    from pyvc.values import SStr, wrap
    pattern, s = args[0], args[1]
    if pattern is not _string_defs.HERE_DOCUMENT_TOKEN_RE or pattern.pattern != _HERE_DOC_TOKEN_PATTERN \
            or pattern.flags != re.compile('x').flags:
        raise Unsupported('re.fullmatch: only HERE_DOCUMENT_TOKEN_RE == %r is modelled' % _HERE_DOC_TOKEN_PATTERN)
    if isinstance(s, str):
        return None if re.fullmatch(pattern, s) is None else _MarkerMatch(s)
    cls = z3.Union(z3.Range('0', '9'), z3.Range('a', 'z'), z3.Range('A', 'Z'), z3.Re('_'), z3.Re('-'))
    lang = z3.Concat(z3.Re('<<'), z3.Plus(cls))
    if not interp.st.fork(wrap(z3.InRe(s.t, lang))):
        return None
    # consequences the string solvers do not have to rediscover
    interp.st.assume(z3.And(z3.PrefixOf(z3.StringVal('<<'), s.t), z3.Length(s.t) >= 3,
                            z3.Not(z3.Contains(s.t, z3.StringVal('\n')))))
    return _MarkerMatch(s)


M.model(re.fullmatch, _fullmatch_model)
M.trust("re.fullmatch(HERE_DOCUMENT_TOKEN_RE, s) for the pattern '(<<)([0-9a-zA-Z_-]+)' (read from the real module): "
        "matches exactly the language '<<'[0-9a-zA-Z_-]+ , group(2) == s[2:] (cross-checked natively, check "
        "'here-doc-token-regex')")


@M.check('here-doc-token-regex')
def _check_here_doc_regex(ctx):
    """the model of re.fullmatch above against CPython's re on all strings of length <= 5 over a small alphabet"""
    import itertools
    pat = _string_defs.HERE_DOCUMENT_TOKEN_RE
    ok = pat.pattern == _HERE_DOC_TOKEN_PATTERN
    alphabet = '<a9_-Z \n@é'
    allowed = set('0123456789abcdefghijklmnopqrstuvwxyzABCDEFGHIJKLMNOPQRSTUVWXYZ_-')
    bad = []
    for n in range(0, 6):
        for tup in itertools.product(alphabet, repeat=n):
            s = ''.join(tup)
            expected = s.startswith('<<') and len(s) >= 3 and all(c in allowed for c in s[2:])
            m = re.fullmatch(pat, s)
            if (m is not None) != expected or (m is not None and (m.group(2) != s[2:] or m.group(1) != '<<')):
                bad.append(s)
    ctx.obligation('re.fullmatch(HERE_DOCUMENT_TOKEN_RE, .) is the modelled language, group(2) == s[2:]',
                   ok and not bad, backend='enumeration', detail={'pattern': pat.pattern, 'mismatches': bad[:5]})


HDP = Inst(HereDocParser, _here_document_is_mandatory=Bool, _consume_last_line_if_is_at_eol_after_parse=Bool,
           _consume_last_line_if_is_at_eof_after_parse=Bool)


def valid_marker(m):
    return m != '' and all_chars(m, marker_char)


def marker_char(c):
    return c in '0123456789abcdefghijklmnopqrstuvwxyzABCDEFGHIJKLMNOPQRSTUVWXYZ_-'


M.contract(P_TP + ':TokenParser.report_superfluous_arguments_if_not_at_eol', params=dict(self=TP),
           old=lambda self: (self._token_stream._start_pos, self._token_stream._source),
           modifies={'self._token_stream._start_pos': Nat, 'self._token_stream._head_token': Opt(TOKEN),
                     'self._token_stream._head_syntax_error_description': Opt(Str),
                     'self._token_stream._lexer': Any_, 'self._token_stream._source_io.pos': Nat},
           raises={SingleInstructionInvalidArgumentException: {
               'when': lambda old: current_line_rest(old[1], old[0]).strip() != ''}},
           ensures={'nothing-consumed': lambda self, old:
           self._token_stream._start_pos == old[0] and self._token_stream._source == old[1]},
           raises_only=())

M.contract(P_RS + ':HereDocParser._parse_from_start_str',
           params=dict(self=HDP, here_doc_start=Str, token_parser=TP),
           old=lambda token_parser: (_hd_pos(token_parser), _hd_source(token_parser)),
           modifies=_TS_FRAME,
           raises={SingleInstructionInvalidArgumentException: {}},
           returns=Any_,
           ensures={
               'marker-syntax': lambda here_doc_start: here_doc_start.startswith('<<') and len(here_doc_start) >= 3,
               'rest-of-the-header-line-is-blank': lambda old: current_line_rest(old[1], old[0]).strip() == '',
               'contents-start-on-the-next-line-and-end-before-the-marker-line': (
                   lambda here_doc_start, token_parser, old, trace:
                   len(split_events(trace)) == 1 and
                   split_events(trace)[0][1]['s'] == old[1][old[0] + len(current_line_rest(old[1], old[0])) + 1:
                                                            _hd_pos(token_parser) - len(here_doc_start[2:])],
                   'check-only'),
               'split-event': (lambda here_doc_start, token_parser, old, trace: trace.append(
                   ('split', {'s': old[1][old[0] + len(current_line_rest(old[1], old[0])) + 1:
                                          _hd_pos(token_parser) - len(here_doc_start[2:])]})), 'effect'),
               'stops-at-the-end-of-the-marker-line': lambda here_doc_start, token_parser, old:
               current_line_rest(old[1], _hd_pos(token_parser) - len(here_doc_start[2:])) == here_doc_start[2:],
           },
           raises_only=())


# ------------------------------------------------------------------------------ parse_string on a token stream

CONF = Inst(parse_string.Configuration, argument_name=Str, reference_restrictions=Any_)

_TOKENS_FRAME = {'tokens._start_pos': Nat, 'tokens._head_token': Opt(TOKEN),
                 'tokens._head_syntax_error_description': Opt(Str), 'tokens._lexer': Any_,
                 'tokens._source_io.pos': Nat}


def consume_events(trace):
    return [e for e in trace if e[0] == 'consume']


M.contract(P_PS + ':parse_fragments_from_tokens__w_is_plain', params=dict(tokens=TS, conf=CONF),
           old=lambda tokens: (tokens._head_token, tokens._source_io.pos, tokens._head_syntax_error_description),
           modifies=_TOKENS_FRAME,
           raises={
               SingleInstructionInvalidArgumentException: {
                   'when': lambda old: old[0] is None or (old[0][0] is TokenType.PLAIN
                                                          and old[0][2] in reserved_words.RESERVED_TOKENS)},
           },
           returns=FixedList(Bool, FRAGMENTS, as_tuple=True),
           ensures={
               'is-plain': lambda old, result: result[0] == (old[0][0] is TokenType.PLAIN),
               'fragments-of-the-head-token': lambda old, result: fragments_of_token(old[0], result[1]),
               'consumes-exactly-one-token': (lambda tokens, trace:
                                              len(consume_events(trace)) == 1 and consume_events(trace)[0][1] is tokens,
                                              'check-only'),
               'next-head-starts-after-the-token': lambda tokens, old: tokens._start_pos == old[1],
               'consume-event': (lambda tokens, old, trace: trace.append(('consume', tokens, old[0])), 'effect'),
           },
           raises_only=())
M.contract(P_PS + ':parse_fragments_from_tokens', params=dict(tokens=TS, conf=CONF),
           old=lambda tokens: (tokens._head_token, tokens._source_io.pos),
           modifies=_TOKENS_FRAME,
           raises={SingleInstructionInvalidArgumentException: {
               'when': lambda old: old[0] is None or (old[0][0] is TokenType.PLAIN
                                                      and old[0][2] in reserved_words.RESERVED_TOKENS)}},
           returns=FRAGMENTS,
           ensures={'fragments-of-the-head-token': lambda old, result: fragments_of_token(old[0], result),
                    'next-head-starts-after-the-token': lambda tokens, old: tokens._start_pos == old[1],
                    'consume-event': (lambda tokens, old, trace: trace.append(('consume', tokens, old[0])), 'effect')},
           raises_only=())


# ------------------------------------------------------------------------------ string or symbol name; rich strings

from exactly_lib.impls.types.string_.parse_string import SymbolReferenceOrStringParser  # noqa: E402
from exactly_lib.impls.types.string_.parse_rich_string import SymbolNameOrStringRichStringParser  # noqa: E402

SROSP = Inst(SymbolReferenceOrStringParser, _conf=CONF)


def head_is_reserved(head):
    return head[0] is TokenType.PLAIN and head[2] in reserved_words.RESERVED_TOKENS


M.contract(P_PS + ':SymbolReferenceOrStringParser.parse', params=dict(self=SROSP, token_parser=TP),
           old=lambda token_parser: (token_parser._token_stream._head_token, token_parser._token_stream._source_io.pos),
           modifies=_TS_FRAME,
           raises={SingleInstructionInvalidArgumentException: {
               'when': lambda old: old[0] is None or head_is_reserved(old[0])}},
           returns=Any_,
           ensures={
               # a plain token that is exactly one reference gives the symbol name, everything else a string whose
               # fragments are those of the token (hard quoted: one constant)
               'symbol-name-only-for-a-plain-single-reference': (lambda old, result:
                                                                 (not result.is_left()) or (
                                                                         old[0][0] is TokenType.PLAIN
                                                                         and old[0][1] == render_ref(result.left())
                                                                         and valid_name(result.left())),
                                                                 'check-only'),
               'one-token-consumed': (lambda token_parser, old, trace:
                                      len(consume_events(trace)) == 1 and consume_events(trace)[0][2] is old[0],
                                      'check-only'),
               'next-head-starts-after-the-token': lambda token_parser, old: _hd_pos(token_parser) == old[1],
               'consume-event': (lambda token_parser, old, trace:
                                 trace.append(('consume', token_parser._token_stream, old[0])), 'effect'),
           },
           raises_only=())

M.contract(P_PS + ':parse_rest_of_line_as_single_string', params=dict(token_parser=TP, strip_space=Bool),
           old=lambda token_parser: (_hd_pos(token_parser), _hd_source(token_parser)),
           modifies=_TS_FRAME,
           returns=Any_,
           ensures={
               'text-until-end-of-line': (lambda strip_space, old, trace:
                                          len(split_events(trace)) == 1 and split_events(trace)[0][1]['s'] == (
                                              current_line_rest(old[1], old[0]).strip() if strip_space
                                              else current_line_rest(old[1], old[0])),
                                          'check-only'),
               'stops-at-the-line-break': lambda token_parser, old:
               _hd_pos(token_parser) == old[0] + len(current_line_rest(old[1], old[0]))
               and _hd_source(token_parser) == old[1],
               'split-event': (lambda strip_space, old, trace: trace.append(
                   ('split', {'s': current_line_rest(old[1], old[0]).strip() if strip_space
                   else current_line_rest(old[1], old[0])})), 'effect'),
           },
           raises_only=())


def _tp_state(token_parser):
    ts = token_parser._token_stream
    return ts._head_token, ts._source_io.pos, ts._source, ts._start_pos


def here_doc_body_events(old, token_parser, trace):
    """the one string that is split into fragments is the text between the line after the header token's line
    and the first line that is exactly the marker (the header token's characters after `<<`)"""
    marker = old[0][1][2:]
    header_rest = current_line_rest(old[2], old[1])
    return (len(split_events(trace)) == 1
            and split_events(trace)[0][1]['s'] == old[2][old[1] + len(header_rest) + 1:
                                                         _hd_pos(token_parser) - len(marker)])


M.contract(P_RS + ':HereDocParser.parse_from_token_parser', params=dict(self=HDP, token_parser=TP),
           old=lambda token_parser: _tp_state(token_parser),
           modifies=_TS_FRAME,
           raises={SingleInstructionInvalidArgumentException: {}},
           returns=Opt(Any_),
           ensures={
               'absent-only-if-optional-and-at-end-of-line': lambda self, token_parser, old, result:
               result is not None or ((not self._here_document_is_mandatory)
                                      and current_line_rest(old[2], old[3]).strip() == ''
                                      and _hd_pos(token_parser) == old[3]),
               'a-quoted-token-is-not-a-here-document': lambda old, result:
               result is None or (old[0] is not None and old[0][0] is TokenType.PLAIN),
               'marker-syntax': lambda old, result:
               result is None or (old[0][1].startswith('<<') and len(old[0][1]) >= 3),
               'rest-of-the-header-line-is-blank': lambda old, result:
               result is None or current_line_rest(old[2], old[1]).strip() == '',
               'contents': (lambda token_parser, old, result, trace:
                            result is None or here_doc_body_events(old, token_parser, trace), 'check-only'),
               'stops-at-the-end-of-the-marker-line': lambda token_parser, old, result:
               result is None or (current_line_rest(old[2], _hd_pos(token_parser) - len(old[0][1][2:]))
                                  == old[0][1][2:]),
               'split-event': (lambda token_parser, old, result, trace:
                               None if result is None else trace.append(
                                   ('split', {'s': old[2][old[1] + len(current_line_rest(old[2], old[1])) + 1:
                                                          _hd_pos(token_parser) - len(old[0][1][2:])]})), 'effect'),
           },
           raises_only=())


SNOSRSP = Inst(SymbolNameOrStringRichStringParser, _conf=CONF, _plain_string_parser=SROSP,
               _here_doc_parser=Inst(HereDocParser, _here_document_is_mandatory=Const(True),
                                     _consume_last_line_if_is_at_eol_after_parse=Bool,
                                     _consume_last_line_if_is_at_eof_after_parse=Bool),
               _consume_last_line_if_is_at_eol_after_parse=Bool, _consume_last_line_if_is_at_eof_after_parse=Bool)


def rich_string_form(head):
    """which documented form a rich string starting with token `head` has"""
    if head[0] is TokenType.PLAIN and head[2].startswith('<<'):
        return 'here-document'
    if head[0] is TokenType.PLAIN and head[1] == ':>':
        return 'text-until-end-of-line'
    return 'string'


M.contract(P_RS + ':SymbolNameOrStringRichStringParser.parse_from_token_parser',
           params=dict(self=SNOSRSP, token_parser=TP),
           old=lambda token_parser: _tp_state(token_parser),
           modifies=_TS_FRAME,
           raises={SingleInstructionInvalidArgumentException: {}},
           returns=Any_,
           ensures={
               'has-a-head-token': lambda old: old[0] is not None,
               # quoted tokens are strings, whatever they contain (so '<<EOF' and ":>" are ordinary strings)
               'string': (lambda token_parser, old, trace:
                          rich_string_form(old[0]) != 'string' or (
                                  len(consume_events(trace)) == 1 and consume_events(trace)[0][2] is old[0]
                                  and _hd_pos(token_parser) == old[1] and not head_is_reserved(old[0])),
                          'check-only'),
               'text-until-end-of-line': (lambda token_parser, old, trace:
                                          rich_string_form(old[0]) != 'text-until-end-of-line' or (
                                                  len(split_events(trace)) == 1
                                                  and split_events(trace)[0][1]['s']
                                                  == current_line_rest(old[2], old[1]).strip()
                                                  and _hd_pos(token_parser)
                                                  == old[1] + len(current_line_rest(old[2], old[1]))),
                                          'check-only'),
               'here-document': (lambda token_parser, old, trace:
                                 rich_string_form(old[0]) != 'here-document' or (
                                         here_doc_body_events(old, token_parser, trace)
                                         and current_line_rest(old[2], old[1]).strip() == ''
                                         and current_line_rest(old[2], _hd_pos(token_parser) - len(old[0][1][2:]))
                                         == old[0][1][2:]),
                                 'check-only'),
           },
           raises_only=())


# ------------------------------------------------------------------------------ bounded stand-in: the lexer
# TokenStream.__init__/consume interleave shlex.get_token with StringIO.tell/seek: shlex is a character-level
# state machine of the standard library whose contract *is* the property.  The real TokenStream is run on every
# source up to a bound over a small alphabet against the independent reader of the documented syntax below.

def reference_tokens(source):
    """The documented syntax (help: STRING): tokens are separated by white space; a token is one or more
    fragments side by side; a fragment is naked (characters other than white space and quotes), soft-quoted
    "..." or hard-quoted '...' (any characters, also line breaks, up to the next same quote character).
    There is no escape character and there are no comments inside instructions.
    Returns (tokens, error): tokens = [(string, source_string, start, end)], error = True when a quote is not
    terminated (the tokens before it are still returned)."""
    white = ' \t\r\n'
    quotes = '\'"'
    i, n = 0, len(source)
    tokens = []
    while True:
        while i < n and source[i] in white:
            i += 1
        if i == n:
            return tokens, False
        start = i
        chars = []
        while i < n and source[i] not in white:
            c = source[i]
            if c in quotes:
                j = source.find(c, i + 1)
                if j == -1:
                    return tokens, True
                chars.append(source[i + 1:j])
                i = j + 1
            else:
                chars.append(c)
                i += 1
        tokens.append((''.join(chars), source[start:i], start, i))


def _observe_token_stream(source):
    """runs the real TokenStream on source; returns a list of problems (empty = conforms)"""
    problems = []
    expected, expected_error = reference_tokens(source)
    ts = TokenStream(source)
    k = 0
    prev_end = 0
    while True:
        # --- position / remaining source: nothing of the consumed tokens, everything of the rest, and the line
        #     structure is kept: no line break between the previous token and the position is skipped
        pos = ts.position
        next_start = expected[k][2] if k < len(expected) else None
        if next_start is None and expected_error:
            next_start = len(source) - len(source[prev_end:].lstrip(' \t\r\n'))
        upper = next_start if next_start is not None else len(source)
        if not (prev_end <= pos <= upper):
            problems.append('position %d not in [%d, %d] before token %d' % (pos, prev_end, upper, k))
        elif '\n' in source[prev_end:pos]:
            problems.append('a line break was skipped: position %d after token ending at %d' % (pos, prev_end))
        if ts.remaining_source != source[pos:]:
            problems.append('remaining_source is not source[position:]')
        # --- the assumed contract of consume (frame / invariant), observed
        if not (ts._start_pos <= len(source) and ts._source_io.tell() <= len(source)):
            problems.append('position beyond the end')
        if ts._head_token is not None and ts._head_syntax_error_description:
            problems.append('head token and pending syntax error at the same time')
        state = ts.look_ahead_state
        if k < len(expected):
            if state is not LookAheadState.HAS_TOKEN:
                problems.append('token %d %r missing (state %s)' % (k, expected[k][1], state.name))
                break
            head = ts.head
            if (head.string, head.source_string) != (expected[k][0], expected[k][1]):
                problems.append('token %d is (%r, %r), expected (%r, %r)'
                                % (k, head.string, head.source_string, expected[k][0], expected[k][1]))
                break
            if not token_wf(head):
                problems.append('token %d violates the token invariant' % k)
            io_pos = ts._source_io.tell()
            returned = ts.consume()
            if returned is not head:
                problems.append('consume did not return the head')
            if ts._start_pos != io_pos:
                problems.append('start position is not the lexer position')
            prev_end = expected[k][3]
            k += 1
            continue
        if expected_error:
            if state is not LookAheadState.SYNTAX_ERROR:
                problems.append('unterminated quote not reported (state %s)' % state.name)
            else:
                try:
                    ts.consume()
                    problems.append('consume does not raise on a syntax error')
                except _ts.TokenSyntaxError:
                    pass
        elif state is not LookAheadState.NULL:
            problems.append('extra token/state %s after the last token' % state.name)
        break
    return problems


_REPLAY_TEMPLATE = """
from contracts.C09_strings import _observe_token_stream
problems = _observe_token_stream(%r)
print(problems)
sys.exit(1 if problems else 0)
"""


def _enumerate_with_watchdog(cases_iter, check_one, stall_seconds=20):
    """Runs check_one(input) -> failure dict or None over all inputs in a worker thread; a real function that
    does not terminate on some input (e.g. after a mutation) is reported as a failure of that input instead of
    hanging the check.  Returns (number of cases, failures)."""
    import threading
    state = {'n': 0, 'current': None, 'done': False, 'failures': []}

    def work():
        for x in cases_iter:
            state['current'] = x
            f = check_one(x)
            if f is not None:
                state['failures'].append(f)
            state['n'] += 1
        state['done'] = True

    t = threading.Thread(target=work, daemon=True)
    t.start()
    last = (-1, None)
    while not state['done']:
        t.join(stall_seconds)
        if state['done']:
            break
        now = (state['n'], state['current'])
        if now == last:
            state['failures'].append({'input': state['current'], 'expected': 'terminates',
                                      'actual': 'no result within %d s (non-termination?)' % stall_seconds,
                                      'replay': None})
            break
        last = now
    return state['n'], state['failures']


def _run_bounded(ctx, name, alphabet, max_len, sample=0, sample_len=(0, 0)):
    import itertools
    import random
    rnd = random.Random(ctx.seed)

    def inputs():
        for n in range(0, max_len + 1):
            for tup in itertools.product(alphabet, repeat=n):
                yield ''.join(tup)
        for _ in range(sample):
            n = rnd.randint(*sample_len)
            yield ''.join(rnd.choice(alphabet) for _ in range(n))

    def check_one(src):
        try:
            problems = _observe_token_stream(src)
        except Exception as e:       # an exception of the real code is a finding, not a checker error
            problems = ['exception %r' % (e,)]
        if problems:
            return {'input': src, 'expected': 'tokens of the documented syntax',
                    'actual': '; '.join(problems[:3]), 'replay': _REPLAY_TEMPLATE % src}
        return None

    cases, failures = _enumerate_with_watchdog(inputs(), check_one)
    ctx.bounded_result(name, 'all sources of length <= %d over %r%s' % (
        max_len, alphabet, (' + %d random sources of length %d..%d (seed %d)' % (
            sample, sample_len[0], sample_len[1], ctx.seed)) if sample else ''),
                       cases, exhaustive=(sample == 0), failures=failures,
                       note='real TokenStream vs. independent reader of the documented token syntax: token strings, '
                            'source strings, types, positions, remaining_source, syntax errors, and the assumed '
                            'frame contract of consume')


_ALPHABET = 'a \'"@[]\\\né-'        # without '#': see the next stand-in


@M.bounded('TokenStream.consume (token boundaries)')
def _bounded_consume(ctx):
    if ctx.tier == 'thorough':
        _run_bounded(ctx, 'TokenStream.consume', _ALPHABET, 6, sample=200000, sample_len=(7, 10))
    else:
        _run_bounded(ctx, 'TokenStream.consume', _ALPHABET, 4, sample=20000, sample_len=(5, 9))


@M.bounded('TokenStream.consume (sources with #)')
def _bounded_consume_hash(ctx):
    # every failure here is an instance of the known finding "'#' stays a shlex comment character"
    _run_bounded(ctx, 'TokenStream.consume with #', 'a #\'\n', 5 if ctx.tier == 'thorough' else 4)


# ------------------------------------------------------------------------------ lists: elements until end of line
# ElementsUntilEndOfLineParser2 is generic in the element parser.  It is proved for an *abstract* element parser
# that behaves as SymbolReferenceOrStringParser.parse is proved to behave above: it consumes exactly the head
# token (or raises) -- and, recorded as an obligation at every call, it is only asked for an element when the
# rest of the current line is not blank (so the token it consumes starts on the current line).  The abstract
# image of an element is the source text of its token; `consumed` is the ghost list of those texts.

from exactly_lib.impls.types.list_ import generic_parser  # noqa: E402
from exactly_lib.impls.types.list_.generic_parser import ElementsUntilEndOfLineParser2  # noqa: E402
from exactly_lib.section_document.element_parsers.token_stream_parser import ParserFromTokens  # noqa: E402
from exactly_lib.util import either as _either  # noqa: E402
from contracts.common import forall_range  # noqa: E402

P_GP = 'exactly_lib.impls.types.list_.generic_parser'


class ElementI(Interface):
    """result of the element parser: only its abstract image (the source text of the consumed token) is used"""
    target_class = Either
    attrs = {'image': Str}


def _element_parse_model(interp, self, args, kwargs):
    from pyvc.interp import PyRaise
    from pyvc.api import new_opaque
    tp = args[0]
    ts = interp.getattr(tp, '_token_stream')
    # obligation at the call site: there is something on the current line
    rest = interp.call(current_line_rest, [interp.getattr(ts, '_source'), interp.getattr(ts, '_start_pos')], {})
    ok = interp.not_(interp.call(blank, [rest], {}))
    interp.st.oblige('%s : an element is parsed only when the rest of the current line is not blank'
                     % interp.current_function_name(), interp.truth(ok), {'kind': 'callee-pre'})
    head = interp.getattr(ts, '_head_token')
    if interp.branch(interp.is_(head, None)):
        raise PyRaise(SingleInstructionInvalidArgumentException('missing element'))
    # obligation at the call site: the (unquoted) stop token `)` ends the list, it is not an element
    interp.st.oblige('%s : the stop token is not parsed as an element' % interp.current_function_name(),
                     interp.truth(interp.not_(interp.call(is_stop_token, [interp.resolve(head)], {}))),
                     {'kind': 'callee-pre'})
    if interp.st.choose(2) == 1:
        raise PyRaise(SingleInstructionInvalidArgumentException('invalid element (e.g. a reserved word)'))
    tok = interp.call(interp.getattr(ts, 'consume'), [], {})       # the assumed frame contract of consume
    tok = interp.resolve(tok)
    e = new_opaque(interp, ElementI, 'element', preset={'image': tok[2]})
    interp.st.ghost['consumed'].append(interp, tok[2])
    return e


def is_stop_token(t):
    return t[0] is TokenType.PLAIN and t[1] == ')'


class ElementParserI(Interface):
    target_class = ParserFromTokens
    methods = {'parse': Method(model=_element_parse_model)}


class ReducerI(Interface):
    target_class = _either.Reducer
    methods = {'reduce': Method(model=lambda interp, self, args, kwargs: interp.getattr(args[0], 'image'))}


EUEOLP = Inst(ElementsUntilEndOfLineParser2, _element_parser=Iface(ElementParserI), _mk_element=Iface(ReducerI))


def _setup_consumed(interp, args, ghosts):
    from pyvc.mlist import MList
    interp.st.ghost['consumed'] = MList(interp, interp.st.fresh_name('consumed'), ('str',))
    interp.st.ghost['skipped_only_blank_or_continuation'] = True
    return None


def same_items(xs, ys):
    return len(xs) == len(ys) and forall_range(0, len(xs), lambda k: xs[k] == ys[k])


_LIST_REPLAY = """
import warnings
warnings.simplefilter('ignore')
from exactly_lib.impls.types.list_ import parse_list
from exactly_lib.section_document.element_parsers.token_stream_parser import new_token_parser
from exactly_lib.util.symbol_table import empty_symbol_table
BS = chr(92)
bad = []
for source, expected, expected_rest in (
        ('a ' + BS + ' b' + chr(10) + 'next', ['a', BS, 'b'], chr(10) + 'next'),     # a lone backslash inside the line
        ('a ' + BS + '  ' + chr(10) + ' b' + chr(10) + 'next', ['a', 'b'], chr(10) + 'next'),   # continuation
        ('a b ) c', ['a', 'b'], ') c')):                                               # stop token
    tp = new_token_parser(source)
    ddv = parse_list.parse_list_from_token_parser(tp).resolve(empty_symbol_table())
    actual = [e.value_when_no_dir_dependencies() for e in ddv.string_elements]
    rest = tp.token_stream.remaining_source
    print('%r: elements %r rest %r (the written elements: %r, rest %r)' % (source, actual, rest, expected, expected_rest))
    if actual != expected or rest != expected_rest:
        bad.append(source)
sys.exit(1 if bad else 0)
"""

M.contract(P_GP + ':ElementsUntilEndOfLineParser2.parse', params=dict(self=EUEOLP, token_parser=TP),
           setup=_setup_consumed, replay=lambda model, rf: _LIST_REPLAY,
           old=lambda token_parser: _tp_state(token_parser),
           modifies={**_TS_FRAME, 'ghost:consumed': MListOf(Str), 'ghost:skipped_only_blank_or_continuation': Bool},
           raises={SingleInstructionInvalidArgumentException: {}},
           returns=MListOf(Str),
           ensures={
               # "list elements are exactly the written elements", "following arguments are not swallowed": the only
               # text of the source that is passed over without being parsed as an element is white space and the
               # continuation token `\\` when nothing but white space follows it on its line
               'nothing-but-blank-text-and-line-continuations-is-skipped': lambda ghost:
               ghost['skipped_only_blank_or_continuation'],
               'one-element-per-consumed-token-in-order': lambda result, ghost: same_items(result, ghost['consumed']),
               'source-unchanged': lambda token_parser, old: _hd_source(token_parser) == old[2],
               'stops-at-the-line-break-or-before-the-stop-token': lambda token_parser:
               current_line_rest(_hd_source(token_parser), _hd_pos(token_parser)) == ''
               or (token_parser._token_stream._head_token is not None
                   and token_parser._token_stream._head_token[0] is TokenType.PLAIN
                   and token_parser._token_stream._head_token[1] == ')'),
           },
           raises_only=())
M.loop(P_GP + ':ElementsUntilEndOfLineParser2.parse', 0,
       invariant=lambda token_parser, ret_val, old, ghost:
       same_items(ret_val, ghost['consumed']) and _hd_source(token_parser) == old[2]
       and ts_inv(token_parser._token_stream)
       and ghost['skipped_only_blank_or_continuation'],
       modifies={**_TS_FRAME, 'ret_val': MListOf(Str), 'sym_name_or_element': 'local',
                 'ghost:consumed': MListOf(Str), 'ghost:skipped_only_blank_or_continuation': Bool})


# ------------------------------------------------------------------------------ bounded stand-in: leftmost references
# "References are substituted everywhere": a constant fragment must not contain the start of a complete reference.
# Conservation, well-formedness, separation and termination of `split` are proved above; that the reference
# found is the LEFTMOST one was not brought within reach deductively (a position-indexed invariant over an
# arbitrary position needs a case split over the string pieces per iteration; the path count exploded -- see
# notes/C09.md), so this clause is checked exhaustively up to a bound against an independent left-to-right reader.

def reference_split(s):
    """The documented syntax: scanning from the left, `@[NAME]@` with NAME a non-empty sequence of alphanumeric
    characters and underscores is a symbol reference; every other character is constant text."""
    out = []
    const = ''
    i = 0
    while i < len(s):
        j = i + 2
        while s[i:i + 2] == '@[' and j < len(s) and (s[j].isalnum() or s[j] == '_'):
            j += 1
        if s[i:i + 2] == '@[' and j > i + 2 and s[j:j + 2] == ']@':
            if const:
                out.append((const, False))
                const = ''
            out.append((s[i + 2:j], True))
            i = j + 2
        else:
            const += s[i]
            i += 1
    if const:
        out.append((const, False))
    return out


_SPLIT_REPLAY = """
from exactly_lib.symbol import symbol_syntax
from contracts.C09_strings import reference_split
s = %r
actual = [(f.value, f.is_symbol) for f in symbol_syntax.split(s)]
print('split     :', actual)
print('reference :', reference_split(s))
sys.exit(1 if actual != reference_split(s) else 0)
"""


@M.bounded('symbol_syntax.split (leftmost references)')
def _bounded_split(ctx):
    import itertools
    alphabet = '@[]a_-é'
    max_len = 8 if ctx.tier == 'thorough' else 7
    def inputs():
        for n in range(0, max_len + 1):
            for tup in itertools.product(alphabet, repeat=n):
                yield ''.join(tup)

    def check_one(s):
        actual = [(f.value, f.is_symbol) for f in symbol_syntax.split(s)]
        expected = reference_split(s)
        # also: the declarative clause -- no constant fragment covers the start of a reference
        off = 0
        covered = None
        for value, is_symbol in actual:
            if not is_symbol:
                for k in range(off, off + len(value)):
                    if ref_starts_at(s, k):
                        covered = k
            off += len(value) + (4 if is_symbol else 0)
        if actual != expected or covered is not None:
            return {'input': s, 'expected': expected, 'actual': actual, 'replay': _SPLIT_REPLAY % s}
        return None

    cases, failures = _enumerate_with_watchdog(inputs(), check_one)
    ctx.bounded_result('symbol_syntax.split', 'all strings of length <= %d over %r' % (max_len, alphabet), cases,
                       exhaustive=True, failures=failures,
                       note='fragments of the real split == independent left-to-right reader; no constant fragment '
                            'covers a position where a complete reference starts')


# ------------------------------------------------------------------------------ syntax errors are reported
# An unterminated quote makes the look-ahead state SYNTAX_ERROR (bounded stand-in); every parser above asks for a
# valid head token first, which turns it into the instruction's SingleInstructionInvalidArgumentException.

M.contract(P_TP + ':TokenParser.require_has_valid_head_token', params=dict(self=TP, syntax_element=Str),
           raises={SingleInstructionInvalidArgumentException: {
               'when': lambda self: self._token_stream._head_token is None}},
           ensures={'nothing-changes': lambda self: True},
           modifies={},
           raises_only=())
M.contract(P_TP + ':TokenParser.has_valid_head_token', params=dict(self=TP), returns=Bool, inline=True,
           ensures={'head-token-present': lambda self, result: result == (self._token_stream._head_token is not None)},
           raises_only=())
M.contract(P_TP + ':TokenParser.is_at_eol', params=dict(self=TP), returns=Bool, inline=True,
           ensures={'rest-of-line-blank': lambda self, result:
           result == blank(current_line_rest(self._token_stream._source, self._token_stream._start_pos))},
           raises_only=())


# ------------------------------------------------------------------------------ lemma: skipping a failed candidate is safe
# `_find_symbol_reference` continues the search for `@[` after the NAME of a failed candidate instead of at the next
# character.  This verified lemma (about the same string operations) says that nothing is missed: no `@[` starts at
# a position in [a + 1, a + 2 + len(name)), i.e. `@[` does not occur in  s[a + 1 : a + 2 + len(name) + 1]
# (the extra character covers an occurrence that would start on the last skipped character).
# With the semantics of `find` (first occurrence at or after its start) this is the inductive step of "the reference
# found is the leftmost one"; its composition over the iterations is checked by the bounded stand-in above.

def lemma_skip_is_safe(s, a):
    if not (0 <= a and a + 2 <= len(s) and s[a:a + 2] == '@['):
        return True
    name = ident_run(s[a + 2:])
    return '@[' not in s[a + 1:a + 2 + len(name) + 1]


M.contract('contracts.C09_strings:lemma_skip_is_safe', params=dict(s=Str, a=Nat),
           ensures={'no-candidate-starts-in-the-skipped-region': lambda result: result}, raises_only=())


# ------------------------------------------------------------------------------ TokenStream.__init__

def _stringio_model(interp, args, kwargs):
    """io.StringIO(source): a stream over the text, positioned at 0 (only the position is modelled)"""
    from pyvc.api import new_opaque
    return new_opaque(interp, StringIOI, 'source_io', preset={'pos': 0, 'text': args[0] if args else ''})


M.model(io.StringIO, _stringio_model)

_TS_FIELDS = {'self._source': Str, 'self._source_io': Iface(StringIOI), 'self._lexer': Any_, 'self._start_pos': Nat,
              'self._head_syntax_error_description': Opt(Str), 'self._head_token': Opt(TOKEN)}

M.contract(P_TS + ':TokenStream.__init__', params=dict(self=Inst(TokenStream), source=Str),
           modifies=_TS_FIELDS,
           ensures={
               'reads-the-given-source-from-its-start': lambda self, source:
               self._source == source and self._start_pos == 0,
               'the-lexer-reads-the-same-text': lambda self, source:
               self._source_io.text == source,      # (`_new_lexer : reads-the-source`: the lexer reads this stream)
               'representation-invariant': lambda self: ts_inv(self),
               # the first token is looked ahead by one `consume` (bounded stand-in), nothing else is consumed
               'one-look-ahead': (lambda self, trace: len(consume_events(trace)) == 1
                                  and consume_events(trace)[0][1] is self and consume_events(trace)[0][2] is None,
                                  'check-only'),
           },
           raises_only=())


# ------------------------------------------------------------------------------ bounded stand-in: parse_list end to end
# The element loop is proved for an abstract element parser; this runs the real `parse_list` (the loop instantiated with
# SymbolReferenceOrStringParser and _MkElement, on the real TokenStream) against the documented list syntax.

def reference_list(source):
    """Documented LIST syntax on one logical line: elements are the tokens up to END-OF-LINE or an unquoted `)`;
    an unquoted `\\` that is the last thing on its line (only white space after it) continues the list on the next
    line.  Returns (elements, rest) or 'error' (unterminated quote).  rest: what follows the list (from the line
    break that ends it, or from the stop token)."""
    pos = 0
    elements = []
    while True:
        nl = source.find('\n', pos)
        line_end = len(source) if nl == -1 else nl
        rest_of_line = source[pos:line_end]
        if rest_of_line.strip(' \t\r') == '':
            return elements, source[line_end:]
        if rest_of_line.strip(' \t\r') == '\\':
            pos = line_end if nl == -1 else nl + 1
            continue
        tokens, error = reference_tokens(source[pos:])
        if not tokens:
            return 'error'
        string, src, start, end = tokens[0]
        if src == ')':
            return elements, source[pos + start:]
        if string == ')' and src[0] not in '\'"':
            # `)` written with an empty quoted fragment next to it (`)''`): whether that is "an unquoted )" is the
            # mixed-quoting question of 4.2 (the code decides by the first source character); not judged here
            return 'ambiguous'
        elements.append(string)
        pos += end


_LIST_BOUNDED_REPLAY = """
from contracts.C09_strings import _observe_parse_list
problems = _observe_parse_list(%r)
print(problems)
sys.exit(1 if problems else 0)
"""


def _observe_parse_list(source):
    import warnings
    warnings.simplefilter('ignore')
    from exactly_lib.impls.types.list_ import parse_list
    from exactly_lib.section_document.element_parsers.token_stream_parser import new_token_parser
    from exactly_lib.util.symbol_table import empty_symbol_table
    expected = reference_list(source)
    if expected == 'ambiguous':
        return []
    try:
        tp = new_token_parser(source)
        ddv = parse_list.parse_list_from_token_parser(tp).resolve(empty_symbol_table())
        actual = ([e.value_when_no_dir_dependencies() for e in ddv.string_elements],
                  tp.token_stream.remaining_source)
    except SingleInstructionInvalidArgumentException:
        actual = 'error'
    if expected == 'error' or actual == 'error':
        return [] if expected == actual else ['%r: %r, the documented syntax gives %r' % (source, actual, expected)]
    # white space between the last element and what follows may or may not have been consumed
    if actual[0] != expected[0] or actual[1].lstrip(' \t\r') != expected[1].lstrip(' \t\r'):
        return ['%r: elements %r rest %r, the documented syntax gives %r rest %r'
                % (source, actual[0], actual[1], expected[0], expected[1])]
    return []


@M.bounded('parse_list (elements of a list line)')
def _bounded_parse_list(ctx):
    import itertools
    alphabet = 'a \\\n)\''
    max_len = 7 if ctx.tier == 'thorough' else 6

    def inputs():
        for n in range(0, max_len + 1):
            for tup in itertools.product(alphabet, repeat=n):
                yield ''.join(tup)

    def check_one(src):
        try:
            problems = _observe_parse_list(src)
        except Exception as e:
            problems = ['exception %r' % (e,)]
        if problems:
            return {'input': src, 'expected': 'the written elements', 'actual': problems[0],
                    'replay': _LIST_BOUNDED_REPLAY % src}
        return None

    cases, failures = _enumerate_with_watchdog(inputs(), check_one)
    ctx.bounded_result('parse_list', 'all sources of length <= %d over %r' % (max_len, alphabet), cases,
                       exhaustive=True, failures=failures,
                       note='real parse_list (element loop + SymbolReferenceOrStringParser + TokenStream) vs. the '
                            'documented list syntax: elements, what follows the list, syntax errors')
