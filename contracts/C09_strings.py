"""C09 -- string syntax: quoting, concatenation, here-documents denote one exact string.
See DESIGN.md section 3 / C09 and notes/C09.md."""
from pyvc.api import (Module, Interface, Method, Iface, Inst, Int, Nat, Pos, Bool, Str, Opt, OneOf, Const, Union,
                      ListOf, FixedList, Any_, EnumOf, Custom)
from contracts.common import implies, iff, all_chars

from exactly_lib.symbol import symbol_syntax
from exactly_lib.section_document.element_parsers.instruction_parser_exceptions import \
    SingleInstructionInvalidArgumentException

M = Module('C09')

P_SYM = 'exactly_lib.symbol.symbol_syntax'


# ------------------------------------------------------------------------------ the documented syntax
# A symbol reference is  @[NAME]@  where NAME is a non-empty sequence of identifier characters
# (alphanumeric characters and '_').  `str.isalnum` on one character is an uninterpreted predicate of the
# engine whose value on every ASCII character is CPython's (so '@', '[' and ']' are known not to be
# identifier characters).

def ident_char(c):
    return c.isalnum() or c == '_'


def valid_name(name):
    return name != '' and all_chars(name, ident_char)


def render_ref(name):
    return '@[' + name + ']@'


# ------------------------------------------------------------------------------ symbol_syntax: names

M.contract(P_SYM + ':_is_identifier', params=dict(s=Str), returns=Bool, inline=True,
           ensures={'identifier-character': lambda s, result: result == ident_char(s)},
           raises_only=())

M.contract(P_SYM + ':symbol_reference_syntax_for_name', params=dict(name=Str), returns=Str,
           ensures={'rendering': lambda name, result: result == render_ref(name)}, raises_only=())

M.contract(P_SYM + ':is_symbol_name', params=dict(s=Str), returns=Bool,
           ensures={'non-empty-identifier-characters': lambda s, result: result == valid_name(s)},
           raises_only=())
M.loop(P_SYM + ':is_symbol_name', 0,
       invariant=lambda _i, s: 0 <= _i and _i <= len(s) and all_chars(s[:_i], ident_char),
       modifies=dict(i='local', ch='local'))

M.contract(P_SYM + ':_extract_symbol_name', params=dict(s=Str, start_idx=Nat),
           requires=lambda s, start_idx: start_idx <= len(s),
           returns=Str,
           ensures={
               'is-prefix-of-rest': lambda s, start_idx, result:
               start_idx + len(result) <= len(s) and s[start_idx:start_idx + len(result)] == result,
               'identifier-characters': lambda result: all_chars(result, ident_char),
               'maximal': lambda s, start_idx, result:
               start_idx + len(result) == len(s)
               or not ident_char(s[start_idx + len(result):start_idx + len(result) + 1]),
           },
           raises_only=())


# ------------------------------------------------------------------------------ symbol_syntax: whole-token references

def ref_shaped(token):
    """token is  @[ X ]@  for some string X (the two delimiters do not overlap)"""
    return len(token) >= 4 and token.startswith('@[') and token.endswith(']@')


M.contract(P_SYM + ':parse_symbol_reference__from_str', params=dict(token=Str), returns=Opt(Str),
           raises={SingleInstructionInvalidArgumentException: {
               'when': lambda token: ref_shaped(token) and not valid_name(token[2:len(token) - 2])}},
           ensures={
               'none-iff-not-a-reference': lambda token, result: (result is None) == (not ref_shaped(token)),
               'name-of-the-reference': lambda token, result:
               result is None or (token == render_ref(result) and valid_name(result)),
           },
           raises_only=())

M.contract(P_SYM + ':parse_maybe_symbol_reference', params=dict(unquoted_token_str=Str), returns=Opt(Str),
           ensures={
               'none-iff-not-a-valid-reference': lambda unquoted_token_str, result:
               (result is None) == (not (ref_shaped(unquoted_token_str)
                                         and valid_name(unquoted_token_str[2:len(unquoted_token_str) - 2]))),
               'name-of-the-reference': lambda unquoted_token_str, result:
               result is None or (unquoted_token_str == render_ref(result) and valid_name(result)),
           },
           raises_only=())


# ------------------------------------------------------------------------------ symbol_syntax: finding references

FOUND = FixedList(Int, Str, Str, as_tuple=True)

M.contract(P_SYM + ':_find_symbol_reference', params=dict(s=Str), returns=FOUND,
           ensures={
               'not-found-shape': lambda result: result[0] != -1 or (result[1] == '' and result[2] == ''),
               'conservation': lambda s, result:
               result[0] == -1 or (0 <= result[0] and s == s[:result[0]] + render_ref(result[1]) + result[2]),
               'valid-name': lambda result: result[0] == -1 or valid_name(result[1]),
           },
           raises_only=())
M.loop(P_SYM + ':_find_symbol_reference', 0,
       invariant=lambda s, sym_ref_pos:
       sym_ref_pos == -1 or (0 <= sym_ref_pos and sym_ref_pos + 2 <= len(s)
                             and s[sym_ref_pos:sym_ref_pos + 2] == '@['),
       modifies=dict(sym_ref_pos=Int, symbol_name='local', pos_after_symbol_name='local', rest='local'),
       decreases=lambda s, sym_ref_pos: len(s) - sym_ref_pos if sym_ref_pos != -1 else -1)


# ------------------------------------------------------------------------------ symbol_syntax: fragments
# The list of fragments of a string is described by measures (left folds, pyvc.api.Measure):
#   rendered   -- the string the fragments denote when every symbol fragment is written back as  @[name]@
#   well_formed -- every symbol fragment has a valid name, no constant fragment is empty
#   separated  -- (no two constant fragments are adjacent, the last fragment is a constant)

from pyvc.api import Measure, MListOf  # noqa: E402

FRAG = Inst(symbol_syntax.Fragment, value=Str, is_symbol=Bool)
FRAGMENTS = MListOf(FRAG)


def render(f):
    return render_ref(f.value) if f.is_symbol else f.value


def _rendered_step(acc, f):
    return acc + render(f)


def _well_formed_step(ok, f):
    return ok and (valid_name(f.value) if f.is_symbol else f.value != '')


def _separated_step(st, f):
    return (st[0] and not (st[1] and not f.is_symbol), not f.is_symbol)


rendered = Measure('rendered', '', _rendered_step, Str)
well_formed = Measure('well_formed', True, _well_formed_step, Bool)
separated = Measure('separated', (True, False), _separated_step, FixedList(Bool, Bool, as_tuple=True))

M.contract(P_SYM + ':_extract_fragment', params=dict(s=Str),
           requires=lambda s: s != '',
           returns=Union(FixedList(Str, FixedList(FRAG), as_tuple=True),
                         FixedList(Str, FixedList(FRAG, FRAG), as_tuple=True)),
           ensures={
               'conservation': lambda s, result: rendered(result[1]) + result[0] == s,
               'well-formed': lambda result: well_formed(result[1]),
               'separated': lambda result: separated(result[1])[0],
               'a-trailing-constant-ends-the-string': lambda result: (not separated(result[1])[1]) or result[0] == '',
               'progress': lambda s, result: len(result[0]) < len(s),
           },
           raises_only=())

M.contract(P_SYM + ':split', params=dict(s=Str), old=lambda s: s, returns=FRAGMENTS,
           ensures={
               'conservation': lambda s, result: rendered(result) == s,
               'well-formed': lambda result: well_formed(result),
               'no-adjacent-constants': lambda result: separated(result)[0],
           },
           raises_only=())
M.loop(P_SYM + ':split', 0,
       invariant=lambda s, ret_val, old:
       rendered(ret_val) + s == old and well_formed(ret_val) and separated(ret_val)[0]
       and ((not separated(ret_val)[1]) or s == ''),
       modifies=dict(s=Str, fragments='local', ret_val=FRAGMENTS),
       decreases=lambda s: len(s))
