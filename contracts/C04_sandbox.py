"""C04 -- sandbox lifecycle and isolation of the Exactly process.  See DESIGN.md section 3 / C04.

A proof over a ghost file system and ghost process state (``pyvc/fsmodel.py``: the assumed contracts of
``Path.mkdir/open/chmod/resolve``, ``os.getcwd/chdir``, ``shutil.rmtree``, ``tempfile.mkdtemp``).  Paths are
``pathlib`` values modelled by their strings with ``/`` as an injective join (``pyvc/pymodels/pathlib_model.py``).
"""
import ast
import os
import pathlib
import shutil
import tempfile
from pathlib import Path
from types import MappingProxyType

from pyvc import fsmodel
from pyvc.api import (Module, Interface, Method, Iface, Inst, Int, Nat, Pos, Bool, Str, Opt, OneOf, Const, Union,
                      ListOf, FixedList, Any_, EnumOf, Custom, Dependent, new_opaque)
from contracts.common import implies, iff

from exactly_lib.execution.partial_execution import execution as partial_execution
from exactly_lib.execution.partial_execution.impl import executor
from exactly_lib.execution.partial_execution.result import PartialExeResult
from exactly_lib.execution.result import ExecutionFailureStatus, ActionToCheckOutcome
from exactly_lib.tcfs import sds as sds_module
from exactly_lib.tcfs.sds import SandboxDs

M = Module('C04')

P_SDS = 'exactly_lib.tcfs.sds'
P_MISC = 'exactly_lib.util.file_utils.misc_utils'
P_EXE = 'exactly_lib.execution.partial_execution.execution'
P_EXECUTOR = 'exactly_lib.execution.partial_execution.impl.executor'
P_ATC = 'exactly_lib.execution.partial_execution.impl.atc_execution'

M.assume('file-system and process-state operations behave as the models of pyvc/fsmodel.py say (closed-world ghost '
         'file system; operations fail only for the reasons modelled: no permission errors, full disks or '
         'concurrent processes) -- DESIGN C04 "file-system operations of sandbox construction succeed"')
M.assume('a path is identified with its string and p / name is str(p) + "/" + name: exact for pathlib when p is a '
         'normalised name other than a file-system root and name a normalised relative name; the names the code '
         'joins are cross-checked against pathlib on every run (check `path-model`)')


class ArbitraryExecutionError(Exception):
    """stands for whatever an execution lets escape (used where a callee is trusted to raise "anything")"""


# ============================================================================ spec functions (native + symbolic)

def is_dir(p):
    """the directory exists (ghost file system in proofs, the real one natively)"""
    return os.path.isdir(str(p))


def _m_is_dir(interp, args, kwargs):
    return fsmodel.is_known_dir(interp, fsmodel.path_str(interp, args[0]))


M.model(is_dir, _m_is_dir)


def exists(p):
    return os.path.lexists(str(p))


def _m_exists(interp, args, kwargs):
    return fsmodel.is_known_entry(interp, fsmodel.path_str(interp, args[0]))


M.model(exists, _m_exists)


def is_empty_dir(p):
    """an existing directory with nothing in it"""
    return os.path.isdir(str(p)) and not os.listdir(str(p))


def _m_is_empty_dir(interp, args, kwargs):
    s = fsmodel.path_str(interp, args[0])
    f = fsmodel.fs(interp)
    r = interp.truth(fsmodel.is_known_dir(interp, s))
    for e in f['dirs'] + f['files']:
        if r is False:
            return False
        nb = interp.not_(fsmodel._strictly_below(interp, e, s))
        if nb is True:
            continue
        r = nb if r is True else fsmodel.wrap(fsmodel.z3.And(fsmodel.to_z3(r), fsmodel.to_z3(nb)))
    return r


M.model(is_empty_dir, _m_is_empty_dir)


def below(p, d):
    """p lies strictly below the directory d (every absolute path but '/' lies below '/', every relative one
    but '.' below '.')"""
    if str(d) == '/':
        return str(p).startswith('/') and str(p) != '/'
    if str(d) == '.':
        return not str(p).startswith('/') and str(p) != '.'
    return str(p).startswith(str(d) + '/')


def events(trace, *kinds):
    return [e for e in trace if e[0] in kinds]


FS_EVENTS = ('mkdir', 'open', 'write', 'close', 'chmod', 'rmtree', 'mkdtemp')


def fs_paths(trace):
    """the paths of all file-system events of the trace (writes and closes are identified by their `open`)"""
    return [e[1] for e in trace if e[0] in ('mkdir', 'open', 'chmod', 'rmtree', 'mkdtemp')]


# ============================================================================ shapes

def _declare_existing_dir(name):
    """contract `setup`: the named str/path parameter is an existing directory, and -- the ghost file system
    being closed-world -- an empty one.  The matching `requires` clause makes callers prove it."""

    def setup(interp, args, ghosts):
        fsmodel.declare_dir(interp, fsmodel.path_str(interp, args[name]))

    return setup


PATH = Custom(lambda interp, name: fsmodel.mk_path(interp, Str.make(interp, name)))


def _mk_sds(interp, name):
    """a SandboxDs as its constructor builds it from a symbolic root name"""
    return interp.call(SandboxDs, [Str.make(interp, name + '.root')], {})


SDS = Custom(_mk_sds)


def layout(sds, root):
    """the documented layout of a sandbox rooted at `root`"""
    return (str(sds.root_dir) == str(Path(root))
            and str(sds.act_dir) == str(Path(root) / 'act')
            and str(sds.user_tmp_dir) == str(Path(root) / 'tmp')
            and str(sds.result_dir) == str(Path(root) / 'result')
            and str(sds.internal_tmp_dir) == str(Path(root) / 'internal' / 'tmp')
            and str(sds.log_dir) == str(Path(root) / 'internal' / 'log')
            and str(sds.result.stdout_file) == str(Path(root) / 'result' / 'stdout')
            and str(sds.result.stderr_file) == str(Path(root) / 'result' / 'stderr')
            and str(sds.result.exitcode_file) == str(Path(root) / 'result' / 'exit-code'))


def layout_dirs(root):
    return [str(Path(root) / 'act'), str(Path(root) / 'tmp'), str(Path(root) / 'result'),
            str(Path(root) / 'internal'), str(Path(root) / 'internal' / 'tmp'),
            str(Path(root) / 'internal' / 'log')]


# ============================================================================ tcfs/sds.py

M.contract(P_SDS + ':SandboxDs.__init__', params=dict(self=Inst(SandboxDs), dir_name=Str), inline=True,
           ensures={'documented-layout': lambda self, dir_name: layout(self, dir_name),
                    'no-file-system-effect': lambda trace: trace == []},
           raises_only=())

def construct_at_events(directory_root):
    """the file-system effect of construct_at: exactly the documented directories, parents first"""
    return [('mkdir', d) for d in layout_dirs(directory_root)]


def happen(evts):
    """call-site counterpart of a clause about the callee's own events: the events happen (they are appended to
    the caller's ghost trace and applied to the ghost file system).  No native meaning."""
    return True


def _m_happen(interp, args, kwargs):
    for e in args[0]:
        if e[0] == 'mkdir':
            fsmodel.declare_dir(interp, e[1])
        else:
            raise fsmodel.Unsupported('happen(): event kind %r' % (e[0],))
        interp.st.emit(*e)
    return True


M.model(happen, _m_happen)

M.contract(P_SDS + ':construct_at', params=dict(directory_root=Str),
           # at call sites the result is the SandboxDs of that root (SandboxDs.__init__ is under contract)
           returns=Dependent(lambda interp, name, env: interp.call(SandboxDs, [env['directory_root']], {})),
           setup=_declare_existing_dir('directory_root'),
           # a fresh sandbox root: an existing directory with nothing in it
           requires=lambda directory_root: is_empty_dir(directory_root),
           event='construct_at',
           ensures={
               'creates-exactly-the-documented-directories-parents-first': (
                   lambda directory_root, trace: trace == construct_at_events(directory_root), 'check-only'),
               'the-directories-exist-afterwards': (
                   lambda directory_root: all(is_dir(d) for d in layout_dirs(directory_root)), 'check-only'),
               '(call sites: these events happen)': (
                   lambda directory_root: happen(construct_at_events(directory_root)), 'effect'),
               'result-has-the-documented-layout': lambda directory_root, result: layout(result, directory_root),
               'nothing-is-put-into-the-users-tmp': lambda directory_root, trace:
               not any(below(p, Path(directory_root) / 'tmp') for p in fs_paths(trace)),
           },
           raises_only=())


# ============================================================================ util/file_utils/misc_utils.py

def harness_preserved_cwd(elsewhere, then_raise):
    """`preserved_cwd` is a generator-based context manager: exercised with a body that changes the
    directory and then either completes or raises (the two ways a `with` body can end)."""
    from exactly_lib.util.file_utils.misc_utils import preserved_cwd
    before = os.getcwd()
    try:
        with preserved_cwd():
            os.chdir(elsewhere)
            if then_raise:
                raise KeyError('body fails')
    except KeyError:
        pass
    return os.getcwd() == before


M.contract('contracts.C04_sandbox:harness_preserved_cwd',
           props=('C04', 'C17'),
           params=dict(elsewhere=Str, then_raise=Bool),
           setup=_declare_existing_dir('elsewhere'),
           ensures={'cwd-restored-however-the-body-ends': lambda result: result},
           raises_only=())

M.contract(P_MISC + ':make_file_read_only__p', params=dict(path=PATH), inline=True,
           setup=lambda interp, args, ghosts: fsmodel.declare_file(interp, args['path']._s),
           requires=lambda path: exists(path),
           ensures={'read-only-for-everyone': lambda path, trace: trace == [('chmod', str(path), 0o444)]},
           raises_only=())

M.contract(P_MISC + ':resolved_path_name', params=dict(existing_path=Str), inline=True,
           setup=_declare_existing_dir('existing_path'),
           requires=lambda existing_path: is_dir(existing_path),
           ensures={'another-name-of-the-same-directory': lambda result: is_dir(result),
                    'no-file-system-change': lambda trace: events(trace, *FS_EVENTS) == []},
           raises_only=())


# ============================================================================ partial_execution/execution.py

STATUS = Opt(EnumOf(ExecutionFailureStatus))
ATC_OUTCOME = Opt(Inst(ActionToCheckOutcome, _tuple=[Int]))
PARTIAL_RESULT = Inst(PartialExeResult, _PartialExeResult__status=STATUS, _ResultBase__sds=Opt(SDS),
                      _ResultBase__action_to_check_outcome=ATC_OUTCOME, _ResultBase__failure_info=Opt(Any_))


def _m_executor_execute(interp, args, kwargs):
    """Model of the module-level `executor.execute(configuration, test_case)` = `_PartialExecutor(..).execute()`:
    ANY outcome -- returns a result with or without sandbox, or raises anything -- and leaves the process in
    ANY current directory (it changes to act/, instructions change directory at will).  C01 proves the
    stronger facts (never raises PhaseStepFailureException, has_sds iff the sandbox was constructed); nothing
    of that is needed here."""
    from pyvc.interp import PyRaise, ArbitraryException
    st = interp.st
    bound = dict(configuration=args[0], test_case=args[1])
    st.emit('partial-executor', bound)      # same events as a contract with event='partial-executor' emits
    before = fsmodel.cwd(interp)
    elsewhere = Str.make(interp, 'cwd-after-executor')
    fsmodel.declare_dir(interp, elsewhere)
    st.ghost['cwd'] = elsewhere
    if st.choose(2) == 1:
        # the test case may have removed the directory Exactly was started in (or made it inaccessible): nothing
        # is known about it any more, so changing back to it may fail (seeded change C04-s9)
        f = fsmodel.fs(interp)
        f['dirs'] = [d for d in f['dirs'] if d is not before]
        st.emit('start-directory-may-be-gone')
    k = st.choose(2)
    if k == 1:
        exc = ArbitraryException('anything the executor lets escape')
        st.emit('partial-executor:raised', bound, exc)
        raise PyRaise(exc)
    r = PARTIAL_RESULT.make(interp, 'partial_result')
    st.emit('partial-executor:returned', bound, r)
    return r


M.model(executor.execute, _m_executor_execute)
M.trust('executor.execute (module level): modelled as "any outcome, any current directory afterwards" -- a '
        'superset of the behaviours C01 proves for _PartialExecutor.execute')


# "When execution ends -- at any step -- the sandbox is removed": the contract of `execution.execute` below says
# so for every RETURN of the executor and says that nothing is removed when the executor RAISES.  That the executor
# raises nothing once the sandbox exists (only an OSError of the sandbox construction itself may escape) is what C01
# proves of `executor.execute` and of every step below it; those contracts carry C04 too and are re-proved by this check.
def _executor_never_raises():
    from contracts.common import share_contracts
    from contracts import C01_protocol as c01
    layers = (c01.P_EX + ':', c01.P_PSE + ':', c01.P_SIE + ':', c01.P_AH + ':', c01.P_AX + ':', c01.P_SV + ':')
    names = share_contracts('C04', 'contracts.C01_protocol', lambda q: q.startswith(layers))
    top = [c for c in c01.M.contracts if c.qname == c01.P_EX + ':execute']
    assert len(top) == 1 and top[0].raises_only == () and set(top[0].raises) == {OSError}, \
        'C04 rests on: executor.execute lets nothing but an OSError of the sandbox construction escape'
    # "... the sandbox is removed (unless --keep, when it is left intact and its path is reported)": which output
    # mode keeps the sandbox, that the flag reaches `execution.execute`, and that --keep prints the path whenever a
    # sandbox exists are under contract in C02 (the three reporters, Processor._executor); they carry C04 too.
    # (After the seeded changes C04-s5, s6.)
    names += share_contracts('C04', 'contracts.C02_outcome', lambda q: q.endswith((
        '.depends_on_result_in_sandbox', ':_ResultReporterForPreserveAndPrintSandboxDir.report',
        ':Processor._executor')))
    return names


M.after_load = _executor_never_raises


def rmtree_events(trace):
    return events(trace, 'rmtree')


M.contract(P_EXE + ':execute',
           props=('C04', 'C17'),
           params=dict(test_case=Any_, full_exe_input_conf=Any_, conf_phase_values=Any_, setup_handler=Any_,
                       is_keep_sandbox=Bool),
           returns=PARTIAL_RESULT, event='partial-execution',
           old=lambda: os.getcwd(),
           ensures={
               'cwd-restored': lambda old: os.getcwd() == old,
               'sandbox-removed-unless-keep': lambda result, is_keep_sandbox, trace:
               rmtree_events(trace) == ([('rmtree', str(result.sds.root_dir), True)]
                                        if result.has_sds and not is_keep_sandbox else []),
               'removal-comes-after-leaving-the-sandbox': lambda trace:
               [e[0] for e in events(trace, 'chdir', 'rmtree')][:1] != ['rmtree'],
               'result-is-the-executors': lambda result, trace:
               result is events(trace, 'partial-executor:returned')[0][2],
               'executor-runs-once': lambda trace: len(events(trace, 'partial-executor')) == 1,
           },
           raises={
               # the directory Exactly was started in cannot be entered again (the test case removed it): the error
               # escapes, but the sandbox is removed all the same ("removed on every outcome")
               OSError: {'ensures': lambda is_keep_sandbox, trace:
                         events(trace, 'start-directory-may-be-gone') != []
                         and (events(trace, 'partial-executor:returned') == []
                              or rmtree_events(trace) == (
                                  [('rmtree', str(events(trace, 'partial-executor:returned')[0][2].sds.root_dir), True)]
                                  if events(trace, 'partial-executor:returned')[0][2].has_sds and not is_keep_sandbox
                                  else []))},
               Exception: {'ensures': lambda old, trace: os.getcwd() == old and rmtree_events(trace) == []
                                                         and events(trace, 'partial-executor:raised') != []}},
           raises_only=())


# ============================================================================ environment mappings
# The configured environ is an arbitrary mapping (an opaque object); `dict(m)` is assumed to return a NEW dict
# with the items of m, `MappingProxyType(m)` a read-only view of m (DESIGN C04, assumed contracts).

def _m_dict_copy(interp, self, args, kwargs):
    c = new_opaque(interp, EnvMapI, 'dict-copy')
    c._pv_ghost['copy_of'] = self
    c._pv_ghost['is_dict'] = True
    interp.st.emit('dict-copy', self, c)
    return c


class EnvMapI(Interface):
    """a mapping of environment variables; nothing is known about its items"""
    methods = {'__dict_copy__': Method(model=_m_dict_copy)}


class RoViewI(Interface):
    """a types.MappingProxyType"""
    target_class = MappingProxyType


def _m_mapping_proxy(interp, args, kwargs):
    (m,) = args
    if isinstance(m, fsmodel.SOpt):
        m = interp.resolve(m)
    v = new_opaque(interp, RoViewI, 'ro-view')
    v._pv_ghost['view_of'] = m
    return v


M.model(MappingProxyType, _m_mapping_proxy)
M.trust('dict(m) returns a new dict equal to m; types.MappingProxyType(m) is a read-only view of m')

ENVIRON = Opt(Iface(EnvMapI))


def is_fresh_copy(a, b):
    """a is a dict of its own (not b itself) with the items of b"""
    return type(a) is dict and a is not b and a == b


def _m_is_fresh_copy(interp, args, kwargs):
    a, b = [interp.resolve(x) if isinstance(x, fsmodel.SOpt) else x for x in args]
    return (a is not b and getattr(a, '_pv_ghost', {}).get('is_dict') is True
            and a._pv_ghost.get('copy_of') is b)


M.model(is_fresh_copy, _m_is_fresh_copy)


def is_read_only_view_of(v, m):
    return type(v) is MappingProxyType and v == m


def _m_is_read_only_view_of(interp, args, kwargs):
    v, m = [interp.resolve(x) if isinstance(x, fsmodel.SOpt) else x for x in args]
    return v is not m and getattr(v, '_pv_ghost', {}).get('view_of') is m


M.model(is_read_only_view_of, _m_is_read_only_view_of)


def none_or(x, pred):
    return x is None or pred(x)


# ============================================================================ partial_execution/impl/executor.py

from exactly_lib.execution.configuration import ExecutionConfiguration
from exactly_lib.execution.partial_execution.configuration import ConfPhaseValues, TestCase
from exactly_lib.execution.partial_execution.impl.executor import _PartialExecutor, Configuration
from exactly_lib.execution import phase_file_space
from exactly_lib.test_case.phases.instruction_settings import InstructionSettings
from exactly_lib.util.name_and_value import NameAndValue
from exactly_lib.util.symbol_table import SymbolTable


def _m_new_sandbox_root(interp, self, args, kwargs):
    """the configured sds_root_dir_resolver: returns the name of a NEW, EMPTY directory (what
    sandbox_dir_resolving.mk_tmp_dir_with_prefix is proved to do, given tempfile.mkdtemp)"""
    return fsmodel.m_mkdtemp(interp, [], {'prefix': 'resolver'})


class RootResolverI(Interface):
    methods = {'__call__': Method(model=_m_new_sandbox_root)}


class SymbolTableI(Interface):
    target_class = SymbolTable
    methods = {'copy': Method(returns=Iface(lambda: SymbolTableI), event='symbols-copy')}


class MkSetupSettingsHandlerI(Interface):
    methods = {'__call__': Method(returns=Any_, event='mk-setup-settings-handler')}


EXE_CONF = Inst(ExecutionConfiguration,
                _tuple=[ENVIRON,                    # environ
                        Iface(RootResolverI),       # sds_root_dir_resolver
                        Iface(SymbolTableI),        # predefined_symbols
                        Opt(Any_),                  # exe_atc_and_skip_assertions
                        Any_,                       # os_services
                        Int,                        # mem_buff_size
                        Any_,                       # default_environ_getter
                        Opt(Int)])                  # timeout_in_seconds
CONF_VALUES = Inst(ConfPhaseValues, _tuple=[Inst(NameAndValue, _tuple=[Str, Any_]), Any_])
CONFIGURATION = Inst(Configuration, _tuple=[EXE_CONF, CONF_VALUES, Iface(MkSetupSettingsHandlerI)])
TEST_CASE = Inst(TestCase, _tuple=[Any_, Any_, Any_, Any_, Any_])
INSTRUCTION_SETTINGS = Inst(InstructionSettings, _environ=ENVIRON, _default_environ_getter=Any_,
                            _timeout_in_seconds=Opt(Int))


def _mk_executor(with_sds):
    """a _PartialExecutor as __init__ leaves it (with_sds: after the sandbox has been constructed)"""

    def mk(interp, name):
        x = object.__new__(_PartialExecutor)
        conf = CONFIGURATION.make(interp, name + '.conf')
        x.conf = conf
        x.exe_conf = conf[0]
        x.conf_values = conf[1]
        x._test_case = TEST_CASE.make(interp, name + '._test_case')
        x._setup_settings_handler = Any_.make(interp, name + '._setup_settings_handler')
        x._os_services = conf[0][4]
        x._instruction_settings = INSTRUCTION_SETTINGS.make(interp, name + '._instruction_settings')
        x._PartialExecutor__sandbox_directory_structure = SDS.make(interp, name + '.sds') if with_sds else None
        x._phase_tmp_space_factory = None
        x._action_to_check_outcome = None
        return x

    return Custom(mk)


EXECUTOR_PRE_SDS = _mk_executor(False)
EXECUTOR_POST_SDS = _mk_executor(True)

M.contract('exactly_lib.execution.partial_execution.impl.act_helper:ActHelper.__init__', trusted=True,
           params=dict(self=Any_, actor_name=Str, act_phase=Any_))
M.trust('ActHelper.__init__ collects the act phase source: no effect on the file system, the current directory '
        'or any environ (C01 contracts ActHelper)')


def handler_environs(trace):
    """the arguments mk_setup_settings_handler was called with"""
    return [e[2][0] for e in trace if e[0] == 'mk-setup-settings-handler']


M.contract(P_EXECUTOR + ':_PartialExecutor.__init__',
           props=('C04', 'C17'),
           params=dict(self=Inst(_PartialExecutor), conf=CONFIGURATION, test_case=TEST_CASE), inline=True,
           ensures={
               'instruction-settings-environ-is-a-fresh-copy-of-the-configured': lambda self, conf:
               (self._instruction_settings.environ() is None) if conf.exe_conf.environ is None
               else is_fresh_copy(self._instruction_settings.environ(), conf.exe_conf.environ),
               'setup-settings-environ-is-another-fresh-copy': lambda self, conf, trace:
               len(handler_environs(trace)) == 1 and (
                   (handler_environs(trace)[0] is None) if conf.exe_conf.environ is None
                   else (is_fresh_copy(handler_environs(trace)[0], conf.exe_conf.environ)
                         and handler_environs(trace)[0] is not self._instruction_settings.environ())),
               'timeout-and-default-environ-getter-as-configured': lambda self, conf:
               self._instruction_settings.timeout_in_seconds() == conf.exe_conf.timeout_in_seconds
               and self._instruction_settings.default_environ_getter is conf.exe_conf.default_environ_getter,
               'no-sandbox-yet': lambda self: self._sds is None,
               'no-effect-on-file-system-or-cwd': lambda trace: events(trace, 'chdir', *FS_EVENTS) == [],
           },
           raises_only=())

M.contract(P_EXECUTOR + ':_PartialExecutor._env_vars__read_only',
           params=dict(self=EXECUTOR_PRE_SDS), inline=True,
           ensures={'read-only-view-of-the-instruction-settings-environ-or-none': lambda self, result:
           (result is None) if self._instruction_settings.environ() is None
           else is_read_only_view_of(result, self._instruction_settings.environ())},
           raises_only=())

M.contract(P_EXECUTOR + ':_PartialExecutor._construct_and_set_sds',
           params=dict(self=EXECUTOR_PRE_SDS), inline=True,
           ensures={
               'sandbox-is-built-in-the-new-empty-directory-of-the-resolver': lambda self, trace:
               [e[0] for e in trace][:3] == ['mkdtemp', 'resolve', 'construct_at']
               and trace[1][1] == trace[0][1] and trace[2][1]['directory_root'] == trace[1][2]
               and events(trace, *FS_EVENTS)[1:] == construct_at_events(trace[1][2]),
               'has-the-documented-layout': lambda self, trace: layout(self._sds, trace[1][2]),
           },
           raises_only=())

M.contract(P_EXECUTOR + ':_PartialExecutor._set_cwd_to_act_dir',
           params=dict(self=EXECUTOR_POST_SDS), inline=True,
           setup=lambda interp, args, ghosts: fsmodel.declare_dir(interp, args['self']._sds.act_dir._s),
           requires=lambda self: is_dir(self._sds.act_dir),
           ensures={'cwd-is-act': lambda self: os.getcwd() == str(self._sds.act_dir),
                    'one-chdir': lambda self, trace: trace == [('chdir', str(self._sds.act_dir))]},
           raises_only=())

M.contract(P_EXECUTOR + ':_PartialExecutor._setup_post_sds_environment',
           params=dict(self=EXECUTOR_PRE_SDS), event='SDS',
           ensures={
               'sandbox-constructed': lambda self: self._sds is not None,
               'fresh-sandbox-with-the-documented-layout': lambda self, trace:
               [e[0] for e in trace][:3] == ['mkdtemp', 'resolve', 'construct_at']
               and trace[1][1] == trace[0][1] and trace[2][1]['directory_root'] == trace[1][2]
               and layout(self._sds, trace[1][2]),
               'starts-with-act-as-current-directory': lambda self: os.getcwd() == str(self._sds.act_dir),
               'exactly-one-chdir': lambda self, trace: events(trace, 'chdir') == [('chdir', str(self._sds.act_dir))],
               'tmp-file-space-is-rooted-at-internal-tmp': lambda self:
               str(self._phase_tmp_space_factory._root_dir) == str(self._sds.internal_tmp_dir),
               'no-file-system-effect-besides-construction': lambda trace:
               events(trace, *FS_EVENTS) == [trace[0]] + construct_at_events(trace[1][2]),
               'nothing-is-put-into-the-users-tmp': lambda self, trace:
               not any(below(p, self._sds.user_tmp_dir) for p in fs_paths(trace)),
           },
           raises_only=())


# ============================================================================ partial_execution/impl/atc_execution.py

from exactly_lib.execution.partial_execution.impl.atc_execution import ActionToCheckExecutor
from exactly_lib.test_case.phases.instruction_environment import InstructionEnvironmentForPostSdsStep, TmpFileStorage
from exactly_lib.test_case.result.eh import ExitCodeOrHardError
from exactly_lib.util.file_utils.std import StdOutputFiles
from exactly_lib.util.process_execution.execution_elements import ProcessExecutionSettings

EXIT_CODE_OR_HARD_ERROR = Inst(ExitCodeOrHardError, _tuple=[Opt(Int), Opt(Any_)])


def _m_atc_execute(interp, self, args, kwargs):
    """The action to check (environment): it is handed the output files, writes what it writes to them, and
    then returns an exit code or a hard error -- or raises anything."""
    from pyvc.interp import PyRaise, ArbitraryException
    st = interp.st
    environment, os_services, atc_input, output = args
    if isinstance(output, fsmodel.SOpt):
        output = interp.resolve(output)
    st.emit('atc-execute', output)
    if isinstance(output, StdOutputFiles):
        for f, text in ((output.out, 'atc.stdout'), (output.err, 'atc.stderr')):
            fsmodel._write(interp, f, Str.make(interp, text))
    if st.choose(2) == 1:
        st.emit('atc-execute:raised')
        raise PyRaise(ArbitraryException('the action to check raises'))
    return EXIT_CODE_OR_HARD_ERROR.make(interp, 'atc.result')


class AtcI(Interface):
    methods = {'execute': Method(model=_m_atc_execute)}


class AtcInputI(Interface):
    methods = {'resolve': Method(returns=Any_), 'validate': Method(returns=Opt(Any_))}


class TmpStorageI(Interface):
    target_class = TmpFileStorage
    attrs = {'paths_access': Any_}


def _mk_atc_executor(interp, name):
    sds = SDS.make(interp, name + '.sds')
    fsmodel.declare_dir(interp, sds.result_dir._s)
    env = interp.call(InstructionEnvironmentForPostSdsStep,
                      [Any_.make(interp, name + '.hds'),
                       Inst(ProcessExecutionSettings, _tuple=[Opt(Int), Opt(Any_)]).make(interp, name + '.pes'),
                       sds,
                       Iface(TmpStorageI).make(interp, name + '.tmp'),
                       Any_.make(interp, name + '.symbols'),
                       Int.make(interp, name + '.mem_buff_size')], {})
    return interp.call(ActionToCheckExecutor,
                       [Iface(AtcI).make(interp, name + '.atc'),
                        env, env,
                        Any_.make(interp, name + '.os_services'),
                        Iface(AtcInputI).make(interp, name + '.atc_input'),
                        Opt(Any_).make(interp, name + '.exe_atc_and_skip_assertions')], {})


ATC_EXECUTOR = Custom(_mk_atc_executor)


def opened(trace):
    """(path, mode) of the files opened, in order"""
    return [(e[1], e[2]) for e in trace if e[0] == 'open']


def file_of(trace, path):
    """the file object of the (single) `open` of path"""
    return [e[3] for e in trace if e[0] == 'open' and e[1] == path][0]


def written_to(trace, path):
    """the texts written to the file opened as path, in order"""
    return [e[2] for e in trace if e[0] == 'write' and e[1] is file_of(trace, path)]


def closed_then_read_only(trace, path):
    """the file is closed exactly once, afterwards made read-only, and nothing else happens to it later"""
    f = file_of(trace, path)
    tail = [e for e in trace if (e[0] in ('close', 'write') and e[1] is f) or (e[0] == 'chmod' and e[1] == path)]
    return tail[-2:] == [('close', f), ('chmod', path, 0o444)] \
        and len([e for e in tail if e[0] in ('close', 'chmod')]) == 2


def closed(trace, path):
    f = file_of(trace, path)
    return len([e for e in trace if e[0] == 'close' and e[1] is f]) == 1 \
        and [e for e in trace if (e[0] in ('close', 'write') and e[1] is f)][-1][0] == 'close'


def same_object(a, b):
    return a is b


def _m_same_object(interp, args, kwargs):
    a, b = [interp.resolve(x) if isinstance(x, fsmodel.SOpt) else x for x in args]
    return a is b


M.model(same_object, _m_same_object)


def atc_runs(trace):
    return [e for e in trace if e[0] == 'atc-execute']


def result_file(self, name):
    return str(self.tcds.sds.result_dir / name)


def while_both_open(trace, self):
    """the action runs after stdout and stderr have been opened and before anything is closed"""
    kinds = [e[0] for e in trace if e[0] in ('open', 'close', 'atc-execute')]
    return kinds[:3] == ['open', 'open', 'atc-execute']


M.contract(P_ATC + ':ActionToCheckExecutor._do_execute',
           params=dict(self=ATC_EXECUTOR), returns=EXIT_CODE_OR_HARD_ERROR,
           requires=lambda self: is_dir(self.tcds.sds.result_dir),
           old=lambda self: self._atc_outcome,
           ensures={
               # ---- not --act: result/ gets exactly stdout, stderr (and exit-code iff the action gave one)
               'result-dir-holds-exactly-stdout-stderr-exitcode': (lambda self, result, trace:
               self.exe_atc_and_skip_assertions is not None
               or opened(trace) == [(result_file(self, 'stdout'), 'w'), (result_file(self, 'stderr'), 'w')]
               + ([(result_file(self, 'exit-code'), 'w')] if result.is_exit_code else []), 'check-only'),
               'the-action-writes-to-these-files': (lambda self, trace:
               len(atc_runs(trace)) == 1 and (
                   same_object(atc_runs(trace)[0][1], self.exe_atc_and_skip_assertions)
                   if self.exe_atc_and_skip_assertions is not None
                   else (atc_runs(trace)[0][1].out is file_of(trace, result_file(self, 'stdout'))
                         and atc_runs(trace)[0][1].err is file_of(trace, result_file(self, 'stderr'))
                         and while_both_open(trace, self))), 'check-only'),
               'stdout-stderr-hold-the-actions-output-only': (lambda self, trace, ghost:
               self.exe_atc_and_skip_assertions is not None
               or (len(written_to(trace, result_file(self, 'stdout'))) == 1
                   and len(written_to(trace, result_file(self, 'stderr'))) == 1), 'check-only'),
               'exit-code-file-holds-the-exit-code': (lambda self, result, trace:
               self.exe_atc_and_skip_assertions is not None or not result.is_exit_code
               or written_to(trace, result_file(self, 'exit-code')) == [str(result.exit_code)], 'check-only'),
               'files-closed-and-made-read-only': (lambda self, result, trace:
               self.exe_atc_and_skip_assertions is not None
               or (closed_then_read_only(trace, result_file(self, 'stdout'))
                   and closed_then_read_only(trace, result_file(self, 'stderr'))
                   and (not result.is_exit_code
                        or closed_then_read_only(trace, result_file(self, 'exit-code')))), 'check-only'),
               'with --act nothing is written to the sandbox': (lambda self, trace:
               self.exe_atc_and_skip_assertions is None or events(trace, *FS_EVENTS) == [], 'check-only'),
               'nothing-outside-result-is-touched': (lambda self, trace:
               all(below(p, self.tcds.sds.result_dir) for p in fs_paths(trace)), 'check-only'),
               'nothing-is-put-into-the-users-tmp': (lambda self, trace:
               not any(below(p, self.tcds.sds.user_tmp_dir) or str(p) == str(self.tcds.sds.user_tmp_dir)
                       for p in fs_paths(trace)), 'check-only'),
               # ---- the outcome object (C01 uses these two)
               'outcome-registered-iff-exit-code': lambda self, result, old:
               (self._atc_outcome is not None and self._atc_outcome.exit_code == result.exit_code)
               if result.is_exit_code else self._atc_outcome is old,
           },
           raises={Exception: {'ensures': lambda self, trace:
           events(trace, 'atc-execute:raised') != []
           and (self.exe_atc_and_skip_assertions is not None
                or (opened(trace) == [(result_file(self, 'stdout'), 'w'), (result_file(self, 'stderr'), 'w')]
                    and closed(trace, result_file(self, 'stdout')) and closed(trace, result_file(self, 'stderr'))))}},
           raises_only=())


# ============================================================================ execution/phase_file_space.py
# Exactly's own temporary files: every storage handed out lies strictly below the root the factory was given
# (which _setup_post_sds_environment proves to be internal/tmp, never the user's tmp/).

from exactly_lib.execution.phase_file_space import PhaseTmpFileSpaceFactory
from exactly_lib.test_case import phase_identifier

P_PFS = 'exactly_lib.execution.phase_file_space'
FACTORY = Inst(PhaseTmpFileSpaceFactory, _root_dir=PATH)
PHASE = OneOf(*phase_identifier.ALL)

_STORAGE_CLAUSES = {
    'strictly-below-the-root-it-was-given': lambda self, result: below(result.root_dir__may_not_exist, self._root_dir),
    'file-space-is-rooted-at-that-directory': lambda result:
    result.paths_access._root_dir_to_create_on_demand is result.root_dir__may_not_exist,
    'nothing-is-created-yet': lambda trace: events(trace, *FS_EVENTS) == [],
}

for _name, _params in (('for_phase__validation', dict(self=FACTORY, phase=PHASE)),
                       ('for_phase__main', dict(self=FACTORY, phase=PHASE)),
                       ('instruction__validation', dict(self=FACTORY, phase=PHASE, instruction_number=Pos)),
                       ('instruction__main', dict(self=FACTORY, phase=PHASE, instruction_number=Pos))):
    M.contract('%s:PhaseTmpFileSpaceFactory.%s' % (P_PFS, _name), params=_params, inline=True,
               ensures=dict(_STORAGE_CLAUSES), raises_only=())


# ============================================================================ instruction environments

M.contract(P_EXECUTOR + ':_PartialExecutor._post_sds_environment',
           params=dict(self=EXECUTOR_POST_SDS, tmp_file_storage=Iface(TmpStorageI), symbols=Any_), inline=True,
           ensures={
               'carries-the-sandbox-and-the-given-tmp-storage': lambda self, tmp_file_storage, result:
               result.sds is self._sds and result.tmp_dir__path_access is tmp_file_storage,
               'environ-is-a-read-only-view-of-the-instruction-settings-environ': lambda self, result:
               (result.proc_exe_settings.environ is None) if self._instruction_settings.environ() is None
               else is_read_only_view_of(result.proc_exe_settings.environ, self._instruction_settings.environ()),
               'timeout-is-the-current-setting': lambda self, result:
               result.proc_exe_settings.timeout_in_seconds == self._instruction_settings.timeout_in_seconds(),
               'no-effect-on-file-system-or-cwd': lambda trace: events(trace, 'chdir', *FS_EVENTS) == [],
           },
           raises_only=())

# ============================================================================ execution/sandbox_dir_resolving.py

P_SDR = 'exactly_lib.execution.sandbox_dir_resolving'


def gives_a_new_empty_directory(resolver, prefix, trace):
    """calling the resolver creates a new directory with tempfile.mkdtemp(prefix=prefix) and returns its name"""
    n = len(trace)
    d = resolver()
    return trace[n:] == [('mkdtemp', d, prefix)] and is_dir(d)


M.contract(P_SDR + ':mk_tmp_dir_with_prefix', params=dict(dir_name_prefix=Str), inline=True,
           ensures={'nothing-is-created-before-it-is-called': lambda trace: trace == [],
                    'every-call-of-the-result-makes-a-new-directory': lambda dir_name_prefix, result, trace:
                    gives_a_new_empty_directory(result, dir_name_prefix, trace)
                    and gives_a_new_empty_directory(result, dir_name_prefix, trace)
                    and trace[0][1] != trace[1][1]},
           raises_only=())
M.trust('RootResolverI (the configured sds_root_dir_resolver) returns a new, empty directory: proved of the '
        'production resolver mk_tmp_dir_with_prefix given the model of tempfile.mkdtemp; other resolvers are '
        'configuration')

# ============================================================================ processing/processors.py

from exactly_lib.processing import processors

P_PROC = 'exactly_lib.processing.processors'
PROC_EXECUTOR = Inst(processors._Executor, default_act_phase_setup=Any_, _is_keep_sandbox=Bool, _exe_conf=EXE_CONF)


def same_but_environ_and_symbols(a, b):
    return (a.default_environ_getter is b.default_environ_getter and a.timeout_in_seconds == b.timeout_in_seconds
            and a.os_services is b.os_services and a.sds_root_dir_resolver is b.sds_root_dir_resolver
            and a.mem_buff_size == b.mem_buff_size
            and same_object(a.exe_atc_and_skip_assertions, b.exe_atc_and_skip_assertions))


def symbol_copies(trace):
    """(table, copy) of every SymbolTable.copy()"""
    return [(e[1], trace[i + 1][2]) for i, e in enumerate(trace) if e[0] == 'symbols-copy']


M.contract(P_PROC + ':_Executor._exe_conf_that_may_be_updated', params=dict(self=PROC_EXECUTOR), inline=True,
           props=('C04', 'C17'),
           ensures={
               'environ-is-a-fresh-copy': lambda self, result:
               (result.environ is None) if self._exe_conf.environ is None
               else is_fresh_copy(result.environ, self._exe_conf.environ),
               'predefined-symbols-is-a-copy': (lambda self, result, trace:
               symbol_copies(trace) == [(self._exe_conf.predefined_symbols, result.predefined_symbols)]
               and result.predefined_symbols is not self._exe_conf.predefined_symbols, 'check-only'),
               'everything-else-is-the-configured': lambda self, result:
               same_but_environ_and_symbols(result, self._exe_conf),
               'the-configuration-itself-is-not-changed': lambda self, result: result is not self._exe_conf,
           },
           raises_only=())


# ============================================================================ frame over the whole package (syntactic)
# "The environment variables and the current directory of the Exactly process are what they were before":
# besides the contracts above this needs that NO other code writes os.environ or changes directory.  These are
# syntactic obligations over every file of the CURRENT source tree.

import pyvc

_ENV_MUTATORS = ('update', 'pop', 'popitem', 'setdefault', 'clear', '__setitem__', '__delitem__')
_OS_WRITERS = ('putenv', 'unsetenv')
_CHDIR_NAMES = ('chdir', 'fchdir')


def _package_files():
    root = os.path.join(pyvc.REPO_SRC, 'exactly_lib')
    for d, _, fs in sorted(os.walk(root)):
        for f in sorted(fs):
            if f.endswith('.py'):
                yield os.path.join(d, f)


class _Scan(ast.NodeVisitor):
    """collects, per file: every use of os.environ with its syntactic context, every os.putenv/unsetenv,
    every *.chdir / *.fchdir, suspicious imports from os, and the enclosing function of each"""

    def __init__(self, rel):
        self.rel = rel
        self.scope = []
        self.parents = []
        self.os_names = {'os'}
        self.environ_names = set()
        self.environ_uses = []      # (where, context)
        self.os_writers = []
        self.chdirs = []
        self.bad_imports = []
        self.attr_uses = {}         # attribute / name -> [(where, inside `with preserved_cwd()`)]

    def where(self, node):
        return '%s:%s' % (self.rel[:-3].replace(os.sep, '.'), '.'.join(self.scope) or '<module>')

    def visit(self, node):
        self.parents.append(node)
        try:
            return ast.NodeVisitor.visit(self, node)
        finally:
            self.parents.pop()

    def _scoped(self, node):
        self.scope.append(node.name)
        self.generic_visit(node)
        self.scope.pop()

    visit_FunctionDef = visit_AsyncFunctionDef = visit_ClassDef = _scoped

    def visit_Import(self, node):
        for al in node.names:
            if al.name == 'os' and al.asname:
                self.os_names.add(al.asname)

    def visit_ImportFrom(self, node):
        if node.module == 'os':
            for al in node.names:
                if al.name == 'environ':
                    self.environ_names.add(al.asname or al.name)
                if al.name in _OS_WRITERS + _CHDIR_NAMES + ('*',):
                    self.bad_imports.append((self.where(node), al.name))
        if node.module == 'contextlib':
            for al in node.names:
                if al.name == 'chdir':
                    self.bad_imports.append((self.where(node), 'contextlib.chdir'))

    def _is_os(self, n):
        return isinstance(n, ast.Name) and n.id in self.os_names

    def _is_environ(self, n):
        return (isinstance(n, ast.Attribute) and n.attr == 'environ' and self._is_os(n.value)) or \
            (isinstance(n, ast.Name) and n.id in self.environ_names and isinstance(n.ctx, ast.Load))

    def _in_preserved_cwd(self):
        for p in self.parents:
            if isinstance(p, ast.With):
                for it in p.items:
                    c = it.context_expr
                    if isinstance(c, ast.Call) and isinstance(c.func, ast.Name) and c.func.id == 'preserved_cwd':
                        return True
        return False

    def generic_visit(self, node):
        if self._is_environ(node):
            parent = self.parents[-2] if len(self.parents) > 1 else None
            if isinstance(parent, ast.Call) and isinstance(parent.func, ast.Name) and parent.func.id == 'dict' \
                    and parent.args == [node] and not parent.keywords:
                ctx = 'dict(os.environ)'
            elif isinstance(parent, ast.Attribute) and parent.attr in ('get', 'copy', 'keys', 'values', 'items'):
                ctx = 'read:' + parent.attr
            else:
                ctx = 'OTHER:' + type(parent).__name__ + (':' + parent.attr if isinstance(parent, ast.Attribute)
                                                          else '')
            self.environ_uses.append((self.where(node), ctx))
        if isinstance(node, ast.Attribute):
            if node.attr in _OS_WRITERS and self._is_os(node.value):
                self.os_writers.append((self.where(node), node.attr))
            if node.attr in _CHDIR_NAMES:
                self.chdirs.append(self.where(node))
            self.attr_uses.setdefault(node.attr, []).append((self.where(node), self._in_preserved_cwd()))
        if isinstance(node, ast.Name) and isinstance(node.ctx, ast.Load):
            self.attr_uses.setdefault(node.id, []).append((self.where(node), self._in_preserved_cwd()))
        ast.NodeVisitor.generic_visit(self, node)


def _scan_package():
    scans = []
    base = pyvc.REPO_SRC + os.sep
    for fn in _package_files():
        with open(fn, encoding='utf-8') as f:
            tree = ast.parse(f.read(), fn)
        sc = _Scan(fn[len(base):])
        sc.visit(tree)
        scans.append(sc)
    return scans


CHDIR_CALL_SITES = {
    'exactly_lib.util.file_utils.misc_utils:preserved_cwd',
    'exactly_lib.execution.partial_execution.impl.executor:_PartialExecutor._set_cwd_to_act_dir',
    'exactly_lib.impls.instructions.multi_phase.change_dir:InstructionEmbryo.custom_main',
}


USER_TMP_READERS = ['exactly_lib.tcfs.relativity_root:<module>', 'exactly_lib.tcfs.tcds_symbols:set_at_setup_main']


@M.check('frame: os.environ is never written, chdir call sites are the known ones')
def _frame(ctx):
    scans = _scan_package()
    ctx.obligation('the package has source files to scan', len(scans) > 100, 'scan', detail={'files': len(scans)})
    uses = [u for sc in scans for u in sc.environ_uses]
    bad = [u for u in uses if u[1].startswith('OTHER')]
    ctx.obligation('every use of os.environ is a read into a new dict (dict(os.environ)) or a plain read',
                   not bad, 'scan', detail={'uses': uses, 'offending': bad})
    writers = [w for sc in scans for w in sc.os_writers]
    ctx.obligation('no call of os.putenv / os.unsetenv', not writers, 'scan', detail={'offending': writers})
    imports = [w for sc in scans for w in sc.bad_imports]
    ctx.obligation('no `from os import putenv/unsetenv/chdir/fchdir/*`, no contextlib.chdir', not imports, 'scan',
                   detail={'offending': imports})
    chdirs = sorted({c for sc in scans for c in sc.chdirs})
    ctx.obligation('the call sites of chdir are exactly preserved_cwd, _set_cwd_to_act_dir and the cd instruction',
                   set(chdirs) == CHDIR_CALL_SITES, 'scan',
                   detail={'found': chdirs, 'new': sorted(set(chdirs) - CHDIR_CALL_SITES),
                           'missing': sorted(CHDIR_CALL_SITES - set(chdirs))})

    # the chain that puts every chdir of the executor inside the dynamic extent of preserved_cwd
    def users(name):
        return sorted({w for sc in scans for (w, _) in sc.attr_uses.get(name, [])})

    px = 'exactly_lib.execution.partial_execution.impl.executor:'
    ctx.obligation('_set_cwd_to_act_dir is used only by _setup_post_sds_environment',
                   users('_set_cwd_to_act_dir') == [px + '_PartialExecutor._setup_post_sds_environment'], 'scan',
                   detail={'users': users('_set_cwd_to_act_dir')})
    ctx.obligation('_setup_post_sds_environment is used only by _PartialExecutor.execute',
                   users('_setup_post_sds_environment') == [px + '_PartialExecutor.execute'], 'scan',
                   detail={'users': users('_setup_post_sds_environment')})
    ctx.obligation('_PartialExecutor is instantiated only by executor.execute',
                   users('_PartialExecutor') == [px + 'execute'], 'scan', detail={'users': users('_PartialExecutor')})
    outside = [u for u in users('user_tmp_dir') if not u.startswith('exactly_lib.tcfs.sds:')]
    ctx.obligation('SandboxDs.user_tmp_dir is read only where user-given paths and the EXACTLY_TMP symbol are resolved',
                   outside == USER_TMP_READERS, 'scan', detail={'users': users('user_tmp_dir')})
    exe_uses = [(w, inside) for sc in scans if sc.rel.endswith(os.path.join('partial_execution', 'execution.py'))
                for (w, inside) in sc.attr_uses.get('execute', [])]
    ctx.obligation('partial_execution.execution.execute calls executor.execute inside `with preserved_cwd()`',
                   exe_uses == [('exactly_lib.execution.partial_execution.execution:execute', True)], 'scan',
                   detail={'uses': exe_uses})


@M.check('path-model')
def _path_model(ctx):
    """the join of the ghost path model against pathlib, on the names the code under contract joins"""
    names = [sds_module.SUB_DIRECTORY__ACT, sds_module.SUB_DIRECTORY__TMP_USER, sds_module.SUB_DIRECTORY__RESULT,
             sds_module.SUB_DIRECTORY__INTERNAL, sds_module.SUB_DIRECTORY__TMP_INTERNAL, sds_module.SUB_DIRECTORY__LOG,
             sds_module.RESULT_FILE__STDOUT, sds_module.RESULT_FILE__STDERR, sds_module.RESULT_FILE__EXITCODE,
             PhaseTmpFileSpaceFactory.VALIDATION_SUB_DIR] \
        + [str(p) for p in sds_module.SDS_SUB_DIRECTORIES.values()] \
        + [phase_file_space._phase_dir(p) for p in phase_identifier.ALL] \
        + [str(n).zfill(3) for n in (1, 7, 42, 999, 1000)]
    bad = fsmodel.crosscheck(names)
    ctx.obligation('p / name == str(p) + "/" + name for the names joined by the code under contract', not bad,
                   'enumeration', detail={'names': names, 'disagreements': bad})
    ctx.obligation('the documented names: act, tmp, result, internal/{tmp,log}, stdout, stderr, exit-code',
                   (sds_module.SUB_DIRECTORY__ACT, sds_module.SUB_DIRECTORY__TMP_USER,
                    sds_module.SUB_DIRECTORY__RESULT, sds_module.SUB_DIRECTORY__INTERNAL,
                    sds_module.SUB_DIRECTORY__TMP_INTERNAL, sds_module.SUB_DIRECTORY__LOG,
                    sds_module.RESULT_FILE__STDOUT, sds_module.RESULT_FILE__STDERR, sds_module.RESULT_FILE__EXITCODE)
                   == ('act', 'tmp', 'result', 'internal', 'tmp', 'log', 'stdout', 'stderr', 'exit-code'),
                   'enumeration')


# ============================================================================ the parts of _do_execute on their own

M.contract(P_ATC + ':ActionToCheckExecutor._store_exit_code',
           params=dict(self=ATC_EXECUTOR, exitcode=Int), inline=True,
           requires=lambda self: is_dir(self.tcds.sds.result_dir),
           ensures={'exit-code file: the decimal exit code, closed, then read-only': lambda self, exitcode, trace:
           [e[0] for e in trace] == ['open', 'write', 'close', 'chmod']
           and trace[0][1:3] == (result_file(self, 'exit-code'), 'w')
           and trace[1][1] is trace[0][3] and trace[1][2] == str(exitcode)
           and trace[2][1] is trace[0][3] and trace[3] == ('chmod', result_file(self, 'exit-code'), 0o444)},
           raises_only=())

M.contract(P_ATC + ':ActionToCheckExecutor._register_outcome',
           params=dict(self=ATC_EXECUTOR, exit_code_or_hard_error=EXIT_CODE_OR_HARD_ERROR), inline=True,
           requires=lambda self: is_dir(self.tcds.sds.result_dir),
           old=lambda self: self._atc_outcome,
           ensures={
               'outcome registered iff an exit code': lambda self, exit_code_or_hard_error, old:
               (self._atc_outcome is not None and self._atc_outcome.exit_code == exit_code_or_hard_error.exit_code)
               if exit_code_or_hard_error.is_exit_code else self._atc_outcome is old,
               'exit-code file written iff an exit code and not --act': lambda self, exit_code_or_hard_error, trace:
               opened(trace) == ([(result_file(self, 'exit-code'), 'w')]
                                 if exit_code_or_hard_error.is_exit_code and self.exe_atc_and_skip_assertions is None
                                 else []),
           },
           raises_only=())


def harness_read_only_on_close(path, text, then_raise):
    """`open_and_make_read_only_on_close__text` (a generator-based context manager): the file is closed however
    the body ends, and made read-only when the body completes"""
    from exactly_lib.util.file_utils.misc_utils import open_and_make_read_only_on_close__text
    try:
        with open_and_make_read_only_on_close__text(path, 'w') as f:
            f.write(text)
            if then_raise:
                raise KeyError('body fails')
    except KeyError:
        return 'raised'
    return 'completed'


M.contract('contracts.C04_sandbox:harness_read_only_on_close',
           params=dict(path=Custom(lambda interp, name: interp.binop(ast.Div, PATH.make(interp, name + '.dir'),
                                                                       'f.txt')),
                       text=Str, then_raise=Bool),
           setup=lambda interp, args, ghosts: fsmodel.declare_dir(interp, args['path']._parent._s),
           ensures={'closed however the body ends; read-only when it completes': lambda path, text, result, trace:
           [e[0] for e in trace] == (['open', 'write', 'close', 'chmod'] if result == 'completed'
                                     else ['open', 'write', 'close'])
           and trace[0][1:3] == (str(path), 'w') and trace[1][1:] == (trace[0][3], text)
           and (result != 'completed' or trace[3] == ('chmod', str(path), 0o444))},
           raises_only=())


# ============================================================================ util/file_utils/dir_file_spaces.py
# The file space Exactly's own temporary files come from: every path it hands out, and the only directories it
# creates, are its root (on demand) and entries directly below it.

from exactly_lib.util.file_utils import dir_file_spaces
from exactly_lib.util.file_utils.dir_file_spaces import DirFileSpaceAsDirCreatedOnDemand, FileNamesConfig

P_DFS = 'exactly_lib.util.file_utils.dir_file_spaces'


def _m_next_name(interp, self, args, kwargs):
    """the name sequences are util.str_.sequences.int_strings(1, 2) (tmp_dir_file_spaces.std_tmp_dir_file_names):
    decimal numbers padded with zeros.  All that is used of them: a name is not empty, contains no '/' and
    does not start with '.'
    (checked for the configured sequences by the obligation `std-file-names`)"""
    name = Str.make(interp, 'file-name')
    interp.st.assume(interp.not_(interp.eq(name, '')))
    interp.st.assume(interp.not_(interp.contains(name, '/')))
    interp.st.assume(interp.not_(interp.call(interp.getattr(name, 'startswith'), ['.'], {})))
    return name


class NamesI(Interface):
    methods = {'__next__': Method(model=_m_next_name)}


class NamesOfNamesI(Interface):
    methods = {'__next__': Method(returns=Iface(NamesI))}


M.trust('NamesI: the file-name iterators of a FileNamesConfig yield non-empty names without "/" and leading "." -- true of what '
        'tmp_dir_file_spaces.std_tmp_dir_file_space configures (sequences.int_strings(1, 2)): obligation '
        '`std-file-names`')
FILE_NAMES_CONFIG = Inst(FileNamesConfig, _suffix_separator=Const('-'), _root_file_names=Iface(NamesI),
                         _sub_space_file_names=Iface(NamesOfNamesI))


def _mk_dir_file_space(interp, name):
    x = object.__new__(DirFileSpaceAsDirCreatedOnDemand)
    x._file_names = FILE_NAMES_CONFIG.make(interp, name + '._file_names')
    root = PATH.make(interp, name + '.root')
    x._root_dir_to_create_on_demand = root
    created = Bool.make(interp, name + '.created')
    if interp.branch(created):
        x._existing_root_dir_path = root
        fsmodel.declare_dir(interp, root._s)
    else:
        x._existing_root_dir_path = None
    return x


DIR_FILE_SPACE = Custom(_mk_dir_file_space)


def directly_below(p, d):
    """p is d / NAME for a NAME without '/' """
    return below(p, d) and str(p.parent) == str(d) and '/' not in p.name


def only_root_created(self, trace):
    """the only thing created is the root directory (and missing ancestors of it), and only if it was not yet"""
    return all(e == ('mkdir', str(self._root_dir_to_create_on_demand)) for e in events(trace, *FS_EVENTS))


M.contract(P_DFS + ':DirFileSpaceAsDirCreatedOnDemand.new_path',
           params=dict(self=DIR_FILE_SPACE, name_suffix=Opt(Str)), inline=True,
           ensures={'a path directly below the root of the space': lambda self, result:
           directly_below(result, self._root_dir_to_create_on_demand),
                    'only the root is created': lambda self, trace: only_root_created(self, trace),
                    'the root exists afterwards': lambda self: is_dir(self._root_dir_to_create_on_demand)},
           raises_only=())

M.contract(P_DFS + ':DirFileSpaceAsDirCreatedOnDemand.new_path_as_existing_dir',
           params=dict(self=DIR_FILE_SPACE, name_suffix=Opt(Str)), inline=True,
           ensures={'a new directory directly below the root of the space': lambda self, result, trace:
           directly_below(result, self._root_dir_to_create_on_demand)
           and events(trace, *FS_EVENTS)[-1] == ('mkdir', str(result))
           and only_root_created(self, events(trace, *FS_EVENTS)[:-1])},
           raises_only=())

M.contract(P_DFS + ':DirFileSpaceAsDirCreatedOnDemand.sub_dir_space',
           params=dict(self=DIR_FILE_SPACE, name_suffix=Opt(Str)), inline=True,
           ensures={'a space rooted directly below the root of this space': lambda self, result:
           type(result) is DirFileSpaceAsDirCreatedOnDemand
           and directly_below(result._root_dir_to_create_on_demand, self._root_dir_to_create_on_demand)
           and result._existing_root_dir_path is None,
                    'only the root is created': lambda self, trace: only_root_created(self, trace)},
           raises_only=())


@M.check('std-file-names')
def _std_file_names(ctx):
    """the names std_tmp_dir_file_space configures are what NamesI assumes (first 1200 of each sequence)"""
    import itertools
    from exactly_lib.common import tmp_dir_file_spaces
    space = tmp_dir_file_spaces.std_tmp_dir_file_space(pathlib.Path('/nonexistent/root'))
    cfg = space._file_names
    roots = list(itertools.islice(cfg.root_file_names, 1200))
    subs = list(itertools.islice(next(cfg.sub_space_file_names), 1200))
    expected = [str(n).zfill(2) for n in range(1, 1201)]
    ctx.obligation('root file names are str(n).zfill(2), n = 1, 2, ...', roots == expected, 'enumeration')
    ctx.obligation('sub space file names are str(n).zfill(2), n = 1, 2, ...', subs == expected, 'enumeration')
    ctx.obligation('the suffix separator is "-"', cfg.suffix_separator == '-', 'enumeration')
    ctx.obligation('names are not empty, contain no "/" and do not start with "."',
                   all(n and '/' not in n and not n.startswith('.') for n in roots + subs),
                   'enumeration')
