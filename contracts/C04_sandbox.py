"""C04 -- sandbox lifecycle and isolation of the Exactly process.  See DESIGN.md section 3 / C04.

A proof over a ghost file system and ghost process state (``pyvc/fsmodel.py``: the assumed contracts of
``Path.mkdir/open/chmod/resolve``, ``os.getcwd/chdir``, ``shutil.rmtree``, ``tempfile.mkdtemp``).  Paths are
``pathlib`` values modelled by their strings with ``/`` as an injective join (``pyvc/pymodels/pathlib_model.py``).
"""
import ast
import os
import pathlib
import shutil
import tempfile
from pathlib import Path
from types import MappingProxyType

from pyvc import fsmodel
from pyvc.api import (Module, Interface, Method, Iface, Inst, Int, Nat, Pos, Bool, Str, Opt, OneOf, Const, Union,
                      ListOf, FixedList, Any_, EnumOf, Custom, new_opaque)
from contracts.common import implies, iff

from exactly_lib.execution.partial_execution import execution as partial_execution
from exactly_lib.execution.partial_execution.impl import executor
from exactly_lib.execution.partial_execution.result import PartialExeResult
from exactly_lib.execution.result import ExecutionFailureStatus, ActionToCheckOutcome
from exactly_lib.tcfs import sds as sds_module
from exactly_lib.tcfs.sds import SandboxDs

M = Module('C04')

P_SDS = 'exactly_lib.tcfs.sds'
P_MISC = 'exactly_lib.util.file_utils.misc_utils'
P_EXE = 'exactly_lib.execution.partial_execution.execution'
P_EXECUTOR = 'exactly_lib.execution.partial_execution.impl.executor'
P_ATC = 'exactly_lib.execution.partial_execution.impl.atc_execution'

M.assume('file-system and process-state operations behave as the models of pyvc/fsmodel.py say (closed-world ghost '
         'file system; operations fail only for the reasons modelled: no permission errors, full disks or '
         'concurrent processes) -- DESIGN C04 "file-system operations of sandbox construction succeed"')
M.assume('a path is identified with its string and p / name is str(p) + "/" + name: exact for pathlib when p is a '
         'normalised name other than a file-system root and name a normalised relative name; the names the code '
         'joins are cross-checked against pathlib on every run (check `path-model`)')


# ============================================================================ spec functions (native + symbolic)

def is_dir(p):
    """the directory exists (ghost file system in proofs, the real one natively)"""
    return os.path.isdir(str(p))


def _m_is_dir(interp, args, kwargs):
    return fsmodel.is_known_dir(interp, fsmodel.path_str(interp, args[0]))


M.model(is_dir, _m_is_dir)


def exists(p):
    return os.path.lexists(str(p))


def _m_exists(interp, args, kwargs):
    return fsmodel.is_known_entry(interp, fsmodel.path_str(interp, args[0]))


M.model(exists, _m_exists)


def below(p, d):
    """p lies strictly below the directory d"""
    return str(p).startswith(str(d) + '/')


def events(trace, *kinds):
    return [e for e in trace if e[0] in kinds]


FS_EVENTS = ('mkdir', 'open', 'write', 'close', 'chmod', 'rmtree', 'mkdtemp')


def fs_paths(trace):
    """the paths of all file-system events of the trace (writes and closes are identified by their `open`)"""
    return [e[1] for e in trace if e[0] in ('mkdir', 'open', 'chmod', 'rmtree', 'mkdtemp')]


# ============================================================================ shapes

def _declare_existing_dir(name):
    """contract `setup`: the named str/path parameter is an existing directory, and -- the ghost file system
    being closed-world -- an empty one.  The matching `requires` clause makes callers prove it."""

    def setup(interp, args, ghosts):
        fsmodel.declare_dir(interp, fsmodel.path_str(interp, args[name]))

    return setup


PATH = Custom(lambda interp, name: fsmodel.mk_path(interp, Str.make(interp, name)))


def _mk_sds(interp, name):
    """a SandboxDs as its constructor builds it from a symbolic root name"""
    return interp.call(SandboxDs, [Str.make(interp, name + '.root')], {})


SDS = Custom(_mk_sds)


def layout(sds, root):
    """the documented layout of a sandbox rooted at `root`"""
    return (str(sds.root_dir) == str(Path(root))
            and str(sds.act_dir) == str(Path(root) / 'act')
            and str(sds.user_tmp_dir) == str(Path(root) / 'tmp')
            and str(sds.result_dir) == str(Path(root) / 'result')
            and str(sds.internal_tmp_dir) == str(Path(root) / 'internal' / 'tmp')
            and str(sds.log_dir) == str(Path(root) / 'internal' / 'log')
            and str(sds.result.stdout_file) == str(Path(root) / 'result' / 'stdout')
            and str(sds.result.stderr_file) == str(Path(root) / 'result' / 'stderr')
            and str(sds.result.exitcode_file) == str(Path(root) / 'result' / 'exit-code'))


def layout_dirs(root):
    return [str(Path(root) / 'act'), str(Path(root) / 'tmp'), str(Path(root) / 'result'),
            str(Path(root) / 'internal'), str(Path(root) / 'internal' / 'tmp'),
            str(Path(root) / 'internal' / 'log')]


# ============================================================================ tcfs/sds.py

M.contract(P_SDS + ':SandboxDs.__init__', params=dict(self=Inst(SandboxDs), dir_name=Str), inline=True,
           ensures={'documented-layout': lambda self, dir_name: layout(self, dir_name),
                    'no-file-system-effect': lambda trace: trace == []},
           raises_only=())

def construct_at_events(directory_root):
    """the file-system effect of construct_at: exactly the documented directories, parents first"""
    return [('mkdir', d) for d in layout_dirs(directory_root)]


def happen(evts):
    """call-site counterpart of a clause about the callee's own events: the events happen (they are appended to
    the caller's ghost trace and applied to the ghost file system).  No native meaning."""
    return True


def _m_happen(interp, args, kwargs):
    for e in args[0]:
        if e[0] == 'mkdir':
            fsmodel.declare_dir(interp, e[1])
        else:
            raise fsmodel.Unsupported('happen(): event kind %r' % (e[0],))
        interp.st.emit(*e)
    return True


M.model(happen, _m_happen)

M.contract(P_SDS + ':construct_at', params=dict(directory_root=Str), returns=SDS,
           setup=_declare_existing_dir('directory_root'),
           # a fresh sandbox root: an existing directory with nothing in it
           requires=lambda directory_root: is_dir(directory_root)
                                           and not any(exists(d) for d in layout_dirs(directory_root)),
           event='construct_at',
           ensures={
               'creates-exactly-the-documented-directories-parents-first': (
                   lambda directory_root, trace: trace == construct_at_events(directory_root), 'check'),
               'the-directories-exist-afterwards': (
                   lambda directory_root: all(is_dir(d) for d in layout_dirs(directory_root)), 'check'),
               '(call sites: these events happen)': (
                   lambda directory_root: happen(construct_at_events(directory_root)), 'effect'),
               'result-has-the-documented-layout': lambda directory_root, result: layout(result, directory_root),
           },
           raises_only=())


# ============================================================================ util/file_utils/misc_utils.py

def harness_preserved_cwd(elsewhere, then_raise):
    """`preserved_cwd` is a generator-based context manager: exercised with a body that changes the
    directory and then either completes or raises (the two ways a `with` body can end)."""
    from exactly_lib.util.file_utils.misc_utils import preserved_cwd
    before = os.getcwd()
    try:
        with preserved_cwd():
            os.chdir(elsewhere)
            if then_raise:
                raise KeyError('body fails')
    except KeyError:
        pass
    return os.getcwd() == before


M.contract('contracts.C04_sandbox:harness_preserved_cwd',
           params=dict(elsewhere=Str, then_raise=Bool),
           setup=_declare_existing_dir('elsewhere'),
           ensures={'cwd-restored-however-the-body-ends': lambda result: result},
           raises_only=())

M.contract(P_MISC + ':make_file_read_only__p', params=dict(path=PATH), inline=True,
           setup=lambda interp, args, ghosts: fsmodel.declare_file(interp, args['path']._s),
           requires=lambda path: exists(path),
           ensures={'read-only-for-everyone': lambda path, trace: trace == [('chmod', str(path), 0o444)]},
           raises_only=())

M.contract(P_MISC + ':resolved_path_name', params=dict(existing_path=Str), inline=True,
           setup=_declare_existing_dir('existing_path'),
           requires=lambda existing_path: is_dir(existing_path),
           ensures={'another-name-of-the-same-directory': lambda result: is_dir(result),
                    'no-file-system-change': lambda trace: events(trace, *FS_EVENTS) == []},
           raises_only=())


# ============================================================================ partial_execution/execution.py

STATUS = Opt(EnumOf(ExecutionFailureStatus))
ATC_OUTCOME = Opt(Inst(ActionToCheckOutcome, _tuple=[Int]))
PARTIAL_RESULT = Inst(PartialExeResult, _PartialExeResult__status=STATUS, _ResultBase__sds=Opt(SDS),
                      _ResultBase__action_to_check_outcome=ATC_OUTCOME, _ResultBase__failure_info=Opt(Any_))


def _m_executor_execute(interp, args, kwargs):
    """Model of the module-level `executor.execute(configuration, test_case)` = `_PartialExecutor(..).execute()`:
    ANY outcome -- returns a result with or without sandbox, or raises anything -- and leaves the process in
    ANY current directory (it changes to act/, instructions change directory at will).  C01 proves the
    stronger facts (never raises PhaseStepFailureException, has_sds iff the sandbox was constructed); nothing
    of that is needed here."""
    from pyvc.interp import PyRaise, ArbitraryException
    st = interp.st
    st.emit('partial-executor', tuple(args))
    elsewhere = Str.make(interp, 'cwd-after-executor')
    fsmodel.declare_dir(interp, elsewhere)
    st.ghost['cwd'] = elsewhere
    k = st.choose(2)
    if k == 1:
        st.emit('partial-executor:raised')
        raise PyRaise(ArbitraryException('anything the executor lets escape'))
    r = PARTIAL_RESULT.make(interp, 'partial_result')
    st.ghost['executor-result'] = r
    return r


M.model(executor.execute, _m_executor_execute)
M.trust('executor.execute (module level): modelled as "any outcome, any current directory afterwards" -- a '
        'superset of the behaviours C01 proves for _PartialExecutor.execute')


def rmtree_events(trace):
    return events(trace, 'rmtree')


M.contract(P_EXE + ':execute',
           params=dict(test_case=Any_, full_exe_input_conf=Any_, conf_phase_values=Any_, setup_handler=Any_,
                       is_keep_sandbox=Bool),
           returns=PARTIAL_RESULT, event='partial-execution',
           old=lambda: os.getcwd(),
           ensures={
               'cwd-restored': lambda old: os.getcwd() == old,
               'sandbox-removed-unless-keep': lambda result, is_keep_sandbox, trace:
               rmtree_events(trace) == ([('rmtree', str(result.sds.root_dir), True)]
                                        if result.has_sds and not is_keep_sandbox else []),
               'removal-comes-after-leaving-the-sandbox': lambda trace:
               [e[0] for e in events(trace, 'chdir', 'rmtree')][:1] != ['rmtree'],
               'result-is-the-executors': lambda result, ghost: result is ghost['executor-result'],
               'executor-runs-once': lambda trace: len(events(trace, 'partial-executor')) == 1,
           },
           raises={Exception: {'ensures': lambda old, trace: os.getcwd() == old and rmtree_events(trace) == []
                                                             and events(trace, 'partial-executor:raised') != []}},
           raises_only=())


# ============================================================================ environment mappings
# The configured environ is an arbitrary mapping (an opaque object); `dict(m)` is assumed to return a NEW dict
# with the items of m, `MappingProxyType(m)` a read-only view of m (DESIGN C04, assumed contracts).

def _m_dict_copy(interp, self, args, kwargs):
    c = new_opaque(interp, EnvMapI, 'dict-copy')
    c._pv_ghost['copy_of'] = self
    c._pv_ghost['is_dict'] = True
    interp.st.emit('dict-copy', self, c)
    return c


class EnvMapI(Interface):
    """a mapping of environment variables; nothing is known about its items"""
    methods = {'__dict_copy__': Method(model=_m_dict_copy)}


class RoViewI(Interface):
    """a types.MappingProxyType"""
    target_class = MappingProxyType


def _m_mapping_proxy(interp, args, kwargs):
    (m,) = args
    if isinstance(m, fsmodel.SOpt):
        m = interp.resolve(m)
    v = new_opaque(interp, RoViewI, 'ro-view')
    v._pv_ghost['view_of'] = m
    return v


M.model(MappingProxyType, _m_mapping_proxy)
M.trust('dict(m) returns a new dict equal to m; types.MappingProxyType(m) is a read-only view of m')

ENVIRON = Opt(Iface(EnvMapI))


def is_fresh_copy(a, b):
    """a is a dict of its own (not b itself) with the items of b"""
    return type(a) is dict and a is not b and a == b


def _m_is_fresh_copy(interp, args, kwargs):
    a, b = [interp.resolve(x) if isinstance(x, fsmodel.SOpt) else x for x in args]
    return (a is not b and getattr(a, '_pv_ghost', {}).get('is_dict') is True
            and a._pv_ghost.get('copy_of') is b)


M.model(is_fresh_copy, _m_is_fresh_copy)


def is_read_only_view_of(v, m):
    return type(v) is MappingProxyType and v == m


def _m_is_read_only_view_of(interp, args, kwargs):
    v, m = [interp.resolve(x) if isinstance(x, fsmodel.SOpt) else x for x in args]
    return v is not m and getattr(v, '_pv_ghost', {}).get('view_of') is m


M.model(is_read_only_view_of, _m_is_read_only_view_of)


def none_or(x, pred):
    return x is None or pred(x)


# ============================================================================ partial_execution/impl/executor.py

from exactly_lib.execution.configuration import ExecutionConfiguration
from exactly_lib.execution.partial_execution.configuration import ConfPhaseValues, TestCase
from exactly_lib.execution.partial_execution.impl.executor import _PartialExecutor, Configuration
from exactly_lib.execution import phase_file_space
from exactly_lib.test_case.phases.instruction_settings import InstructionSettings
from exactly_lib.util.name_and_value import NameAndValue
from exactly_lib.util.symbol_table import SymbolTable


def _m_new_sandbox_root(interp, self, args, kwargs):
    """the configured sds_root_dir_resolver: returns the name of a NEW, EMPTY directory (what
    sandbox_dir_resolving.mk_tmp_dir_with_prefix is proved to do, given tempfile.mkdtemp)"""
    return fsmodel.m_mkdtemp(interp, [], {'prefix': 'resolver'})


class RootResolverI(Interface):
    methods = {'__call__': Method(model=_m_new_sandbox_root)}


class SymbolTableI(Interface):
    target_class = SymbolTable
    methods = {'copy': Method(returns=Iface(lambda: SymbolTableI), event='symbols-copy')}


class MkSetupSettingsHandlerI(Interface):
    methods = {'__call__': Method(returns=Any_, event='mk-setup-settings-handler')}


EXE_CONF = Inst(ExecutionConfiguration,
                _tuple=[ENVIRON,                    # environ
                        Iface(RootResolverI),       # sds_root_dir_resolver
                        Iface(SymbolTableI),        # predefined_symbols
                        Opt(Any_),                  # exe_atc_and_skip_assertions
                        Any_,                       # os_services
                        Int,                        # mem_buff_size
                        Any_,                       # default_environ_getter
                        Opt(Int)])                  # timeout_in_seconds
CONF_VALUES = Inst(ConfPhaseValues, _tuple=[Inst(NameAndValue, _tuple=[Str, Any_]), Any_])
CONFIGURATION = Inst(Configuration, _tuple=[EXE_CONF, CONF_VALUES, Iface(MkSetupSettingsHandlerI)])
TEST_CASE = Inst(TestCase, _tuple=[Any_, Any_, Any_, Any_, Any_])
INSTRUCTION_SETTINGS = Inst(InstructionSettings, _environ=ENVIRON, _default_environ_getter=Any_,
                            _timeout_in_seconds=Opt(Int))


def _mk_executor(with_sds):
    """a _PartialExecutor as __init__ leaves it (with_sds: after the sandbox has been constructed)"""

    def mk(interp, name):
        x = object.__new__(_PartialExecutor)
        conf = CONFIGURATION.make(interp, name + '.conf')
        x.conf = conf
        x.exe_conf = conf[0]
        x.conf_values = conf[1]
        x._test_case = TEST_CASE.make(interp, name + '._test_case')
        x._setup_settings_handler = Any_.make(interp, name + '._setup_settings_handler')
        x._os_services = conf[0][4]
        x._instruction_settings = INSTRUCTION_SETTINGS.make(interp, name + '._instruction_settings')
        x._PartialExecutor__sandbox_directory_structure = SDS.make(interp, name + '.sds') if with_sds else None
        x._phase_tmp_space_factory = None
        x._action_to_check_outcome = None
        return x

    return Custom(mk)


EXECUTOR_PRE_SDS = _mk_executor(False)
EXECUTOR_POST_SDS = _mk_executor(True)

M.contract('exactly_lib.execution.partial_execution.impl.act_helper:ActHelper.__init__', trusted=True,
           params=dict(self=Any_, actor_name=Str, act_phase=Any_))
M.trust('ActHelper.__init__ collects the act phase source: no effect on the file system, the current directory '
        'or any environ (C01 contracts ActHelper)')


def handler_environs(trace):
    """the arguments mk_setup_settings_handler was called with"""
    return [e[2][0] for e in trace if e[0] == 'mk-setup-settings-handler']


M.contract(P_EXECUTOR + ':_PartialExecutor.__init__',
           params=dict(self=Inst(_PartialExecutor), conf=CONFIGURATION, test_case=TEST_CASE), inline=True,
           ensures={
               'instruction-settings-environ-is-a-fresh-copy-of-the-configured': lambda self, conf:
               (self._instruction_settings.environ() is None) if conf.exe_conf.environ is None
               else is_fresh_copy(self._instruction_settings.environ(), conf.exe_conf.environ),
               'setup-settings-environ-is-another-fresh-copy': lambda self, conf, trace:
               len(handler_environs(trace)) == 1 and (
                   (handler_environs(trace)[0] is None) if conf.exe_conf.environ is None
                   else (is_fresh_copy(handler_environs(trace)[0], conf.exe_conf.environ)
                         and handler_environs(trace)[0] is not self._instruction_settings.environ())),
               'timeout-and-default-environ-getter-as-configured': lambda self, conf:
               self._instruction_settings.timeout_in_seconds() == conf.exe_conf.timeout_in_seconds
               and self._instruction_settings.default_environ_getter is conf.exe_conf.default_environ_getter,
               'no-sandbox-yet': lambda self: self._sds is None,
               'no-effect-on-file-system-or-cwd': lambda trace: events(trace, 'chdir', *FS_EVENTS) == [],
           },
           raises_only=())

M.contract(P_EXECUTOR + ':_PartialExecutor._env_vars__read_only',
           params=dict(self=EXECUTOR_PRE_SDS), inline=True,
           ensures={'read-only-view-of-the-instruction-settings-environ-or-none': lambda self, result:
           (result is None) if self._instruction_settings.environ() is None
           else is_read_only_view_of(result, self._instruction_settings.environ())},
           raises_only=())

M.contract(P_EXECUTOR + ':_PartialExecutor._construct_and_set_sds',
           params=dict(self=EXECUTOR_PRE_SDS), inline=True,
           ensures={
               'sandbox-is-built-in-the-new-empty-directory-of-the-resolver': lambda self, trace:
               [e[0] for e in trace][:3] == ['mkdtemp', 'resolve', 'construct_at']
               and trace[1][1] == trace[0][1] and trace[2][1]['directory_root'] == trace[1][2]
               and trace[3:] == construct_at_events(trace[1][2]),
               'has-the-documented-layout': lambda self, trace: layout(self._sds, trace[1][2]),
           },
           raises_only=())

M.contract(P_EXECUTOR + ':_PartialExecutor._set_cwd_to_act_dir',
           params=dict(self=EXECUTOR_POST_SDS), inline=True,
           setup=lambda interp, args, ghosts: fsmodel.declare_dir(interp, args['self']._sds.act_dir._s),
           requires=lambda self: is_dir(self._sds.act_dir),
           ensures={'cwd-is-act': lambda self: os.getcwd() == str(self._sds.act_dir),
                    'one-chdir': lambda self, trace: trace == [('chdir', str(self._sds.act_dir))]},
           raises_only=())

M.contract(P_EXECUTOR + ':_PartialExecutor._setup_post_sds_environment',
           params=dict(self=EXECUTOR_PRE_SDS), event='SDS',
           ensures={
               'sandbox-constructed': lambda self: self._sds is not None,
               'fresh-sandbox-with-the-documented-layout': lambda self, trace:
               [e[0] for e in trace][:3] == ['mkdtemp', 'resolve', 'construct_at']
               and trace[1][1] == trace[0][1] and trace[2][1]['directory_root'] == trace[1][2]
               and layout(self._sds, trace[1][2]),
               'starts-with-act-as-current-directory': lambda self: os.getcwd() == str(self._sds.act_dir),
               'exactly-one-chdir': lambda self, trace: events(trace, 'chdir') == [('chdir', str(self._sds.act_dir))],
               'tmp-file-space-is-rooted-at-internal-tmp': lambda self:
               str(self._phase_tmp_space_factory._root_dir) == str(self._sds.internal_tmp_dir),
               'no-file-system-effect-besides-construction': lambda trace:
               events(trace, *FS_EVENTS) == [trace[0]] + construct_at_events(trace[1][2]),
           },
           raises_only=())
